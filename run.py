#!/venv/bin/python
"""CLI: /venv/bin/python run.py <Cxx> [--tier quick|thorough] [--replay file]   (cwd /verif)

exit 0: property held on everything explored; exit 1 + 'VIOLATION property=<id> replay=<path>';
exit 2: harness error (never a verdict)."""
import os
import sys

HERE = os.path.dirname(os.path.abspath(__file__))


def _reexec():
    want = {"PYTHONHASHSEED": "0", "PYTHONDONTWRITEBYTECODE": "1"}
    if any(os.environ.get(k) != v for k, v in want.items()):
        os.environ.update(want)
        os.execv(sys.executable, [sys.executable] + sys.argv)


def main():
    _reexec()
    os.chdir(HERE)
    sys.path.insert(0, HERE)
    import argparse
    ap = argparse.ArgumentParser()
    ap.add_argument("prop")
    ap.add_argument("--tier", default=os.environ.get("VERIF_TIER", "quick"), choices=["quick", "thorough"])
    ap.add_argument("--replay", default=None)
    ap.add_argument("--seed", type=int, default=None)
    a = ap.parse_args()
    seed = a.seed if a.seed is not None else int(os.environ.get("VERIF_SEED", "1") or 1)
    try:
        from vlib import env, runner
        try:
            import hypothesis  # noqa
        except ImportError:
            import subprocess
            subprocess.run([sys.executable, "-m", "pip", "install", "-q", "--no-index", "--find-links",
                            "/opt/veriftools/wheels", "hypothesis"], check=False)
        rc = runner.main(a.prop, "checks." + a.prop, a.tier, seed, replay=a.replay)
    except SystemExit:
        raise
    except BaseException:
        import traceback
        traceback.print_exc()
        print("HARNESS-ERROR: runner crashed", file=sys.stderr)
        rc = 2
    sys.stdout.flush()
    sys.exit(rc)


if __name__ == "__main__":
    main()

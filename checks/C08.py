"""C08 - AXI-Lite interconnect keeps grants and routes until every response has returned."""
from hypothesis import strategies as st

from vlib.runner import Sub, ok, bad, skip
from vlib import bench, wb, axil
from checks.C06 import WINDOWS, _overlap, _Bus

RULE = ("AXILiteArbiter, AXILiteDecoder, AXILiteInterconnectShared, AXILiteCrossbar, point-to-point with 1..3 masters x 1..3 "
        "slaves, disjoint maps decoded by the real SoCRegion.decoder, no timeout; per-master programs of reads/writes issued "
        "through five independently scheduled channels (AW before/with W, B/R back-pressure, garbage on idle channels), slaves "
        "with generated ready styles, queue depth and response latency; oracle from the five-channel handshake logs: every "
        "accepted write (address, data, strobe) and read address appears at exactly one slave - the one decoding it - with "
        "identical payload, every response reaches the issuing master exactly once and in issue order with the answering "
        "slave's payload (per-slave memory scoreboard), every master finishes, hold rule on all DUT-driven channels; "
        "non-trivial = two masters with overlapping requests to the same slave and a back-pressured response; distinct = "
        "canonical JSON")
ASSUMPTIONS = ["Migen's simulator (site-packages) defines FHDL semantics",
               "masters use disjoint words (cross-master write ordering is not defined by the protocol)",
               "known findings excluded by construction (counted as classes that stay empty): more than one outstanding request "
               "per direction through AXILiteDecoder (routed by the registered select) and W presented before AW (routed by the idle AW address)",
               "no accesses to unmapped addresses (no DECERR path without a timeout; C11)",
               "AXI4 twins (checks/c08_axi.py): masters use disjoint bytes, bursts obey the AXI4 limits; excluded by construction and "
               "replayed as witnesses: several bursts of one direction outstanding at DIFFERENT slaves through AXIDecoder, W ahead of "
               "its AW through AXIDecoder (more than one slave) or AXIArbiter (more than one master)"]
RULE = RULE + (" || AXI4 twins: AXIArbiter / AXIDecoder / AXIInterconnectShared / AXICrossbar / AXIInterconnectPointToPoint with INCR/FIXED/"
               "WRAP bursts of 1..16 beats, ids, 1/2/4 outstanding bursts per direction, byte-accurate memory slaves; oracle from the port "
               "logs (every AW with its complete W burst and every AR exactly once at the decoded slave, in issue order, never mixed "
               "with another master's beats; every B and R beat back at the issuing master exactly once, in order, unaltered incl. id); "
               "hold rule on all ten DUT-driven channel ends; progress and round-robin fairness; an exhaustive sweep of lock windows")


def st_case(tier, deep=False):
    @st.composite
    def case(draw):
        kind = draw(st.sampled_from(["shared", "shared", "crossbar", "crossbar", "arbiter", "decoder", "p2p"])) if not deep else "arbiter"
        M = 1 if kind in ("decoder", "p2p") else draw(st.integers(2 if deep else 1, 3))
        S = 1 if kind in ("arbiter", "p2p") else draw(st.integers(1, 3))
        wins = []
        for idx in draw(st.permutations(list(range(len(WINDOWS))))):
            w = WINDOWS[idx]
            if all(not _overlap(w, x) for x in wins):
                wins.append(w)
            if len(wins) == S:
                break
        nops = draw(st.integers(3, 8 if tier == "quick" else 16))
        progs = []
        # masters of different address widths (the first one narrower: it addresses only the slaves it can reach)
        low = [j for j in range(S) if wins[j][0] + wins[j][1] <= (1 << 16)]
        narrow = 16 if (kind in ("shared", "crossbar") and M >= 2 and low and not deep and draw(st.integers(0, 2)) == 0) else None
        for m in range(M):
            ops = []
            for _ in range(nops):
                j = draw(st.integers(0, S - 1)) if not (narrow and m == 0) else draw(st.sampled_from(low))
                word = m * 4 + draw(st.integers(0, 3))          # master m owns words 4m..4m+3 of every slave window
                ops.append({"we": draw(st.integers(0, 1)), "addr": wins[j][0] + 4 * word, "data": draw(st.integers(0, 0xffffffff)),
                            "strb": draw(st.sampled_from([15, 15, 3, 8, 5]))})
            progs.append(ops)
        multi = deep or (kind == "arbiter" and draw(st.booleans()))      # the arbiter alone supports several outstanding requests
        if deep:
            # deep queues: one master issues a run of requests of one direction over its four words (only a fifth write to the
            # same word has to wait), the others compete in the same direction, so that many requests are outstanding at once
            d = draw(st.integers(0, 1))
            mm = draw(st.integers(0, M - 1))
            for m in range(M):
                n_ = draw(st.integers(5, 10)) if m == mm else draw(st.integers(1, 4))
                progs[m] = [{"we": d if draw(st.integers(0, 7)) else 1 - d, "addr": wins[0][0] + 4 * (m * 4 + (k_ % 4)),
                             "data": draw(st.integers(0, 0xffffffff)), "strb": 15} for k_ in range(n_)]
        return {"kind": kind, "M": M, "S": S, "wins": [list(w) for w in wins], "progs": progs, "narrow": narrow,
                "K": (draw(st.sampled_from([2, 4, 6, 8])) if not deep else draw(st.sampled_from([4, 5, 6, 8]))) if multi else 1,
                # data before address only where no decoder is involved (known finding axil-decoder-w-before-aw)
                "w_after_aw": draw(st.booleans()) if kind in ("arbiter", "p2p") else True,
                "ms": [axil.st_chan_scheds(draw) for _ in range(M)], "ss": [axil.st_chan_scheds(draw) for _ in range(S)],
                "Q": draw(st.sampled_from([1, 2, 4, 8])) if not deep else draw(st.sampled_from([4, 8, 8])), "wait_valid": draw(st.booleans()),
                "gm": draw(st.one_of(st.none(), st.integers(0, 999))), "gs": draw(st.one_of(st.none(), st.integers(0, 999))),
                "seed": draw(st.integers(0, 2 ** 16))}
    return case()


def _k(case, base):
    """violations outside the healthy envelope of AXILiteDecoder map onto its two known findings"""
    if case["kind"] in ("shared", "crossbar", "decoder"):
        if not case["w_after_aw"]:
            return "axil-decoder-w-before-aw"
        if case["K"] > 1:
            return "axil-decoder-outstanding"
    return base


def run_case(case):
    from migen import Module
    from litex.soc.interconnect import axi
    from litex.soc.integration.soc import SoCRegion
    kind, M, S = case["kind"], case["M"], case["S"]
    top = Module()
    masters = [axi.AXILiteInterface(data_width=32, address_width=32) for _ in range(M)]
    if case.get("narrow"):
        masters[0] = axi.AXILiteInterface(data_width=32, address_width=case["narrow"])
    slaves = [axi.AXILiteInterface(data_width=32, address_width=32) for _ in range(S)]
    regions = [SoCRegion(origin=o, size=s) for o, s in case["wins"]]
    decs = [(r.decoder(_Bus), s) for r, s in zip(regions, slaves)]
    if kind == "shared":
        top.submodules.dut = axi.AXILiteInterconnectShared(masters, decs, timeout_cycles=None)
    elif kind == "crossbar":
        top.submodules.dut = axi.AXILiteCrossbar(masters, decs, timeout_cycles=None)
    elif kind == "arbiter":
        top.submodules.dut = axi.AXILiteArbiter(masters, slaves[0])
    elif kind == "decoder":
        top.submodules.dut = axi.AXILiteDecoder(masters[0], decs)
    else:
        top.submodules.dut = axi.AXILiteInterconnectPointToPoint(masters[0], slaves[0])
    mags = [axil.AXILMaster(masters[m], case["progs"][m], case["ms"][m], K=case["K"], w_after_aw=case["w_after_aw"],
                            garbage_seed=None if case["gm"] is None else case["gm"] + 100 * m) for m in range(M)]

    def init(j):
        return [((case["seed"] + 31 * j + 7 * i) * 2654435761 >> 8) & 0xff for i in range(64)]
    sags = [axil.AXILMemSlave(slaves[j], wb.ByteMem(64, init(j)), case["ss"][j], Q=case["Q"], wait_valid=case["wait_valid"],
                              base=case["wins"][j][0], garbage_seed=None if case["gs"] is None else case["gs"] + 100 * j) for j in range(S)]
    # the slave memory is 64 bytes: index by the low address bits
    for j, sa in enumerate(sags):
        sa.base = 0
        sa.mem_mask = 63
    limit = 400 + sum(len(p) for p in case["progs"]) * 250
    cyc = bench.run(top, mags + sags, limit, stop=lambda t: all(m.finished() for m in mags))
    cls = ["kind:" + kind, "M%dS%d" % (M, S), "K=%d" % case["K"]] + (["mixed-address-widths"] if case.get("narrow") else [])
    ctx = "%s %dx%d K=%d Q=%d" % (kind, M, S, case["K"], case["Q"])
    for j, sa in enumerate(sags):
        if sa.hold_violations():
            c_, txt = sa.hold_violations()[0]
            return bad("hold-slave-side", "%s: towards slave %d, cycle %d: %s" % (ctx, j, c_, txt), key=_k(case, "axilic-hold:" + kind), cls=cls, cycles=cyc)
    for m, ma in enumerate(mags):
        if ma.hold_violations():
            c_, txt = ma.hold_violations()[0]
            return bad("hold-master-side", "%s: B/R towards master %d, cycle %d: %s" % (ctx, m, c_, txt), key=_k(case, "axilic-hold:" + kind), cls=cls, cycles=cyc)
    for m, ma in enumerate(mags):
        if ma.extra_responses:
            ch, c_, tok = ma.extra_responses[0]
            return bad("response-once", "%s: master %d received a %s response in cycle %d that none of its requests is waiting for" %
                       (ctx, m, ch.upper(), c_), key=_k(case, "axilic-once:" + kind), cls=cls, cycles=cyc)
    if not all(m.finished() for m in mags):
        m = next(i for i, a in enumerate(mags) if not a.finished())
        p = next(i for i, d in enumerate(mags[m].done) if not d)
        return bad("served", "%s: master %d operation %d %r never completed (%d cycles)" % (ctx, m, p, case["progs"][m][p], cyc),
                   key=_k(case, "axilic-hang:" + kind), cls=cls, cycles=cyc)

    def slave_of(addr):
        if kind in ("arbiter", "p2p"):
            return 0
        return next(j for j in range(S) if case["wins"][j][0] <= addr < sum(case["wins"][j]))
    # routing: per slave multiset of accepted writes / reads == what the masters issued for that slave
    for j, sa in enumerate(sags):
        got_w = sorted((a, d, s) for _, a, d, s in sa.writes)
        exp_w = sorted((o["addr"], o["data"], o["strb"]) for p in case["progs"] for o in p if o["we"] and slave_of(o["addr"]) == j)
        if got_w != exp_w:
            extra = [x for x in got_w if x not in exp_w][:2]
            missing = [x for x in exp_w if x not in got_w][:2]
            return bad("route-write", "%s: slave %d accepted writes that differ from those addressed to it: unexpected %r, missing %r" %
                       (ctx, j, extra, missing), key=_k(case, "axilic-route:" + kind), cls=cls, cycles=cyc)
        got_r = sorted(a for _, a in sa.reads)
        exp_r = sorted(o["addr"] for p in case["progs"] for o in p if not o["we"] and slave_of(o["addr"]) == j)
        if got_r != exp_r:
            return bad("route-read", "%s: slave %d accepted read addresses %r, addressed to it %r" % (ctx, j, got_r[:6], exp_r[:6]),
                       key=_k(case, "axilic-route:" + kind), cls=cls, cycles=cyc)
    # responses: per master in program order against per-slave models (masters own disjoint words)
    overlap = 0
    backp = sum(m.b.stalled + m.r.stalled for m in mags)
    for m, ma in enumerate(mags):
        models = [wb.ByteMem(64, init(j)) for j in range(S)]
        for i, o in enumerate(case["progs"][m]):
            j = slave_of(o["addr"])
            c_, data, resp, tok = ma.result[i]
            off = o["addr"] & 63 & ~3
            if resp != 0:
                return bad("resp", "%s: master %d op %d answered resp=%d" % (ctx, m, i, resp), key=_k(case, "axilic-resp:" + kind), cls=cls)
            if o["we"]:
                models[j].write(off, 4, o["data"], o["strb"])
            else:
                exp = models[j].read(off, 4)
                if data != exp:
                    return bad("response-data", "%s: master %d read #%d of %#x returned %#x, slave %d holds %#x (response of another request or slave?)" %
                               (ctx, m, i, o["addr"], data, j, exp), key=_k(case, "axilic-data:" + kind), cls=cls, cycles=cyc)
    # final slave memories
    for j, sa in enumerate(sags):
        model = wb.ByteMem(64, init(j))
        for m in range(M):
            for o in case["progs"][m]:
                if o["we"] and slave_of(o["addr"]) == j:
                    model.write(o["addr"] & 63 & ~3, 4, o["data"], o["strb"])
        if bytes(model.b) != bytes(sa.mem.b):
            return bad("slave-memory", "%s: slave %d memory differs from the model" % (ctx, j), key=_k(case, "axilic-data:" + kind), cls=cls)
    if M >= 2:
        tgt = [set(slave_of(o["addr"]) for o in p) for p in case["progs"]]
        overlap = len(set.intersection(*tgt)) if tgt else 0
    return ok(nt=(M >= 2 and overlap >= 1 and backp >= 1), cls=cls + (["backpressure"] if backp else []), cycles=cyc)


def subchecks():
    from checks import c08_axi          # the AXI4 twins (AXIArbiter, AXIDecoder, AXIInterconnectShared, AXICrossbar, P2P)
    return [
        Sub("axilite-interconnect", run_case, strategy=st_case, examples=(1000, 50000), timeout=(900, 20000),
            rule="generated AXI-Lite topologies, maps, programs and five-channel schedules"),
        Sub("axilite-deep-queues", run_case, strategy=lambda tier: st_case(tier, deep=True), examples=(400, 12000), timeout=(900, 20000),
            rule="AXILiteArbiter with 4..8 requests of one direction outstanding at a slave that queues them, other masters competing"),
    ] + c08_axi.subchecks()

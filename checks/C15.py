"""C15 - Interrupt events are never lost and the IRQ line means pending-and-enabled."""
import itertools

from hypothesis import strategies as st

from vlib.runner import Sub, ok, bad, skip
from vlib import bench

RULE = ("EventManager with 1..12 sources of generated kinds (pulse, rising/falling process, level) behind a real CSRBank "
        "(bus 8/32 so that >8 sources span words; big ordering), optionally 2..3 managers under SharedIRQ; per-cycle "
        "trigger waveforms for every source and a program of complete accessor writes to pending/enable and reads of "
        "status/pending/enable; a cycle-accurate model (irq = OR(pending & enable); set has priority over clear; clear "
        "only from a written one; level mirrors; status raw) is compared with pending, status, irq in every cycle and "
        "with every bus read; non-trivial = a clear write whose effect lands within +-1 cycle of a trigger event of the "
        "same source, or a clear of one source while another is pending; distinct = canonical JSON")
ASSUMPTIONS = ["Migen's simulator (site-packages) defines FHDL semantics",
               "multi-word pending/enable registers are written with the complete accessor sequence (all words, address order) - documented multi-word r/re semantics",
               "CSR bank semantics as checked by C12",
               "gpio-irq: judged on the synchronised input shown in the core's own status register; inputs hold each level >= 4 cycles "
               "(in Change mode the trigger is in ^ in_delayed, a level of its own: changes in consecutive cycles merge into one event); "
               "the configuration is written before the inputs move and its artefacts (writing Edge=1 while the input is low raises the "
               "trigger) are cleared; events within 4 cycles of a clear are not judged"]

KINDS = ["pulse", "rising", "falling", "level"]


def _m(w):
    return (1 << w) - 1


def st_wave(n):
    """per-cycle bit list of length n from runs"""
    return st.lists(st.tuples(st.integers(0, 1), st.integers(1, 6)), min_size=1, max_size=12).map(
        lambda runs: [b for b, k in runs for _ in range(k)])


def st_case(tier):
    @st.composite
    def case(draw):
        nman = draw(st.sampled_from([1, 1, 1, 2, 3]))
        bw = draw(st.sampled_from([8, 32]))
        mans = []
        for _ in range(nman):
            ns = draw(st.sampled_from([1, 2, 3, 4, 8, 9, 12])) if nman == 1 else draw(st.integers(1, 4))
            mans.append([draw(st.sampled_from(KINDS)) for _ in range(ns)])
        T = draw(st.integers(20, 60 if tier == "quick" else 120))
        waves = [[draw(st_wave(T)) for _ in m] for m in mans]
        prog = []
        for _ in range(draw(st.integers(2, 10))):
            k = draw(st.integers(0, 5))
            man = draw(st.integers(0, nman - 1))
            ns = len(mans[man])
            if k <= 1:
                prog.append({"op": "clear", "man": man, "val": draw(st.one_of(st.integers(0, _m(ns)), st.sampled_from([1 << i for i in range(ns)]))),
                             "gap": draw(st.integers(0, 6))})
            elif k <= 3:
                prog.append({"op": "enable", "man": man, "val": draw(st.one_of(st.integers(0, _m(ns)), st.just(_m(ns)))), "gap": draw(st.integers(0, 4))})
            else:
                prog.append({"op": "read", "man": man, "reg": draw(st.sampled_from(["status", "pending", "enable"])), "gap": draw(st.integers(0, 4))})
        return {"bw": bw, "mans": mans, "waves": waves, "prog": prog, "T": T}
    return case()


def _build(case):
    from migen import Module
    from litex.soc.interconnect import csr_bus
    from litex.soc.interconnect import csr_eventmanager as evm
    top = Module()
    bw = case["bw"]
    bus = csr_bus.Interface(data_width=bw, address_width=14)
    evs, banks, buses = [], [], []
    for mi, kinds in enumerate(case["mans"]):
        ev = evm.EventManager()
        srcs = []
        for i, k in enumerate(kinds):
            name = "s%d" % i
            if k == "pulse":
                s = evm.EventSourcePulse(name=name)
            elif k == "level":
                s = evm.EventSourceLevel(name=name)
            else:
                s = evm.EventSourceProcess(name=name, edge=k)
            setattr(ev, name, s)
            srcs.append(s)
        ev.finalize()
        b = csr_bus.Interface(data_width=bw, address_width=14)
        bank = csr_bus.CSRBank(ev.get_csrs(), address=mi, bus=b, paging=0x800, ordering="big")
        top.submodules += ev, bank
        evs.append((ev, srcs))
        buses.append(b)
    top.submodules += csr_bus.Interconnect(bus, buses)
    shared = None
    if len(evs) > 1:
        shared = evm.SharedIRQ(*[e for e, _ in evs])
        top.submodules += shared
    return top, bus, evs, shared


def _bus_program(case):
    """expand the program into per-cycle bus actions; returns list of dict(adr,we,re,dat) and read markers"""
    bw = case["bw"]
    cyc = []
    for p in case["prog"]:
        for _ in range(p["gap"]):
            cyc.append(None)
        ns = len(case["mans"][p["man"]])
        nw = (ns + bw - 1) // bw
        base = p["man"] << 9      # paging 0x800 -> 512 words per page
        regoff = {"status": 0, "pending": nw, "enable": 2 * nw}
        if p["op"] in ("clear", "enable"):
            off = regoff["pending" if p["op"] == "clear" else "enable"]
            for a in range(nw):                      # address order: MSB word first (big)
                i = nw - 1 - a
                cyc.append({"adr": base + off + a, "we": 1, "re": 0, "dat": (p["val"] >> (i * bw)) & _m(bw)})
        else:
            off = regoff[p["reg"]]
            for a in range(nw):
                cyc.append({"adr": base + off + a, "we": 0, "re": 1, "dat": 0, "rd": (p["man"], p["reg"], nw - 1 - a)})
            cyc.append(None)
    return cyc


def run_case(case):
    top, bus, evs, shared = _build(case)
    bw = case["bw"]
    prog = _bus_program(case)
    T = max(case["T"], len(prog) + 4)
    sigs = [bus.dat_r]
    for ev, srcs in evs:
        sigs += [ev.irq, ev.status.status, ev.pending.status, ev.enable.storage]
    if shared is not None:
        sigs.append(shared.irq)
    trace = []
    w = bench.Writer()

    def wave(mi, i, t):
        wv = case["waves"][mi][i]
        return wv[t] if t < len(wv) else wv[-1]

    class Agent:
        def signals(self):
            return sigs

        def step(self, t, vals):
            trace.append(vals)
            out = []
            for mi, (ev, srcs) in enumerate(evs):
                for i, s in enumerate(srcs):
                    w.set(out, s.trigger, wave(mi, i, t))
            b = prog[t] if t < len(prog) and prog[t] else {"adr": 0x3fff, "we": 0, "re": 0, "dat": 0}
            w.set(out, bus.adr, b["adr"])
            w.set(out, bus.we, b["we"])
            w.set(out, bus.re, b["re"])
            w.set(out, bus.dat_w, b["dat"])
            return out

    bench.run(top, [Agent()], T + 1)
    # ---- model
    nman = len(evs)
    pend = [[0] * len(k) for k in case["mans"]]
    trig_d = [[0] * len(k) for k in case["mans"]]
    enable = [0] * nman
    pr = [0] * nman          # pending.r
    pre = [0] * nman         # pending.re (registered)
    dat_r = 0
    close = False
    other_pending = False
    cls = ["bus%d" % bw, "managers=%d" % nman]
    for t in range(1, len(trace)):
        c = t - 1
        vals = trace[t]
        b = prog[c] if c < len(prog) and prog[c] else {"adr": 0x3fff, "we": 0, "re": 0, "dat": 0}
        pos = 1
        irqs = []
        nxt = []
        if vals[0] != dat_r:
            return bad("read", "cycle %d: dat_r=%#x, model %#x (read issued in cycle %d: %r)" % (c, vals[0], dat_r, c - 1, prog[c - 1] if 0 < c <= len(prog) else None),
                       key="ev:read", cls=cls)
        ndat = 0
        for mi, kinds in enumerate(case["mans"]):
            irq, status, pending, en = vals[pos:pos + 4]
            pos += 4
            ns = len(kinds)
            nw = (ns + bw - 1) // bw
            trig = [wave(mi, i, c) for i in range(ns)]
            e_status = sum((trig[i] if kinds[i] != "pulse" else 0) << i for i in range(ns))
            e_pending = sum((trig[i] if kinds[i] == "level" else pend[mi][i]) << i for i in range(ns))
            e_irq = int((e_pending & enable[mi]) != 0)
            ctx = "manager %d kinds %r cycle %d" % (mi, kinds, c)
            if status != e_status:
                return bad("status", "%s: status=%#x, raw levels %#x" % (ctx, status, e_status), key="ev:status", cls=cls)
            if pending != e_pending:
                i = next(i for i in range(ns) if ((pending ^ e_pending) >> i) & 1)
                return bad("pending", "%s: pending=%#x, model %#x (source %d %s: trigger history %r, clear strobe %d with written mask %#x)" %
                           (ctx, pending, e_pending, i, kinds[i], [wave(mi, i, x) for x in range(max(0, c - 4), c + 1)], pre[mi], pr[mi]),
                           key="ev:pending:" + kinds[i], cls=cls)
            if en != enable[mi]:
                return bad("enable", "%s: enable=%#x, model %#x" % (ctx, en, enable[mi]), key="ev:enable", cls=cls)
            if irq != int((pending & en) != 0) or irq != e_irq:
                return bad("irq", "%s: irq=%d but pending=%#x enable=%#x" % (ctx, irq, pending, en), key="ev:irq", cls=cls)
            irqs.append(irq)
            # next state
            clear = [(pre[mi] and (pr[mi] >> i) & 1) for i in range(ns)]
            for i, k in enumerate(kinds):
                if k == "pulse":
                    evn = trig[i]
                elif k == "rising":
                    evn = trig[i] and not trig_d[mi][i]
                elif k == "falling":
                    evn = (not trig[i]) and trig_d[mi][i]
                else:
                    evn = 0
                if clear[i] and (evn or (c > 0 and pend[mi][i])):
                    close = close or bool(evn)
                if clear[i] and any(pend[mi][j] and not clear[j] for j in range(ns) if j != i):
                    other_pending = True
                if k != "level":
                    pend[mi][i] = 1 if evn else (0 if clear[i] else pend[mi][i])
                trig_d[mi][i] = trig[i]
            # bus side (bank at page mi, words: status[nw] pending[nw] enable[nw], big ordering)
            sel = (b["adr"] >> 9) == mi
            idx = b["adr"] & 511
            new_pre = 0
            if sel and idx < 3 * nw:
                reg, a = divmod(idx, nw)
                i = nw - 1 - a
                nbits = min(ns - i * bw, bw)
                if reg == 0:
                    ndat |= (e_status >> (i * bw)) & _m(nbits)
                elif reg == 1:
                    ndat |= (e_pending >> (i * bw)) & _m(nbits)
                    if b["we"]:
                        pr[mi] = (pr[mi] & ~(_m(nbits) << (i * bw))) | ((b["dat"] & _m(nbits)) << (i * bw))
                        if i == 0:
                            new_pre = 1
                else:
                    ndat |= (enable[mi] >> (i * bw)) & _m(nbits)
                    if b["we"]:
                        enable[mi] = (enable[mi] & ~(_m(nbits) << (i * bw))) | ((b["dat"] & _m(nbits)) << (i * bw))
            pre[mi] = new_pre
        if shared is not None:
            if vals[pos] != int(any(irqs)):
                return bad("shared-irq", "cycle %d: shared irq=%d, manager irqs %r" % (c, vals[pos], irqs), key="ev:shared", cls=cls)
        dat_r = ndat
    return ok(nt=close or other_pending, cls=cls + (["clear-meets-trigger"] if close else []) + (["clear-while-other-pending"] if other_pending else []),
              cycles=T)


def enum_align(tier):
    """one source of each kind, trigger pulse at cycle p (width 1..3), clear written at cycle c: all (p, c) in [2,10)^2"""
    out = []
    for kind in KINDS:
        for bw in (8, 32):
            for p, c, width in itertools.product(range(2, 10), range(1, 12), (1, 2, 3)):
                wave = [0] * p + [1] * width + [0] * 4
                out.append({"bw": bw, "mans": [[kind, "pulse"]], "waves": [[wave, [0, 0, 0, 1, 0]]], "T": 24,
                            "prog": [{"op": "enable", "man": 0, "val": 1, "gap": 0},
                                     {"op": "clear", "man": 0, "val": 1, "gap": max(0, c - 1)},
                                     {"op": "read", "man": 0, "reg": "pending", "gap": 2}]})
    return out


# ------------------------------------------------------------------------------------ GPIO interrupt client

def st_gpio(tier):
    @st.composite
    def case(draw):
        n = draw(st.integers(1, 4))
        T = draw(st.integers(40, 80 if tier == "quick" else 160))
        waves = []
        for _ in range(n):
            runs = draw(st.lists(st.tuples(st.integers(0, 1), st.integers(4, 9)), min_size=2, max_size=14))
            waves.append([b for b, k in runs for _ in range(k)])
        clears = sorted(draw(st.lists(st.tuples(st.integers(16, T - 4), st.integers(1, _m(n))), max_size=4)))
        return {"n": n, "mode": draw(st.integers(0, _m(n))), "edge": draw(st.integers(0, _m(n))), "waves": waves, "clears": [list(c) for c in clears],
                "tristate": draw(st.booleans()), "T": T}
    return case()


def run_gpio(case):
    """GPIOIn / GPIOTristate(with_irq=True): 'Mode 0: Edge, 1: Change; Edge 0: Rising, 1: Falling' per pad (the CSR descriptions),
    judged on the synchronised input the core itself shows in its status register"""
    from migen import Module, Signal, Record
    from litex.soc.interconnect import csr_bus
    from litex.soc.cores import gpio
    n, T = case["n"], case["T"]
    top = Module()
    if case.get("tristate"):
        pads = Record([("o", n), ("oe", n), ("i", n)])
        dut = gpio.GPIOTristate(pads, with_irq=True)
        pin = pads.i
    else:
        pin = Signal(n)
        dut = gpio.GPIOIn(pin, with_irq=True)
    bus = csr_bus.Interface(data_width=32, address_width=14)
    bank = csr_bus.CSRBank(dut.get_csrs(), address=0, bus=bus, paging=0x800, ordering="big")
    top.submodules += dut, bank
    adr = {}
    for i, c in enumerate(bank.simple_csrs):
        adr[c.name] = i
        if c.name.endswith("0"):
            adr.setdefault(c.name[:-1], i)       # one-word storages are named <name>0
    need = ["mode", "edge", "ev_pending", "ev_enable"]
    if any(k not in adr for k in need):
        raise RuntimeError("GPIO CSR names %r" % sorted(adr))
    writes = {2: (adr["mode"], case["mode"]), 3: (adr["edge"], case["edge"]), 4: (adr["ev_enable"], _m(n)), 9: (adr["ev_pending"], _m(n))}
    for c, mask in case["clears"]:
        writes[c] = (adr["ev_pending"], mask)
    START = 14                      # inputs move only after the configuration has been written and its artefacts cleared
    w = bench.Writer()

    def drive(t):
        d = {}
        v = 0
        for i, wv in enumerate(case["waves"]):
            k = t - START
            b = wv[0] if k < 0 else (wv[k] if k < len(wv) else wv[-1])
            v |= b << i
        d[pin] = v
        if t in writes:
            d[bus.adr], d[bus.we], d[bus.dat_w] = writes[t][0], 1, writes[t][1]
        else:
            d[bus.adr], d[bus.we], d[bus.dat_w] = 0, 0, 0
        return d
    probe = bench.Probe([dut._in.status, dut.ev.pending.status, dut.ev.irq, dut.ev.enable.storage])
    cyc = bench.run(top, [bench.Driver(drive), probe], T + START + 8)
    tr = probe.trace
    cls = ["gpio:%s" % ("tristate" if case.get("tristate") else "in"), "pads%d" % n]
    if len({(case["edge"] >> i) & 1 for i in range(n) if not (case["mode"] >> i) & 1}) == 2:
        cls.append("mixed-edges")
    clear_cycles = sorted(c for c in writes if writes[c][0] == adr["ev_pending"])
    ctx = "%s(%d pads, with_irq) mode=%s edge=%s" % ("GPIOTristate" if case.get("tristate") else "GPIOIn", n, bin(case["mode"]), bin(case["edge"]))
    events = 0
    for i in range(n):
        chg = (case["mode"] >> i) & 1
        fall = (case["edge"] >> i) & 1
        what = "change" if chg else ("falling edge" if fall else "rising edge")
        ev_at = []
        for t in range(START + 2, len(tr)):
            a, b = (tr[t - 1][0] >> i) & 1, (tr[t][0] >> i) & 1
            if (chg and a != b) or (not chg and not fall and (a, b) == (0, 1)) or (not chg and fall and (a, b) == (1, 0)):
                ev_at.append(t)
        events += len(ev_at)
        for t in ev_at:
            if t + 3 >= len(tr):
                continue
            # a clear written in trace index c takes effect around c+1..c+2
            if any(t - 3 <= c <= t + 4 for c in clear_cycles):
                continue
            if not (tr[t + 3][1] >> i) & 1:
                return bad("gpio-event-lost", "%s: pad %d (%s mode): input %d->%d in cycle %d, pending bit still 0 three cycles later" %
                           (ctx, i, what, (tr[t - 1][0] >> i) & 1, (tr[t][0] >> i) & 1, t), key="c15:gpio", cls=cls, cycles=cyc)
        for t in range(START + 2, len(tr) - 1):
            if not (tr[t - 1][1] >> i) & 1 and (tr[t][1] >> i) & 1:
                if not any(t - 4 <= e <= t for e in ev_at):
                    return bad("gpio-event-spurious", "%s: pad %d (%s mode): pending bit rises in cycle %d without a %s of the input in the four cycles before "
                               "(input history %r)" % (ctx, i, what, t, what, [(x[0] >> i) & 1 for x in tr[max(0, t - 6):t + 1]]), key="c15:gpio", cls=cls, cycles=cyc)
    for t in range(START, len(tr)):
        if tr[t][2] != int((tr[t][1] & tr[t][3]) != 0):
            return bad("irq", "%s: cycle %d: irq=%d, pending=%#x enable=%#x" % (ctx, t, tr[t][2], tr[t][1], tr[t][3]), key="c15:gpio", cls=cls, cycles=cyc)
    return ok(nt=events >= 2 and n >= 2, cls=cls, cycles=cyc)


def subchecks():
    from checks import C19           # the UART and Timer clients named in this property's anchors: C19's runners judge their event lines,
    #                                  pending bits (cleared by software's write-one only), irq = OR(pending & enable) cycle by cycle
    return [
        Sub("uart-client", C19.run_uartcore, strategy=C19.st_uartcore, examples=(144, 4000),
            rule="UART core: tx/rx event sources follow the FIFO status, pending bits set by the edge and cleared by a written one only "
                 "(also with rx_fifo_rx_we, where reading RXTX pops the FIFO), irq = OR(pending & enable)"),
        Sub("timer-client", C19.run_timer, strategy=C19.st_timer, examples=(160, 4000),
            rule="Timer core: zero event pending / irq against the counter model under generated CSR histories"),
        Sub("manager", run_case, strategy=st_case, examples=(2500, 80000),
            rule="generated managers, trigger waveforms and CSR programs vs cycle-accurate model"),
        Sub("alignment", run_case, enum=enum_align, exhaustive=True,
            rule="every source kind x bus width x ALL (trigger start 2..9, clear-write cycle 1..11, width 1..3) alignments"),
        Sub("gpio-irq", run_gpio, strategy=st_gpio, examples=(600, 12000),
            rule="the GPIO client (GPIOIn / GPIOTristate with_irq): per-pad mode (edge/change) and polarity, generated input waveforms "
                 "(levels held >= 4 cycles) and clears; no qualifying input event lost, no pending bit without one, irq = OR(pending & enable)"),
    ]

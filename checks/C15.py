"""C15 - Interrupt events are never lost and the IRQ line means pending-and-enabled."""
import itertools

from hypothesis import strategies as st

from vlib.runner import Sub, ok, bad, skip
from vlib import bench

RULE = ("EventManager with 1..12 sources of generated kinds (pulse, rising/falling process, level) behind a real CSRBank "
        "(bus 8/32 so that >8 sources span words; big ordering), optionally 2..3 managers under SharedIRQ; per-cycle "
        "trigger waveforms for every source and a program of complete accessor writes to pending/enable and reads of "
        "status/pending/enable; a cycle-accurate model (irq = OR(pending & enable); set has priority over clear; clear "
        "only from a written one; level mirrors; status raw) is compared with pending, status, irq in every cycle and "
        "with every bus read; non-trivial = a clear write whose effect lands within +-1 cycle of a trigger event of the "
        "same source, or a clear of one source while another is pending; distinct = canonical JSON")
ASSUMPTIONS = ["Migen's simulator (site-packages) defines FHDL semantics",
               "multi-word pending/enable registers are written with the complete accessor sequence (all words, address order) - documented multi-word r/re semantics",
               "CSR bank semantics as checked by C12"]

KINDS = ["pulse", "rising", "falling", "level"]


def _m(w):
    return (1 << w) - 1


def st_wave(n):
    """per-cycle bit list of length n from runs"""
    return st.lists(st.tuples(st.integers(0, 1), st.integers(1, 6)), min_size=1, max_size=12).map(
        lambda runs: [b for b, k in runs for _ in range(k)])


def st_case(tier):
    @st.composite
    def case(draw):
        nman = draw(st.sampled_from([1, 1, 1, 2, 3]))
        bw = draw(st.sampled_from([8, 32]))
        mans = []
        for _ in range(nman):
            ns = draw(st.sampled_from([1, 2, 3, 4, 8, 9, 12])) if nman == 1 else draw(st.integers(1, 4))
            mans.append([draw(st.sampled_from(KINDS)) for _ in range(ns)])
        T = draw(st.integers(20, 60 if tier == "quick" else 120))
        waves = [[draw(st_wave(T)) for _ in m] for m in mans]
        prog = []
        for _ in range(draw(st.integers(2, 10))):
            k = draw(st.integers(0, 5))
            man = draw(st.integers(0, nman - 1))
            ns = len(mans[man])
            if k <= 1:
                prog.append({"op": "clear", "man": man, "val": draw(st.one_of(st.integers(0, _m(ns)), st.sampled_from([1 << i for i in range(ns)]))),
                             "gap": draw(st.integers(0, 6))})
            elif k <= 3:
                prog.append({"op": "enable", "man": man, "val": draw(st.one_of(st.integers(0, _m(ns)), st.just(_m(ns)))), "gap": draw(st.integers(0, 4))})
            else:
                prog.append({"op": "read", "man": man, "reg": draw(st.sampled_from(["status", "pending", "enable"])), "gap": draw(st.integers(0, 4))})
        return {"bw": bw, "mans": mans, "waves": waves, "prog": prog, "T": T}
    return case()


def _build(case):
    from migen import Module
    from litex.soc.interconnect import csr_bus
    from litex.soc.interconnect import csr_eventmanager as evm
    top = Module()
    bw = case["bw"]
    bus = csr_bus.Interface(data_width=bw, address_width=14)
    evs, banks, buses = [], [], []
    for mi, kinds in enumerate(case["mans"]):
        ev = evm.EventManager()
        srcs = []
        for i, k in enumerate(kinds):
            name = "s%d" % i
            if k == "pulse":
                s = evm.EventSourcePulse(name=name)
            elif k == "level":
                s = evm.EventSourceLevel(name=name)
            else:
                s = evm.EventSourceProcess(name=name, edge=k)
            setattr(ev, name, s)
            srcs.append(s)
        ev.finalize()
        b = csr_bus.Interface(data_width=bw, address_width=14)
        bank = csr_bus.CSRBank(ev.get_csrs(), address=mi, bus=b, paging=0x800, ordering="big")
        top.submodules += ev, bank
        evs.append((ev, srcs))
        buses.append(b)
    top.submodules += csr_bus.Interconnect(bus, buses)
    shared = None
    if len(evs) > 1:
        shared = evm.SharedIRQ(*[e for e, _ in evs])
        top.submodules += shared
    return top, bus, evs, shared


def _bus_program(case):
    """expand the program into per-cycle bus actions; returns list of dict(adr,we,re,dat) and read markers"""
    bw = case["bw"]
    cyc = []
    for p in case["prog"]:
        for _ in range(p["gap"]):
            cyc.append(None)
        ns = len(case["mans"][p["man"]])
        nw = (ns + bw - 1) // bw
        base = p["man"] << 9      # paging 0x800 -> 512 words per page
        regoff = {"status": 0, "pending": nw, "enable": 2 * nw}
        if p["op"] in ("clear", "enable"):
            off = regoff["pending" if p["op"] == "clear" else "enable"]
            for a in range(nw):                      # address order: MSB word first (big)
                i = nw - 1 - a
                cyc.append({"adr": base + off + a, "we": 1, "re": 0, "dat": (p["val"] >> (i * bw)) & _m(bw)})
        else:
            off = regoff[p["reg"]]
            for a in range(nw):
                cyc.append({"adr": base + off + a, "we": 0, "re": 1, "dat": 0, "rd": (p["man"], p["reg"], nw - 1 - a)})
            cyc.append(None)
    return cyc


def run_case(case):
    top, bus, evs, shared = _build(case)
    bw = case["bw"]
    prog = _bus_program(case)
    T = max(case["T"], len(prog) + 4)
    sigs = [bus.dat_r]
    for ev, srcs in evs:
        sigs += [ev.irq, ev.status.status, ev.pending.status, ev.enable.storage]
    if shared is not None:
        sigs.append(shared.irq)
    trace = []
    w = bench.Writer()

    def wave(mi, i, t):
        wv = case["waves"][mi][i]
        return wv[t] if t < len(wv) else wv[-1]

    class Agent:
        def signals(self):
            return sigs

        def step(self, t, vals):
            trace.append(vals)
            out = []
            for mi, (ev, srcs) in enumerate(evs):
                for i, s in enumerate(srcs):
                    w.set(out, s.trigger, wave(mi, i, t))
            b = prog[t] if t < len(prog) and prog[t] else {"adr": 0x3fff, "we": 0, "re": 0, "dat": 0}
            w.set(out, bus.adr, b["adr"])
            w.set(out, bus.we, b["we"])
            w.set(out, bus.re, b["re"])
            w.set(out, bus.dat_w, b["dat"])
            return out

    bench.run(top, [Agent()], T + 1)
    # ---- model
    nman = len(evs)
    pend = [[0] * len(k) for k in case["mans"]]
    trig_d = [[0] * len(k) for k in case["mans"]]
    enable = [0] * nman
    pr = [0] * nman          # pending.r
    pre = [0] * nman         # pending.re (registered)
    dat_r = 0
    close = False
    other_pending = False
    cls = ["bus%d" % bw, "managers=%d" % nman]
    for t in range(1, len(trace)):
        c = t - 1
        vals = trace[t]
        b = prog[c] if c < len(prog) and prog[c] else {"adr": 0x3fff, "we": 0, "re": 0, "dat": 0}
        pos = 1
        irqs = []
        nxt = []
        if vals[0] != dat_r:
            return bad("read", "cycle %d: dat_r=%#x, model %#x (read issued in cycle %d: %r)" % (c, vals[0], dat_r, c - 1, prog[c - 1] if 0 < c <= len(prog) else None),
                       key="ev:read", cls=cls)
        ndat = 0
        for mi, kinds in enumerate(case["mans"]):
            irq, status, pending, en = vals[pos:pos + 4]
            pos += 4
            ns = len(kinds)
            nw = (ns + bw - 1) // bw
            trig = [wave(mi, i, c) for i in range(ns)]
            e_status = sum((trig[i] if kinds[i] != "pulse" else 0) << i for i in range(ns))
            e_pending = sum((trig[i] if kinds[i] == "level" else pend[mi][i]) << i for i in range(ns))
            e_irq = int((e_pending & enable[mi]) != 0)
            ctx = "manager %d kinds %r cycle %d" % (mi, kinds, c)
            if status != e_status:
                return bad("status", "%s: status=%#x, raw levels %#x" % (ctx, status, e_status), key="ev:status", cls=cls)
            if pending != e_pending:
                i = next(i for i in range(ns) if ((pending ^ e_pending) >> i) & 1)
                return bad("pending", "%s: pending=%#x, model %#x (source %d %s: trigger history %r, clear strobe %d with written mask %#x)" %
                           (ctx, pending, e_pending, i, kinds[i], [wave(mi, i, x) for x in range(max(0, c - 4), c + 1)], pre[mi], pr[mi]),
                           key="ev:pending:" + kinds[i], cls=cls)
            if en != enable[mi]:
                return bad("enable", "%s: enable=%#x, model %#x" % (ctx, en, enable[mi]), key="ev:enable", cls=cls)
            if irq != int((pending & en) != 0) or irq != e_irq:
                return bad("irq", "%s: irq=%d but pending=%#x enable=%#x" % (ctx, irq, pending, en), key="ev:irq", cls=cls)
            irqs.append(irq)
            # next state
            clear = [(pre[mi] and (pr[mi] >> i) & 1) for i in range(ns)]
            for i, k in enumerate(kinds):
                if k == "pulse":
                    evn = trig[i]
                elif k == "rising":
                    evn = trig[i] and not trig_d[mi][i]
                elif k == "falling":
                    evn = (not trig[i]) and trig_d[mi][i]
                else:
                    evn = 0
                if clear[i] and (evn or (c > 0 and pend[mi][i])):
                    close = close or bool(evn)
                if clear[i] and any(pend[mi][j] and not clear[j] for j in range(ns) if j != i):
                    other_pending = True
                if k != "level":
                    pend[mi][i] = 1 if evn else (0 if clear[i] else pend[mi][i])
                trig_d[mi][i] = trig[i]
            # bus side (bank at page mi, words: status[nw] pending[nw] enable[nw], big ordering)
            sel = (b["adr"] >> 9) == mi
            idx = b["adr"] & 511
            new_pre = 0
            if sel and idx < 3 * nw:
                reg, a = divmod(idx, nw)
                i = nw - 1 - a
                nbits = min(ns - i * bw, bw)
                if reg == 0:
                    ndat |= (e_status >> (i * bw)) & _m(nbits)
                elif reg == 1:
                    ndat |= (e_pending >> (i * bw)) & _m(nbits)
                    if b["we"]:
                        pr[mi] = (pr[mi] & ~(_m(nbits) << (i * bw))) | ((b["dat"] & _m(nbits)) << (i * bw))
                        if i == 0:
                            new_pre = 1
                else:
                    ndat |= (enable[mi] >> (i * bw)) & _m(nbits)
                    if b["we"]:
                        enable[mi] = (enable[mi] & ~(_m(nbits) << (i * bw))) | ((b["dat"] & _m(nbits)) << (i * bw))
            pre[mi] = new_pre
        if shared is not None:
            if vals[pos] != int(any(irqs)):
                return bad("shared-irq", "cycle %d: shared irq=%d, manager irqs %r" % (c, vals[pos], irqs), key="ev:shared", cls=cls)
        dat_r = ndat
    return ok(nt=close or other_pending, cls=cls + (["clear-meets-trigger"] if close else []) + (["clear-while-other-pending"] if other_pending else []),
              cycles=T)


def enum_align(tier):
    """one source of each kind, trigger pulse at cycle p (width 1..3), clear written at cycle c: all (p, c) in [2,10)^2"""
    out = []
    for kind in KINDS:
        for bw in (8, 32):
            for p, c, width in itertools.product(range(2, 10), range(1, 12), (1, 2, 3)):
                wave = [0] * p + [1] * width + [0] * 4
                out.append({"bw": bw, "mans": [[kind, "pulse"]], "waves": [[wave, [0, 0, 0, 1, 0]]], "T": 24,
                            "prog": [{"op": "enable", "man": 0, "val": 1, "gap": 0},
                                     {"op": "clear", "man": 0, "val": 1, "gap": max(0, c - 1)},
                                     {"op": "read", "man": 0, "reg": "pending", "gap": 2}]})
    return out


def subchecks():
    return [
        Sub("manager", run_case, strategy=st_case, examples=(2500, 80000),
            rule="generated managers, trigger waveforms and CSR programs vs cycle-accurate model"),
        Sub("alignment", run_case, enum=enum_align, exhaustive=True,
            rule="every source kind x bus width x ALL (trigger start 2..9, clear-write cycle 1..11, width 1..3) alignments"),
    ]

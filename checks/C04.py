"""C04 - Stream elements keep the handshake contract and never stall forever."""
from hypothesis import strategies as st

from vlib.runner import Sub, ok, bad, skip
from vlib import bench, streams, streamrun
from checks import C03

RULE = ("same element table as C03 (plus packet elements, see sub 'packet'); schedules with long stalls placed right "
        "after a token becomes visible, producer changing every field between tokens and driving garbage while idle; "
        "oracle 1 (hold): valid&~ready at t implies valid and identical payload/param/first/last at t+1 on every "
        "endpoint the element drives; oracle 2 (bounded progress): after the generated prefix a cooperative phase "
        "(endless producer, consumer always ready) must show a handshake on sink or source in every window of B "
        "cycles, B from the element's parameters; non-trivial = a stall of >=2 cycles that began in the first cycle "
        "a new token was visible; distinct = canonical JSON of the case")
ASSUMPTIONS = ["bounded liveness from the states reached by generated prefixes, not from all reachable states",
               "control inputs (sel, enable) are not part of an element's guarantee and are held constant here",
               "Migen's simulator (site-packages) defines FHDL semantics"]

ELEMS = C03.GENERIC + ["Gearbox"]


def st_hold(tier):
    return streamrun.st_case(ELEMS, tier, max_tokens=16, min_tokens=3, long_stalls=True)


def _stall_classes(r):
    """a stall of >= 2 cycles that began in the first cycle a token was visible"""
    # r.got: (cycle, token); visible-first-cycle detection needs the valid trace: approximate with
    # consumer statistics gathered per token
    return r.cons.max_stall >= 2


def run_hold(case):
    try:
        r = streamrun.run_case(case)
    except streamrun.Rejected as ex:
        return skip("constructor rejected parameters", detail=str(ex))
    cls = ["elem:" + case["elem"], "cs:" + case["cs"][0]]
    if case["g"] is not None:
        cls.append("garbage-idle")
    if r.cons.hold_violations:
        c, txt = r.cons.hold_violations[0]
        return bad("hold", "%s %r: cycle %d: %s" % (case["elem"], case["p"], c, txt), key="hold:" + case["elem"], cls=cls,
                   cycles=r.cycles)
    nt = r.cons.max_stall >= 2 and len(r.got) >= 2
    if nt:
        cls.append("stall>=2")
    return ok(nt=nt, cls=cls, cycles=r.cycles)


def st_progress(tier):
    return streamrun.st_case(ELEMS, tier, max_tokens=12, min_tokens=0, long_stalls=True)


def run_progress(case):
    e = streams.ELEMS[case["elem"]]
    B = e.bound(case["p"])
    slow = getattr(e, "slow", None)
    if slow:
        B = max(B, 2 * slow(case["p"]) + 8)
    coop = 6 * B + 32
    try:
        r = streamrun.run_case(case, coop_cycles=coop, endless=True)
    except streamrun.Rejected as ex:
        return skip("constructor rejected parameters", detail=str(ex))
    cls = ["elem:" + case["elem"]]
    if r.cons.hold_violations:
        c, txt = r.cons.hold_violations[0]
        return bad("hold", "%s %r: cycle %d: %s" % (case["elem"], case["p"], c, txt), key="hold:" + case["elem"], cls=cls)
    start = r.phase2_start
    if start is None:
        return ok(nt=False, cls=cls + ["no-coop-phase"])
    events = sorted({c for c, _ in r.sent if c >= start} | {c for c, _ in r.got if c >= start})
    end = r.cycles - 2
    prev = start
    worst = 0
    for c in events + [end]:
        worst = max(worst, c - prev)
        prev = c
    if worst > B:
        return bad("progress", "%s %r: no handshake on sink or source for %d cycles in the cooperative phase "
                   "(bound %d); %d sink / %d source handshakes there" % (case["elem"], case["p"], worst, B,
                   len([1 for c, _ in r.sent if c >= start]), len([1 for c, _ in r.got if c >= start])),
                   key="stall:" + case["elem"], cls=cls, cycles=r.cycles)
    got2 = len([1 for c, _ in r.got if c >= start])
    return ok(nt=(len(case["toks"]) >= 1 and got2 >= 2), cls=cls + ["worst-gap<=%d" % (1 if worst <= 1 else 4 if worst <= 4 else B)],
              cycles=r.cycles)


def enum_exh(tier):
    L = 6 if tier == "quick" else 7
    cases = []
    for name, p in C03.EXH_ELEMS:
        e = streams.ELEMS[name]
        pw, qw = e.sink_widths(p)
        kw = e.token_kw(p)
        lasts = (1,) if "last_p" in kw else ()
        toks = streams.numbered_tokens(pw, qw, 4, lasts=lasts)
        if kw.get("with_first_last") is False:
            toks = [[t[0], t[1], 0, 0] for t in toks]
        toks = streams.fix_group_params(toks, kw.get("group_param", 0))
        for bits in range(1 << (2 * L)):
            ps = [(bits >> i) & 1 for i in range(L)]
            cs = [(bits >> (L + i)) & 1 for i in range(L)]
            cases.append({"elem": name, "p": p, "toks": toks, "ps": ["fin", ps], "cs": ["fin", cs], "g": 11})
    return cases


# ------------------------------------------------------------------------------------ packet elements

def st_packet(tier):
    from checks import C16

    @st.composite
    def case(draw):
        kind = draw(st.sampled_from(["packetizer", "depacketizer", "fifo", "arbiter", "arbiter", "dispatcher"]))
        c = {"kind": kind, "cs": draw(bench.st_schedule()), "g": draw(st.one_of(st.none(), st.integers(0, 2 ** 16)))}
        if kind in ("packetizer", "depacketizer"):
            c["dw"] = draw(st.sampled_from([8, 16, 32, 64]))
            c["hdr"] = C16.st_header(draw, c["dw"])
            c["pk"] = C16.st_packets(draw, c["hdr"], c["dw"], npk_max=3, beats_max=6)
            if kind == "depacketizer" and c["hdr"]["length"] % (c["dw"] // 8):
                # packets that end in the word carrying the header's left-over bytes (a Depacketizer used alone can meet them)
                for p_ in c["pk"]:
                    p_["short"] = draw(st.integers(0, 2)) == 0
            c["ps"] = draw(bench.st_schedule())
        elif kind == "fifo":
            c.update({"depth": draw(st.sampled_from([2, 4, 8])), "buffered": draw(st.booleans()), "maxlen": draw(st.integers(1, 2))})
        else:
            c.update({"n": draw(st.integers(2, 4)), "lens": [draw(st.integers(1, 3)) for _ in range(4)],
                      "gaps": [draw(st.sampled_from([0, 0, 0, 1])) for _ in range(4)], "one_hot": draw(st.booleans())})
            # dispatcher: the selector designates slave 1, or (one-hot 0 / binary 3 of 3) no slave at all - packets for nobody are
            # discarded, they must not block the producer
            c["nosel"] = kind == "dispatcher" and (c["one_hot"] or c["n"] == 3) and draw(st.integers(0, 2)) == 0
        return c
    return case()


def _hold_masked(trace, nvalid_bytes_of_last, B):
    """trace rows: (valid, ready, last, data).  Hold rule with the bytes of a final word beyond the packet masked."""
    prev = None
    for c, (valid, ready, last, data) in enumerate(trace):
        mask = (1 << (8 * B)) - 1
        if last and nvalid_bytes_of_last:
            mask = (1 << (8 * nvalid_bytes_of_last)) - 1
        cur = (last, data & mask)
        if prev is not None:
            if not valid:
                return c, "valid withdrawn before ready"
            pl, pd = prev
            if pl != last or (pd & mask) != (data & mask):
                return c, "token changed while stalled: last %d->%d data %#x->%#x" % (pl, last, pd, data & mask)
        prev = cur if (valid and not ready) else None
    return None


def run_packet(case):
    from checks import C16
    from litex.soc.interconnect import packet, stream
    kind = case["kind"]
    cls = ["packet:" + kind]
    if kind in ("packetizer", "depacketizer"):
        hdr, with_par, plain = C16._descs(case)
        B = case["dw"] // 8
        try:
            dut = packet.Packetizer(with_par, plain, hdr) if kind == "packetizer" else packet.Depacketizer(plain, with_par, hdr)
        except (ValueError, AssertionError, TypeError, IndexError) as ex:
            return skip("constructor rejected the header")
        if kind == "packetizer":
            toks = C16._ptoks(case)
        else:
            toks = []
            for k, p in enumerate(case["pk"]):
                ws = C16._ref_words(case, p, junk=k * 77)
                for i, (w, nv) in enumerate(ws):
                    toks.append(((w,), (), int(i == 0), int(i == len(ws) - 1)))
        n = len(toks)
        main = 8 * n + 60
        prod = bench.Producer(dut.sink, toks, case["ps"], garbage_seed=case["g"], until=main)
        cons = bench.Consumer(dut.source, case["cs"], until=main, check_hold=False)
        probe = bench.Probe([dut.source.valid, dut.source.ready, dut.source.last, dut.source.data])
        cyc = bench.run(dut, [prod, cons, probe], main + 10 * n + 200, stop=lambda t: t > main and prod.done() and t > main + 60)
        leftover = case["hdr"]["length"] % B
        nvalid_last = leftover if kind == "packetizer" else 0
        if kind == "depacketizer" and any(p_.get("short") for p_ in case["pk"]):
            # a packet that ended in the residue word is flushed as one beat whose upper bytes belong to no packet (they follow the
            # sink): only its payload bytes are held to the hold rule
            nvalid_last = B - leftover
        v = _hold_masked(probe.trace, nvalid_last, B)
        if v:
            return bad("hold", "%s dw=%d header length %d: cycle %d: %s" % (kind, case["dw"], case["hdr"]["length"], v[0], v[1]),
                       key="hold:packet-" + kind, cls=cls, cycles=cyc)
        if not prod.done():
            return bad("progress", "%s dw=%d header %r: %d of %d beats accepted after a cooperative phase" % (kind, case["dw"], case["hdr"], len(prod.sent), n),
                       key="stall:packet-" + kind, cls=cls, cycles=cyc)
        return ok(nt=cons.max_stall >= 2 and len(case["pk"]) >= 2, cls=cls, cycles=cyc)
    desc = stream.EndpointDescription([("data", 8), ("src", 4), ("seq", 8)])
    T = 260
    if kind == "fifo":
        dut = packet.PacketFIFO(desc, case["depth"], buffered=case["buffered"])
        L = case["maxlen"]

        def endless(i):
            k = i % L
            return ((i & 255, 0, (i // L) & 255), (), int(k == 0), int(k == L - 1))
        prod = bench.Producer(dut.sink, [], ["const", 1], endless=endless)
        cons = bench.Consumer(dut.source, case["cs"], until=60)
        cyc = bench.run(dut, [prod, cons], T)
        if cons.hold_violations:
            return bad("hold", "PacketFIFO(depth=%d): %s" % (case["depth"], cons.hold_violations[0][1]), key="hold:packet-fifo", cls=cls)
        ev = sorted(c for c, _ in cons.got if c >= 60)
        worst = max([b - a for a, b in zip([60] + ev, ev + [T - 2])] or [T])
        if worst > 4 * case["depth"] + 16:
            return bad("progress", "PacketFIFO(depth=%d, buffered=%r): no output handshake for %d cooperative cycles" % (case["depth"], case["buffered"], worst),
                       key="stall:packet-fifo", cls=cls, cycles=cyc)
        return ok(nt=len(cons.got) >= 8, cls=cls, cycles=cyc)
    n = case["n"]
    if kind == "arbiter":
        masters = [stream.Endpoint(desc) for _ in range(n)]
        slave = stream.Endpoint(desc)
        dut = packet.Arbiter(list(masters), slave)
        prods = []
        for m in range(n):
            L = case["lens"][m]
            gap = case["gaps"][m]

            def endless(i, L=L, m=m):
                k = i % L
                return ((i & 255, m, (i // L) & 255), (), int(k == 0), int(k == L - 1))
            # master m offers its packets back to back (gap 0) or with one idle cycle after each packet
            sched = ["const", 1] if gap == 0 else ["per", [1] * L + [0], 0]
            prods.append(bench.Producer(masters[m], [], sched, endless=endless, garbage_seed=None if case["g"] is None else case["g"] + m))
        cons = bench.Consumer(slave, case["cs"], until=40)
        cyc = bench.run(dut, prods + [cons], T)
        if cons.hold_violations:
            return bad("hold", "packet.Arbiter(%d): %s" % (n, cons.hold_violations[0][1]), key="hold:packet-arbiter", cls=cls)
        bound = 12 * n * (max(case["lens"][:n]) + 2)
        for m in range(n):
            ev = sorted(c for c, t in prods[m].sent if c >= 40)
            worst = max([b - a for a, b in zip([40] + ev, ev + [T - 2])] or [T])
            if worst > bound:
                return bad("starvation", "packet.Arbiter(%d masters, packet lengths %r, gaps %r): master %d got no beat through for %d cycles while "
                           "the consumer was always ready (bound %d); beats per master %r" % (n, case["lens"][:n], case["gaps"][:n], m, worst, bound,
                           [len(p.sent) for p in prods]), key="stall:packet-arbiter", cls=cls, cycles=cyc)
        return ok(nt=True, cls=cls + ["back-to-back" if 0 in case["gaps"][:n] else "gapped"], cycles=cyc)
    # dispatcher: selector held constant while a token is stalled is the caller's duty -> sel constant per packet here
    master = stream.Endpoint(desc)
    slaves = [stream.Endpoint(desc) for _ in range(n)]
    dut = packet.Dispatcher(master, list(slaves), one_hot=case["one_hot"])
    L = case["lens"][0]

    def endless(i):
        k = i % L
        return ((i & 255, 0, (i // L) & 255), (), int(k == 0), int(k == L - 1))
    prod = bench.Producer(master, [], ["const", 1], endless=endless)
    conss = [bench.Consumer(sl, case["cs"], until=40) for sl in slaves]
    enc = (lambda v: 1 << v) if case["one_hot"] else (lambda v: v)
    selv = (0 if case["one_hot"] else n) if case.get("nosel") else enc(1 % n)
    if case.get("nosel"):
        cls = cls + ["selector-designates-no-slave"]
    drv = bench.Driver(lambda t: {dut.sel: selv})
    cyc = bench.run(dut, [prod, drv] + conss, T)
    for j, co in enumerate(conss):
        if co.hold_violations:
            return bad("hold", "packet.Dispatcher(%d): slave %d: %s" % (n, j, co.hold_violations[0][1]), key="hold:packet-dispatcher", cls=cls)
    ev = sorted(c for c, _ in prod.sent if c >= 40)
    worst = max([b - a for a, b in zip([40] + ev, ev + [T - 2])] or [T])
    if worst > 16:
        return bad("progress", "packet.Dispatcher(%d): no beat accepted for %d cooperative cycles" % (n, worst), key="stall:packet-dispatcher", cls=cls)
    return ok(nt=True, cls=cls, cycles=cyc)


def subchecks():
    return [
        Sub("hold", run_hold, strategy=st_hold, examples=(3000, 60000),
            rule="hold rule on the source endpoint under schedules with long early stalls"),
        Sub("progress", run_progress, strategy=st_progress, examples=(2000, 40000),
            rule="bounded progress in a cooperative phase entered from the state a generated prefix reached"),
        Sub("packet", run_packet, strategy=st_packet, examples=(800, 16000),
            rule="packet elements: hold rule (final-word junk bytes masked) and bounded progress / no starvation under endless back-to-back packets"),
        Sub("exhaustive-hold", run_hold, enum=enum_exh, exhaustive=True, tiers=("thorough",),
            rule="hold rule for ALL producer x consumer schedules of length 7, 16 element configurations"),
    ]

"""C04 - Stream elements keep the handshake contract and never stall forever."""
from hypothesis import strategies as st

from vlib.runner import Sub, ok, bad, skip
from vlib import bench, streams, streamrun
from checks import C03

RULE = ("same element table as C03 (plus packet elements, see sub 'packet'); schedules with long stalls placed right "
        "after a token becomes visible, producer changing every field between tokens and driving garbage while idle; "
        "oracle 1 (hold): valid&~ready at t implies valid and identical payload/param/first/last at t+1 on every "
        "endpoint the element drives; oracle 2 (bounded progress): after the generated prefix a cooperative phase "
        "(endless producer, consumer always ready) must show a handshake on sink or source in every window of B "
        "cycles, B from the element's parameters; non-trivial = a stall of >=2 cycles that began in the first cycle "
        "a new token was visible; distinct = canonical JSON of the case")
ASSUMPTIONS = ["bounded liveness from the states reached by generated prefixes, not from all reachable states",
               "control inputs (sel, enable) are not part of an element's guarantee and are held constant here",
               "Migen's simulator (site-packages) defines FHDL semantics"]

ELEMS = C03.GENERIC + ["Gearbox"]


def st_hold(tier):
    return streamrun.st_case(ELEMS, tier, max_tokens=16, min_tokens=3, long_stalls=True)


def _stall_classes(r):
    """a stall of >= 2 cycles that began in the first cycle a token was visible"""
    # r.got: (cycle, token); visible-first-cycle detection needs the valid trace: approximate with
    # consumer statistics gathered per token
    return r.cons.max_stall >= 2


def run_hold(case):
    try:
        r = streamrun.run_case(case)
    except streamrun.Rejected as ex:
        return skip("constructor rejected parameters", detail=str(ex))
    cls = ["elem:" + case["elem"], "cs:" + case["cs"][0]]
    if case["g"] is not None:
        cls.append("garbage-idle")
    if r.cons.hold_violations:
        c, txt = r.cons.hold_violations[0]
        return bad("hold", "%s %r: cycle %d: %s" % (case["elem"], case["p"], c, txt), key="hold:" + case["elem"], cls=cls,
                   cycles=r.cycles)
    nt = r.cons.max_stall >= 2 and len(r.got) >= 2
    if nt:
        cls.append("stall>=2")
    return ok(nt=nt, cls=cls, cycles=r.cycles)


def st_progress(tier):
    return streamrun.st_case(ELEMS, tier, max_tokens=12, min_tokens=0, long_stalls=True)


def run_progress(case):
    e = streams.ELEMS[case["elem"]]
    B = e.bound(case["p"])
    slow = getattr(e, "slow", None)
    if slow:
        B = max(B, 2 * slow(case["p"]) + 8)
    coop = 6 * B + 32
    try:
        r = streamrun.run_case(case, coop_cycles=coop, endless=True)
    except streamrun.Rejected as ex:
        return skip("constructor rejected parameters", detail=str(ex))
    cls = ["elem:" + case["elem"]]
    if r.cons.hold_violations:
        c, txt = r.cons.hold_violations[0]
        return bad("hold", "%s %r: cycle %d: %s" % (case["elem"], case["p"], c, txt), key="hold:" + case["elem"], cls=cls)
    start = r.phase2_start
    if start is None:
        return ok(nt=False, cls=cls + ["no-coop-phase"])
    events = sorted({c for c, _ in r.sent if c >= start} | {c for c, _ in r.got if c >= start})
    end = r.cycles - 2
    prev = start
    worst = 0
    for c in events + [end]:
        worst = max(worst, c - prev)
        prev = c
    if worst > B:
        return bad("progress", "%s %r: no handshake on sink or source for %d cycles in the cooperative phase "
                   "(bound %d); %d sink / %d source handshakes there" % (case["elem"], case["p"], worst, B,
                   len([1 for c, _ in r.sent if c >= start]), len([1 for c, _ in r.got if c >= start])),
                   key="stall:" + case["elem"], cls=cls, cycles=r.cycles)
    got2 = len([1 for c, _ in r.got if c >= start])
    return ok(nt=(len(case["toks"]) >= 1 and got2 >= 2), cls=cls + ["worst-gap<=%d" % (1 if worst <= 1 else 4 if worst <= 4 else B)],
              cycles=r.cycles)


def enum_exh(tier):
    L = 6 if tier == "quick" else 8
    cases = []
    for name, p in C03.EXH_ELEMS:
        e = streams.ELEMS[name]
        pw, qw = e.sink_widths(p)
        kw = e.token_kw(p)
        lasts = (1,) if "last_p" in kw else ()
        toks = streams.numbered_tokens(pw, qw, 4, lasts=lasts)
        if kw.get("with_first_last") is False:
            toks = [[t[0], t[1], 0, 0] for t in toks]
        toks = streams.fix_group_params(toks, kw.get("group_param", 0))
        for bits in range(1 << (2 * L)):
            ps = [(bits >> i) & 1 for i in range(L)]
            cs = [(bits >> (L + i)) & 1 for i in range(L)]
            cases.append({"elem": name, "p": p, "toks": toks, "ps": ["fin", ps], "cs": ["fin", cs], "g": 11})
    return cases


def subchecks():
    return [
        Sub("hold", run_hold, strategy=st_hold, examples=(5000, 150000),
            rule="hold rule on the source endpoint under schedules with long early stalls"),
        Sub("progress", run_progress, strategy=st_progress, examples=(3000, 80000),
            rule="bounded progress in a cooperative phase entered from the state a generated prefix reached"),
        Sub("exhaustive-hold", run_hold, enum=enum_exh, exhaustive=True, tiers=("thorough",),
            rule="hold rule for ALL producer x consumer schedules of length 8, 16 element configurations"),
    ]

"""C12 extension - csr_bus.SRAM memory windows ("sram") and CSRBankArray over generated AutoCSR trees ("bankarray").

Complements checks/C12.py (single CSRBank).  The register model of C12 is reused per bank; the window model (Python list
of memory words + staging registers) is written from the usage in soc.py / CSRBankArray.scan, not from the implementation.
"""
import io
import json
import random
import contextlib
import types

from hypothesis import strategies as st

from vlib.runner import Sub, ok, bad, skip

RULE = ("sram: csr_bus.SRAM over memories narrower/equal/wider (2,4,8 bus words) than the CSR word, 1..771 locations, with and "
        "without the page register, read_only True/False/None(+bus_read_only attribute), Memory or size+init form, optional "
        "device-side write port; 10..40 operations (sub-word writes/reads, complete most-significant-first word writes with "
        "foreign accesses interleaved, accesses to other pages, page changes, device writes); a word-accurate model predicts "
        "dat_r every cycle and the memory contents every cycle (watched locations) and at the end (all locations). "
        "bankarray: CSRBankArray over a generated tree of AutoCSR / plain objects (creation order != attribute order, nested "
        "sub-objects, autocsr_exclude, fixed locations n, constants, memories incl. (read_only, mem) tuples and paged ones, "
        "address_map returning numbers or None) joined by Interconnect / InterconnectShared (1-2 masters); the placement "
        "(bank per object, register order, names, reserved fillers, page registers last) is compared with a model of the "
        "documented gathering rules and every register, strobe, window location and dat_r is compared in every cycle with "
        "per-bank C12 register models + window models while the bus walks over banks, windows and unowned pages. "
        "non-trivial: sram = a committed bus write (or non-zero content) read back through the bus; bankarray = at least two "
        "different targets (registers of a bank / windows) written with their complete word sequence and read back later; distinct = canonical JSON")
ASSUMPTIONS = ["Migen's simulator (site-packages) defines FHDL semantics",
               "sub-words of a memory word wider than the bus sit most-significant first at ascending addresses (csr_bus.SRAM has no ordering "
               "parameter; with ordering='little' only memories not wider than the bus word are generated)",
               "a wide memory word is written with its sub-words staged in one staging register per sub-word position (shared by all locations of "
               "the window) and committed by the write to the LAST (least-significant) sub-word, into the location addressed by that write",
               "dat_r one cycle after a committing write or a device-port write to the location being addressed may show the old or the new word "
               "(read-during-write is a memory-port detail, not part of the property)",
               "addresses inside a window's own page beyond the memory are not driven (partial decode, as in every LiteX memory slave; out-of-range "
               "locations are undefined in the generated Verilog)",
               "atomic_write with little ordering (finding csr:storage:atomic-little of C12, repaired in /repo by ade5497) is generated; a mismatch on such a "
               "register keeps that key",
               "fixed location n == number of registers of the object (IndexError in _sort_gathered_items) is excluded by construction, one witness kept"]

AW = 14


class _DutCrash(Exception):
    """an exception raised inside a constructor of the code under test (args[0] = the original exception)"""


def _m(w):
    return (1 << w) - 1


def _clog2(n):
    return (n - 1).bit_length() if n > 1 else 0


@contextlib.contextmanager
def _quiet():
    """csr_bus.SRAM prints a WARNING line on stdout for every paged memory"""
    with contextlib.redirect_stdout(io.StringIO()):
        yield


# ------------------------------------------------------------------------------------ own bench loop (per-cycle reads + one final dump)

def _simulate(dut, reads, step, ncycles, final=None):
    """One active generator (the cycle limiter) and one passive agent.  step(t, vals) receives the values of the cycle that just
    ended and returns statements for the next one.  `final` (list of signals / memory locations) is read once at the last activation."""
    import migen.sim.core as msim
    box = {"final": None}

    def limiter():
        for _ in range(ncycles):
            yield

    def agent():
        yield "passive"
        t = 0
        while True:
            vals = yield reads
            w = step(t, vals)
            if final and t == ncycles - 1:
                box["final"] = yield final
            if w:
                yield w
            t += 1
            yield

    sim = msim.Simulator(dut, {"sys": [limiter(), agent()]}, {"sys": 10})
    try:
        sim.run()
    finally:
        sim.close()
    return box["final"]


class _Writer:
    def __init__(self):
        self.last = {}

    def set(self, out, sig, val):
        val &= (1 << len(sig)) - 1
        if self.last.get(id(sig)) != val:
            self.last[id(sig)] = val
            out.append(sig.eq(val))


# ------------------------------------------------------------------------------------ window model

def _mem_init(width, depth, mode, seed):
    if mode == "none":
        return []
    rng = random.Random(seed)
    n = depth if mode == "full" else max(1, depth // 2)
    return [rng.getrandbits(width) for _ in range(n)]


class Win:
    """word-accurate model of one memory window on the CSR bus"""

    def __init__(self, dw, A, mapaddr, width, depth, init, ro):
        self.dw, self.A, self.mapaddr, self.width, self.depth, self.ro = dw, A, mapaddr, width, depth, ro
        self.c = (width + dw - 1) // dw                  # CSR words per memory word
        self.ps = A.bit_length() - 1
        self.per_page = A // self.c                      # memory words visible per page
        self.paged = depth * self.c > A
        self.page_bits = _clog2((depth * self.c + A - 1) // A) if self.paged else 0
        self.mem = list(init) + [0] * (depth - len(init))
        self.stage = [0] * (self.c - 1)
        self.stage_loc = [None] * (self.c - 1)           # location at which each staged sub-word was written (evidence only)
        self.rd = {0}                                    # admissible contribution to dat_r during the current cycle (None = undefined)
        self.sel = False
        self.events = []

    def locate(self, adr, page):
        g = (page if self.paged else 0) * self.A + (adr & (self.A - 1))
        return g // self.c, g % self.c

    def word(self, val, sub):
        return (val >> (self.dw * (self.c - 1 - sub))) & _m(self.dw)

    def addr(self, loc, sub):
        """(page, bus address) of sub-word `sub` of location `loc`"""
        g = loc * self.c + sub
        return g // self.A, (self.mapaddr << self.ps) | (g % self.A)

    def step(self, bus, page, devw=None):
        adr, we, re, dat = bus
        self.events = []
        sel = (adr >> self.ps) == self.mapaddr
        loc = sub = old = None
        if sel:
            loc, sub = self.locate(adr, page)
            if loc < self.depth:
                old = self.mem[loc]
        if devw is not None:
            self.mem[devw[0]] = devw[1] & _m(self.width)
        if sel and we and not self.ro and loc < self.depth:
            if sub < self.c - 1:
                self.stage[sub] = dat & _m(self.dw)
                self.stage_loc[sub] = loc
                self.events.append("stage")
            else:
                v = dat & _m(self.dw)
                for i, s in enumerate(self.stage):
                    v |= s << (self.dw * (self.c - 1 - i))
                self.mem[loc] = v & _m(self.width)
                self.events.append("commit")
                if any(l is not None and l != loc for l in self.stage_loc):
                    self.events.append("xloc-commit")
        if sel and we and self.ro:
            self.events.append("ro-write")
        if not sel:
            self.rd = {0}
        elif loc >= self.depth:
            self.rd = None
        else:
            self.rd = {self.word(old, sub), self.word(self.mem[loc], sub)}
        self.sel = sel
        return loc, sub


# ------------------------------------------------------------------------------------ sub-check "sram": strategy

def _focus_candidates(depth, per_page):
    c = {0, 1, depth - 1, depth - 2, depth // 2}
    for k in range(1, 4):
        c |= {k * per_page - 1, k * per_page}
    return sorted(x for x in c if 0 <= x < depth)


def st_sram(tier):
    @st.composite
    def case(draw):
        dw = draw(st.sampled_from([8, 32]))
        form = draw(st.sampled_from(["mem", "mem", "mem", "size"]))
        paged = draw(st.integers(0, 3)) == 0
        paging = 0x400 if paged else draw(st.sampled_from([0x400, 0x800, 0x800, 0x1000]))
        A = paging // 4
        address = draw(st.integers(0, 5))
        if form == "size":
            shape, width = "equal", dw
        else:
            shape = draw(st.sampled_from(["narrow", "equal", "wide2", "wide2", "wide4", "wide4", "wide3", "wide8"]))
            if shape == "wide8" and dw == 32:
                shape = "wide2"
            width = {"narrow": draw(st.integers(1, dw - 1)), "equal": dw,
                     "wide2": draw(st.one_of(st.integers(dw + 1, 2 * dw), st.just(2 * dw))),
                     "wide3": draw(st.integers(2 * dw + 1, 3 * dw)),
                     "wide4": draw(st.one_of(st.integers(3 * dw + 1, 4 * dw), st.just(4 * dw))),
                     "wide8": draw(st.integers(7 * dw + 1, 8 * dw))}[shape]
        c = (width + dw - 1) // dw
        cpow = 1 << _clog2(c)
        per_page = A // cpow
        if paged:
            depth = draw(st.one_of(st.sampled_from([per_page + 1, 2 * per_page, 2 * per_page + 1]), st.integers(per_page + 1, 3 * per_page + 3)))
        else:
            depth = draw(st.one_of(st.integers(2, 9), st.integers(10, 40), st.just(min(per_page, 256))))   # Migen: a depth-1 memory has no ports
        cand = _focus_candidates(depth, per_page)
        focus = [draw(st.one_of(st.sampled_from(cand), st.integers(0, depth - 1))) for _ in range(draw(st.integers(2, 4)))]
        ro = draw(st.sampled_from([None, None, False, True]))
        attr = draw(st.sampled_from([None, None, True, False])) if form == "mem" else None
        init = {"mode": draw(st.sampled_from(["none", "partial", "full", "full"])), "seed": draw(st.integers(0, 2 ** 16))}
        devport = draw(st.integers(0, 2)) == 0
        pb = _clog2((depth * cpow + A - 1) // A) if depth * cpow > A else 0
        steps = []
        nf = len(focus)
        for _ in range(draw(st.integers(10, 40 if tier == "quick" else 80))):
            k = draw(st.integers(0, 10))
            if k <= 2:
                s = {"op": "w", "f": draw(st.integers(0, nf - 1)), "sub": draw(st.integers(0, cpow - 1)), "dat": draw(st.integers(0, _m(dw)))}
            elif k <= 4:
                s = {"op": "r", "f": draw(st.integers(0, nf - 1)), "sub": draw(st.integers(0, cpow - 1))}
            elif k <= 6:
                s = {"op": "seq", "f": draw(st.integers(0, nf - 1)), "val": draw(st.integers(0, _m(cpow * dw))),
                     "ilv": draw(st.sampled_from([0, 1, 1, 2])), "g": draw(st.integers(0, _m(dw))), "rd": draw(st.booleans())}
            elif k <= 8:
                s = {"op": "oth", "d": draw(st.integers(1, 3)), "low": draw(st.one_of(st.integers(0, 7), st.integers(0, A - 1))),
                     "we": draw(st.booleans()), "dat": draw(st.integers(0, _m(dw)))}
            elif k == 9 and devport:
                s = {"op": "dev", "f": draw(st.integers(0, nf - 1)), "val": draw(st.integers(0, _m(width))), "bus": draw(st.integers(0, 2))}
            elif k == 9 and pb:
                s = {"op": "page", "p": draw(st.integers(0, _m(pb)))}
            else:
                s = {"op": "idle", "n": draw(st.integers(1, 3))}
            steps.append(s)
        return {"dw": dw, "paging": paging, "address": address, "form": form, "width": width, "depth": depth, "extra": draw(st.integers(0, dw // 8 - 1)) if form == "size" and dw > 8 else 0,
                "focus": focus, "ro": ro, "attr": attr, "init": init, "devport": devport, "steps": steps}
    return case()


# ------------------------------------------------------------------------------------ sub-check "sram": build, expand, run

def _build_sram(case):
    from migen import Module, Memory
    from litex.soc.interconnect import csr_bus
    dw = case["dw"]
    init = _mem_init(case["width"], case["depth"], case["init"]["mode"], case["init"]["seed"])
    bus = csr_bus.Interface(data_width=dw, address_width=AW)
    mem = None
    if case["form"] == "mem":
        mem = Memory(case["width"], case["depth"], init=init or None, name="buf")
        if case["attr"] is not None:
            mem.bus_read_only = case["attr"]
    try:
        with _quiet():
            if mem is None:
                sram = csr_bus.SRAM(case["depth"] * (dw // 8) + case.get("extra", 0), case["address"], read_only=case["ro"], init=init or None,
                                    bus=bus, paging=case["paging"])
            else:
                sram = csr_bus.SRAM(mem, case["address"], read_only=case["ro"], bus=bus, paging=case["paging"])
    except Exception as ex:
        raise _DutCrash(ex)
    if mem is None:
        mem = [s for s in sram._fragment.specials if isinstance(s, Memory)][0]
    top = Module()
    top.submodules += sram
    dp = None
    if case["devport"]:
        dp = mem.get_port(write_capable=True)
        top.specials += dp
    return top, sram, bus, mem, dp, init


def _other_page(address, d, A):
    npages = 1 << (AW - (A.bit_length() - 1))
    p = (address + d) % npages
    return p if p != address else (address + 1) % npages


def _expand_sram(case, win):
    """steps -> one dict per cycle: bus (adr, we, re, dat), page (value driven from this cycle on), dev (loc, val)"""
    A, dw, c = win.A, win.dw, win.c
    cyc = []
    cur = {"page": 0}

    def goto(loc):
        if win.paged:
            p = loc // win.per_page
            if cur["page"] != p:
                cur["page"] = p
                cyc.append({"page": p})

    def oth(d, low, we, dat):
        return ((_other_page(case["address"], d, A) << win.ps) | (low & (A - 1)), int(we), int(not we), dat if we else 0)

    for s in case["steps"]:
        op = s["op"]
        if op in ("w", "r"):
            loc = case["focus"][s["f"]]
            goto(loc)
            adr = win.addr(loc, s["sub"] % c)[1]
            cyc.append({"bus": (adr, 1, 0, s["dat"]) if op == "w" else (adr, 0, 1, 0)})
        elif op == "seq":
            loc = case["focus"][s["f"]]
            goto(loc)
            for sub in range(c):
                cyc.append({"bus": (win.addr(loc, sub)[1], 1, 0, (s["val"] >> (dw * (c - 1 - sub))) & _m(dw)), "seq": 1})
                if sub < c - 1 and s["ilv"] == 1:
                    # a foreign write (another page) whose low address bits equal those of the sub-word just staged
                    cyc.append({"bus": oth(1 + sub % 3, win.addr(loc, sub)[1], True, s["g"]), "ilv": 1})
                elif sub < c - 1 and s["ilv"] == 2:
                    cyc.append({"bus": (win.addr(loc, (sub + 1) % c)[1], 0, 1, 0), "ilv": 2})
            if s["rd"]:
                cyc.append({})
                for sub in range(c):
                    cyc.append({"bus": (win.addr(loc, sub)[1], 0, 1, 0)})
        elif op == "oth":
            cyc.append({"bus": oth(s["d"], s["low"], s["we"], s["dat"])})
        elif op == "dev":
            loc = case["focus"][s["f"]]
            cy = {"dev": (loc, s["val"])}
            if s["bus"] == 1 and (not win.paged or cur["page"] == loc // win.per_page):
                cy["bus"] = (win.addr(loc, 0)[1], 0, 1, 0)
            elif s["bus"] == 2:
                cy["bus"] = oth(1, loc, True, s["val"] & _m(dw))
            cyc.append(cy)
        elif op == "page":
            cur["page"] = s["p"]
            cyc.append({"page": s["p"]})
        else:
            for _ in range(s["n"]):
                cyc.append({})
    return cyc + [{}, {}, {}]


def _sram_descr(case):
    return "dw %d paging %#x address %d %s width %d depth %d ro %r attr %r devport %r" % (
        case["dw"], case["paging"], case["address"], case["form"], case["width"], case["depth"], case["ro"], case["attr"], case["devport"])


def _watch(depth, focus, per_page):
    if depth <= 24:
        return list(range(depth))
    w = set(_focus_candidates(depth, per_page))
    for f in focus:
        w |= {f, f - 1, f + 1, f % per_page, f + per_page, f - per_page, f ^ 1, f ^ 2}
    return sorted(x for x in w if 0 <= x < depth)


def run_sram(case):
    dw, A = case["dw"], case["paging"] // 4
    c = (case["width"] + dw - 1) // dw
    try:
        top, sram, bus, mem, dp, init = _build_sram(case)
    except _DutCrash as dc:
        ex = dc.args[0]
        if isinstance(ex, ValueError) and c & (c - 1):
            return skip("memory width needs a non-power-of-two number of CSR words", detail=str(ex)[:100])
        return bad("build-crash", "csr_bus.SRAM raised %s: %s | %s" % (type(ex).__name__, str(ex)[:200], _sram_descr(case)), key="c12:sram:build-crash")
    if c & (c - 1):
        return bad("geometry", "a memory needing %d CSR words per location was accepted | %s" % (c, _sram_descr(case)), key="c12:sram:geometry")
    ro = case["ro"] if case["ro"] is not None else (bool(case["attr"]) if case["attr"] is not None else False)
    win = Win(dw, A, case["address"], case["width"], case["depth"], init, ro)
    cls = ["dw%d" % dw, "c%d" % c, "narrow" if case["width"] < dw else ("equal" if case["width"] == dw else "wide"), "paged" if win.paged else "one-page",
           "ro" if ro else "rw", "form:" + case["form"], "read_only=%r" % (case["ro"],)] + (["devport"] if dp is not None else [])
    if case["ro"] is None and case["attr"] is not None:
        cls.append("bus_read_only=%r" % case["attr"])
    # geometry the hardware declares
    if (mem.width, mem.depth) != (case["width"], case["depth"]):
        return bad("geometry", "memory is %dx%d, expected %dx%d | %s" % (mem.width, mem.depth, case["width"], case["depth"], _sram_descr(case)), key="c12:sram:geometry", cls=cls)
    hw_pb = 0 if sram._page is None else len(sram._page.storage)
    if hw_pb != win.page_bits or [x for x in sram.get_csrs()] != ([] if sram._page is None else [sram._page]):
        return bad("page-register", "page register of %d bits, expected %d | %s" % (hw_pb, win.page_bits, _sram_descr(case)), key="c12:sram:page-register", cls=cls)
    cycles = _expand_sram(case, win)
    watch = _watch(case["depth"], case["focus"], win.per_page)
    reads = [bus.dat_r] + [mem[i] for i in watch]
    trace = []
    w = _Writer()

    def step(t, vals):
        trace.append(list(vals))
        out = []
        cy = cycles[t] if t < len(cycles) else {}
        b = cy.get("bus", (0, 0, 0, 0))
        w.set(out, bus.adr, b[0])
        w.set(out, bus.we, b[1])
        w.set(out, bus.re, b[2])
        w.set(out, bus.dat_w, b[3])
        if "page" in cy and sram._page is not None:
            w.set(out, sram._page.storage, cy["page"])
        if dp is not None:
            d = cy.get("dev")
            w.set(out, dp.we, 1 if d else 0)
            if d:
                w.set(out, dp.adr, d[0])
                w.set(out, dp.dat_w, d[1])
        return out

    n = len(cycles) + 1
    final = _simulate(top, reads, step, n, final=[mem[i] for i in range(case["depth"])])
    # ---- model alongside.  trace[t] = values during cycle t-1; one edge with all-zero inputs precedes cycle 0
    page = 0
    win.step((0, 0, 0, 0), 0)
    written = set()
    readback = False
    hist = set()
    for t in range(1, len(trace)):
        cn = t - 1
        cy = cycles[cn] if cn < len(cycles) else {}
        b = cy.get("bus", (0, 0, 0, 0))
        if "page" in cy:
            page = cy["page"]
        vals = trace[t]
        if win.rd is not None and vals[0] not in win.rd:
            pb_ = cycles[cn - 1].get("bus") if cn else None
            return bad("dat_r", "cycle %d: dat_r=%#x, model %s (previous cycle bus=%r, window %sselected) | %s" %
                       (cn, vals[0], sorted(hex(x) for x in win.rd), pb_, "" if win.sel else "not ", _sram_descr(case)),
                       key="c12:sram:dat_r" + ("" if win.sel else ":not-selected"), cls=cls)
        for i, v in zip(watch, vals[1:]):
            if v != win.mem[i]:
                return bad("memory", "cycle %d: mem[%d]=%#x, model %#x (previous cycle bus=%r) | %s" %
                           (cn, i, v, win.mem[i], cycles[cn - 1].get("bus") if cn else None, _sram_descr(case)), key="c12:sram:mem", cls=cls)
        loc, sub = win.step(b, page, cy.get("dev"))
        for e in win.events:
            hist.add(e)
        if "commit" in win.events:
            written.add(loc)
            if cy.get("seq"):
                hist.add("seq-commit")
        if cy.get("ilv") and "stage" not in win.events:
            hist.add("foreign-interleave" if cy["ilv"] == 1 else "read-interleave")
        if win.sel and b[2] and loc is not None and loc < case["depth"] and (loc in written or (ro and win.mem[loc])):
            readback = True
            hist.add("readback")
        if not win.sel and b[1]:
            hist.add("other-page-write")
        if "dev" in cy:
            hist.add("dev-write")
    # the last activation: trace has n+1 entries (activations 0..n); final was read at activation n-1 = values of cycle n-2
    if final is not None:
        # replaying the model up to cycle n-2 is what the loop did for t <= n-1; cycles after len(cycles) are idle, so contents are final
        for i, v in enumerate(final):
            if v != win.mem[i]:
                return bad("memory", "after the run: mem[%d]=%#x, model %#x | %s" % (i, v, win.mem[i], _sram_descr(case)), key="c12:sram:mem", cls=cls)
    return ok(nt=readback, cls=cls + sorted(hist), cycles=n)



# ------------------------------------------------------------------------------------ sub-check "bankarray": strategy

TOPS = ["uart", "tim", "a9", "Z", "_p", "zz", "m0"]
SUBS = ["phy", "core", "s0", "x"]
ITEMS = ["ctl", "dat", "a", "zq", "en", "b7", "Q", "_h", "k0", "w"]


def _tree_regs(obj, out=None):
    """all register items of a tree that the gatherer will see (autocsr_exclude applied)"""
    out = [] if out is None else out
    for it in obj["items"]:
        if it["t"] == "reg" and it["attr"] not in obj["excl"]:
            out.append(it)
    for sub in obj["subs"]:
        if sub["attr"] not in obj["excl"]:
            _tree_regs(sub, out)
    return out


def _n_crash(regs):
    """the trigger class of finding c12:gather:fixed-n-eq-count: going through the fixed registers in creation order, the list is only
    extended when n is GREATER than its length so far, so a register whose n equals the final length has no slot.  Returns that register."""
    fixed = sorted([r for r in regs if r["n"] is not None], key=lambda r: r["ord"])
    length = len(regs)
    for r in fixed:
        if r["n"] > length:
            length = r["n"] + 1
    for r in fixed:
        if r["n"] >= length:
            return r
    return None


def st_array(tier):
    @st.composite
    def case(draw):
        dw = draw(st.sampled_from([8, 32]))
        ordering = draw(st.sampled_from(["big", "big", "little"]))
        paging = draw(st.sampled_from([0x400, 0x400, 0x800, 0x800, 0x1000]))
        A = paging // 4
        ic = draw(st.sampled_from(["plain", "shared1", "shared2"]))
        ords = []

        def reg(attr):
            kind = draw(st.sampled_from(["storage", "storage", "status", "csr"]))
            if kind == "csr":
                size = draw(st.integers(1, dw))
            else:
                size = draw(st.one_of(st.integers(1, dw), st.integers(dw + 1, 2 * dw + 3), st.sampled_from([dw, 2 * dw, dw + 1])))
            r = {"t": "reg", "attr": attr, "kind": kind, "size": size, "reset": draw(st.integers(0, _m(size))), "n": None}
            if kind == "storage":
                r["atomic"] = draw(st.booleans())     # little + atomic was a finding of C12 (repaired by ade5497): own key below
            elif kind == "status":
                r["ro"] = draw(st.integers(0, 3)) != 0
            ords.append(r)
            return r

        def mem(attr, plain):
            shape = draw(st.sampled_from(["narrow", "equal", "equal", "wide2", "wide4"]))
            if ordering == "little" and shape.startswith("wide"):
                shape = "equal"                                                 # see ASSUMPTIONS
            width = {"narrow": draw(st.integers(1, dw - 1)), "equal": dw, "wide2": draw(st.integers(dw + 1, 2 * dw)),
                     "wide4": draw(st.integers(3 * dw + 1, 4 * dw))}[shape]
            c = (width + dw - 1) // dw
            per_page = A // c
            if per_page <= 256 and draw(st.integers(0, 2)) == 0:
                depth = draw(st.one_of(st.sampled_from([per_page + 1, 2 * per_page + 1]), st.integers(per_page + 1, 2 * per_page + 8)))
            else:
                depth = draw(st.one_of(st.integers(2, 9), st.integers(10, 40)))
            cand = _focus_candidates(depth, per_page)
            m_ = {"t": "mem", "attr": attr, "width": width, "depth": depth, "seed": draw(st.integers(0, 2 ** 16)),
                  "ro": plain and draw(st.booleans()), "tuple": plain and draw(st.booleans()), "map": None,
                  "focus": [draw(st.one_of(st.sampled_from(cand), st.integers(0, depth - 1))) for _ in range(draw(st.integers(2, 3)))]}
            m_["tuple"] = m_["tuple"] or m_["ro"]
            ords.append(m_)
            return m_

        def obj(level, attr, auto):
            names = list(draw(st.permutations(ITEMS)))
            o = {"attr": attr, "auto": auto, "items": [], "subs": [], "excl": []}
            for _ in range(draw(st.integers(0, 4 if level == 0 else 2))):
                o["items"].append(reg(names.pop()))
            if draw(st.integers(0, 2 if level == 0 else 4)) == 0:
                o["items"].append(mem(names.pop(), not auto))
            if auto and draw(st.integers(0, 4)) == 0:
                c_ = {"t": "const", "attr": names.pop(), "value": draw(st.integers(0, 255))}
                ords.append(c_)
                o["items"].append(c_)
            if auto and level < 2:
                sn = list(draw(st.permutations(SUBS)))
                for _ in range(draw(st.sampled_from([0, 0, 1, 1, 2] if level == 0 else [0, 0, 1]))):
                    o["subs"].append(obj(level + 1, sn.pop(), True))
            if auto and draw(st.integers(0, 5)) == 0:
                pool = [i["attr"] for i in o["items"]] + [s_["attr"] for s_ in o["subs"]]
                if pool:
                    o["excl"] = [draw(st.sampled_from(pool))]
            return o

        tn = list(draw(st.permutations(TOPS)))
        objs = []
        for _ in range(draw(st.integers(2, 4))):
            objs.append(obj(0, tn.pop(), draw(st.integers(0, 3)) != 0))
        if not any(_tree_regs(o) for o in objs):
            objs[0]["items"].append(reg("ctl0"))
            objs[0]["excl"] = []
        # creation order: a permutation over everything created (DUID order decides the automatic placement)
        perm = draw(st.permutations(list(range(len(ords)))))
        for it, k in zip(ords, perm):
            it["ord"] = k
        # fixed locations (AutoCSR top-level objects: the sorted gatherer is only used on the object CSRBankArray scans)
        excluded = 0
        for o in objs:
            regs = _tree_regs(o)
            if not o["auto"] or not regs or draw(st.integers(0, 1)):
                continue
            cnt = len(regs)
            chosen = draw(st.lists(st.sampled_from(regs), min_size=1, max_size=2, unique_by=id))
            used = []
            for r in chosen:
                n = draw(st.integers(0, cnt + 2))
                if n in used and draw(st.integers(0, 7)):
                    n = max(used) + 1
                used.append(n)
                r["n"] = n
            while False and _n_crash(regs):     # no longer steered away: repaired in /repo (witness replayed); the class is counted
                # a fixed n equal to the list length computed so far: IndexError in _sort_gathered_items (finding
                # c12:gather:fixed-n-eq-count) - steer away by moving that register one slot up
                off = _n_crash(regs)
                off["n"] += 1
                while any(r is not off and r["n"] == off["n"] for r in chosen):
                    off["n"] += 1
                excluded += 1
        # page numbers
        # bus address width: the default 14 bits, or wider with banks in the pages only the extra bits reach
        aw = draw(st.sampled_from([14, 14, 14, 15, 16]))
        ps_ = A.bit_length() - 1
        if aw == 14:
            cand = list(range(12))
        else:
            cand = list(range(6)) + [(1 << (aw - ps_)) - 1 - i for i in range(3)] + [(1 << (14 - ps_)) + i for i in range(3)]
        pages = list(draw(st.permutations(cand)))
        for o in objs:
            o["map"] = None if draw(st.integers(0, 7)) == 0 else pages.pop()
        for it in ords:
            if it["t"] == "mem":
                it["map"] = None if draw(st.integers(0, 7)) == 0 else pages.pop()
        if all(o["map"] is None or not _tree_regs(o) for o in objs):
            for o in objs:
                if _tree_regs(o):
                    o["map"] = pages.pop()
                    break
        steps = []
        for _ in range(draw(st.integers(12, 45 if tier == "quick" else 90))):
            k = draw(st.integers(0, 11))
            m_ = draw(st.integers(0, 1))
            i8 = st.integers(0, 7)
            if k <= 1:
                s = {"op": "w", "b": draw(i8), "idx": draw(st.integers(0, 15)), "dat": draw(st.integers(0, _m(dw))), "m": m_}
            elif k <= 3:
                s = {"op": "r", "b": draw(i8), "idx": draw(st.integers(0, 15)), "m": m_}
            elif k <= 6:
                s = {"op": "seq", "b": draw(i8), "reg": draw(st.integers(0, 15)), "val": draw(st.integers(0, (1 << 80) - 1)), "rd": draw(st.booleans()), "m": m_}
            elif k == 7:
                s = {"op": "mseq", "w": draw(i8), "f": draw(st.integers(0, 2)), "val": draw(st.integers(0, (1 << 128) - 1)), "rd": draw(st.booleans()),
                     "ilv": draw(st.integers(0, 2)), "g": draw(st.integers(0, _m(dw))), "m": m_}
            elif k == 8:
                s = {"op": "mw" if draw(st.booleans()) else "mr", "w": draw(i8), "f": draw(st.integers(0, 2)), "sub": draw(st.integers(0, 3)),
                     "dat": draw(st.integers(0, _m(dw))), "m": m_}
            elif k == 9:
                s = {"op": "un", "p": draw(st.integers(0, 3)), "low": draw(st.one_of(st.integers(0, 7), st.integers(0, A - 1))), "we": draw(st.booleans()),
                     "dat": draw(st.integers(0, _m(dw))), "m": m_}
            elif k == 10:
                s = {"op": "dev", "b": draw(i8), "reg": draw(st.integers(0, 15)), "val": draw(st.integers(0, (1 << 80) - 1))}
            else:
                s = {"op": "idle", "n": draw(st.integers(1, 2))}
            steps.append(s)
        return {"dw": dw, "ordering": ordering, "paging": paging, "ic": ic, "objs": objs, "steps": steps, "steered": excluded, "aw": aw}
    return case()


# ------------------------------------------------------------------------------------ sub-check "bankarray": placement model

def _gather(obj, kind, prefix=""):
    """(prefixed name, item) of every item of `kind` in the tree, as the documented AutoCSR rules say: attributes of the object,
    plus those of child objects with the child's attribute name as prefix; names in autocsr_exclude are skipped"""
    out = []
    for it in obj["items"]:
        if it["t"] == kind and it["attr"] not in obj["excl"]:
            out.append((prefix + it["attr"], it))
    for sub in obj["subs"]:
        if sub["attr"] not in obj["excl"]:
            out += _gather(sub, kind, prefix + sub["attr"] + "_")
    return out


def _place(regs):
    """positions of the registers of one object: fixed ones at n, the others in creation order in the free slots, fillers elsewhere.
    returns (list of (name, item|None), conflict)"""
    fixed = [(nm, it) for nm, it in regs if it["n"] is not None]
    var = sorted([(nm, it) for nm, it in regs if it["n"] is None], key=lambda x: x[1]["ord"])
    length = max([len(regs)] + [it["n"] + 1 for _, it in fixed])
    slots = [None] * length
    for nm, it in fixed:
        if slots[it["n"]] is not None:
            return None, True
        slots[it["n"]] = (nm, it)
    free = [i for i in range(length) if slots[i] is None]
    for (nm, it), i in zip(var, free):
        slots[i] = (nm, it)
    for i in range(length):
        if slots[i] is None:
            slots[i] = ("reserved%d" % i, None)
    return slots, False


def _layout(case):
    """what the documented rules say CSRBankArray must build: banks, windows, constants, address_map calls"""
    dw, A = case["dw"], case["paging"] // 4
    L = {"banks": [], "wins": [], "consts": [], "calls": [], "conflict": False, "n_eq_count": False}
    for o in case["objs"]:
        regs = _gather(o, "reg")
        if o["auto"]:
            if _n_crash([it for _, it in regs]) is not None:
                L["n_eq_count"] = True
            slots, conflict = _place(regs)
            if conflict:
                L["conflict"] = True
                return L
            mems = sorted(_gather(o, "mem"), key=lambda x: x[1]["ord"])
            for nm, it in sorted(_gather(o, "const"), key=lambda x: x[1]["ord"]):
                L["consts"].append((o["attr"], nm, it["value"]))
        else:
            slots = [(nm, it) for nm, it in regs]       # a plain get_csrs(): the list as the object returns it
            mems = _gather(o, "mem")
        entries = [{"name": nm, "it": it, "kind": it["kind"] if it else "csr", "size": it["size"] if it else 1} for nm, it in slots]
        for nm, it in mems:
            L["calls"].append((o["attr"], nm))
            if it["map"] is None:
                continue
            w = {"obj": o["attr"], "name": nm, "it": it, "map": it["map"], "page": None}
            c = (it["width"] + dw - 1) // dw
            if it["depth"] * c > A:
                pb = _clog2((it["depth"] * c + A - 1) // A)
                entries.append({"name": nm + "_page", "it": None, "kind": "storage", "size": pb, "page_of": len(L["wins"])})
            L["wins"].append(w)
        if entries:
            L["calls"].append((o["attr"], None))
            if o["map"] is not None:
                for pos, e in enumerate(entries):
                    if "page_of" in e:
                        L["wins"][e["page_of"]]["page"] = (len(L["banks"]), pos)
                L["banks"].append({"obj": o["attr"], "map": o["map"], "entries": entries})
    return L


def _bank_pseudo_case(case, bank):
    """the bank in the vocabulary of checks.C12.Model"""
    regs, descr = [], []
    for e in bank["entries"]:
        it = e["it"]
        r = {"kind": e["kind"], "size": e["size"]}
        if e["kind"] == "storage":
            r.update({"reset": it["reset"] if it else 0, "atomic": bool(it and it.get("atomic"))})
        elif e["kind"] == "status":
            r.update({"reset": it["reset"], "read_only": it.get("ro", True)})
        regs.append(r)
        descr.append(types.SimpleNamespace(size=e["size"]))
    return {"busword": case["dw"], "ordering": case["ordering"], "regs": regs, "paging": case["paging"], "address": bank["map"]}, descr


# ------------------------------------------------------------------------------------ sub-check "bankarray": build

def _build_array(case):
    from migen import Module, Memory
    from litex.soc.interconnect import csr, csr_bus
    dw = case["dw"]

    class Auto(Module, csr.AutoCSR):
        pass

    class Plain(Module):
        def __init__(self):
            self.regs_, self.mems_ = [], []

        def get_csrs(self):
            return list(self.regs_)

        def get_memories(self):
            return list(self.mems_)

    # 1. create every CSR / memory / constant in the generated creation order
    allitems = []

    def collect(o):
        allitems.extend(o["items"])
        for s_ in o["subs"]:
            collect(s_)
    for o in case["objs"]:
        collect(o)
    made = {}
    for it in sorted(allitems, key=lambda x: x["ord"]):
        if it["t"] == "reg":
            if it["kind"] == "csr":
                x = csr.CSR(it["size"], name=it["attr"], n=it["n"])
            elif it["kind"] == "storage":
                x = csr.CSRStorage(it["size"], reset=it["reset"], atomic_write=it.get("atomic", False), name=it["attr"], n=it["n"])
            else:
                x = csr.CSRStatus(it["size"], reset=it["reset"], read_only=it.get("ro", True), name=it["attr"], n=it["n"])
        elif it["t"] == "mem":
            x = Memory(it["width"], it["depth"], init=_mem_init(it["width"], it["depth"], "full", it["seed"]), name=it["attr"])
        else:
            x = csr.CSRConstant(it["value"], name=it["attr"])
        made[it["ord"]] = x

    # 2. the object tree
    def mk(o):
        m = Auto() if o["auto"] else Plain()
        for it in o["items"]:
            x = made[it["ord"]]
            setattr(m, it["attr"], x)
            if not o["auto"]:
                if it["t"] == "reg":
                    m.regs_.append(x)
                elif it["t"] == "mem":
                    m.mems_.append((it["ro"], x) if it["tuple"] else x)
        for s_ in o["subs"]:
            c_ = mk(s_)
            setattr(m, s_["attr"], c_)
            m.submodules += c_
        if o["excl"]:
            m.autocsr_exclude = set(o["excl"])
        return m

    source = Module()
    for o in case["objs"]:
        m = mk(o)
        setattr(source, o["attr"], m)
        source.submodules += m
    amap = {}
    for o in case["objs"]:
        amap[(o["attr"], None)] = o["map"]
    calls = []

    def address_map(name, memory):
        key = (name, None if memory is None else memory.name_override)
        calls.append(key)
        if memory is None:
            return amap.get(key)
        for nm, it in memmaps.get(name, []):
            if made[it["ord"]] is memory:
                return it["map"]
        return None                                  # a request the placement model does not expect: the call log shows it
    memmaps = {o["attr"]: _gather(o, "mem") for o in case["objs"]}
    try:
        with _quiet():
            ba = csr_bus.CSRBankArray(source, address_map, data_width=dw, address_width=case.get("aw", AW), paging=case["paging"], ordering=case["ordering"])
    except Exception as ex:
        raise _DutCrash(ex)
    nm_ = 2 if case["ic"] == "shared2" else 1
    masters = [csr_bus.Interface(data_width=dw, address_width=case.get("aw", AW)) for _ in range(nm_)]
    if not ba.get_buses():
        return None
    try:
        if case["ic"] == "plain":
            ic = csr_bus.Interconnect(masters[0], ba.get_buses())
        else:
            ic = csr_bus.InterconnectShared(masters, ba.get_buses())
    except Exception as ex:
        raise _DutCrash(ex)
    dut = Module()
    dut.submodules += source, ba, ic
    return dut, ba, masters, made, calls


def _check_layout(case, L, ba, made, calls):
    """static comparison of what CSRBankArray recorded with the placement model; returns an error text or None"""
    from litex.soc.interconnect import csr
    if sorted(map(repr, calls)) != sorted(map(repr, L["calls"])):
        return "address_map calls %r, expected (any order) %r" % (calls, L["calls"])
    hb = {name: (csrs, mapaddr, rmap) for name, csrs, mapaddr, rmap in ba.banks}
    if len(hb) != len(ba.banks) or sorted(hb) != sorted(b["obj"] for b in L["banks"]):
        return "banks %r, expected %r" % ([b[0] for b in ba.banks], [b["obj"] for b in L["banks"]])
    for b in L["banks"]:
        csrs, mapaddr, rmap = hb[b["obj"]]
        if mapaddr != b["map"]:
            return "bank %s at location %r, expected %r" % (b["obj"], mapaddr, b["map"])
        got = [c.name for c in csrs]
        exp = [e["name"] for e in b["entries"]]
        if got != exp:
            return "bank %s holds %r, expected %r" % (b["obj"], got, exp)
        for c, e in zip(csrs, b["entries"]):
            if e["it"] is not None and c is not made[e["it"]["ord"]]:
                return "bank %s: entry %s is not the object created under that name" % (b["obj"], e["name"])
            if e["it"] is None and "page_of" not in e and not (isinstance(c, csr.CSR) and c.size == 1):
                return "bank %s: filler %s is %r" % (b["obj"], e["name"], c)
            if c.size != e["size"]:
                return "bank %s: %s has %d bits, expected %d" % (b["obj"], e["name"], c.size, e["size"])
    if len(ba.srams) != len(L["wins"]):
        return "windows %r, expected %r" % ([(s[0], s[1].name_override) for s in ba.srams], [(w["obj"], w["name"]) for w in L["wins"]])
    for w in L["wins"]:
        hit = [s for s in ba.srams if s[1] is made[w["it"]["ord"]]]
        if len(hit) != 1:
            return "memory %s_%s has %d windows" % (w["obj"], w["name"], len(hit))
        name, memory, mapaddr, mmap = hit[0]
        if (name, memory.name_override, mapaddr) != (w["obj"], w["name"], w["map"]):
            return "window %r, expected %r" % ((name, memory.name_override, mapaddr), (w["obj"], w["name"], w["map"]))
        w["mmap"] = mmap
        if w["page"] is not None:
            bi, pos = w["page"]
            if hb[L["banks"][bi]["obj"]][0][pos] is not mmap._page:
                return "page register of %s is not at position %d of bank %s" % (w["name"], pos, L["banks"][bi]["obj"])
    got = sorted((n, c.name, c.value.value) for n, c in ba.constants)
    if got != sorted(L["consts"]):
        return "constants %r, expected %r" % (got, sorted(L["consts"]))
    if len(ba.get_buses()) != len(L["banks"]) + len(L["wins"]) or len(ba.get_rmaps()) != len(L["banks"]) or len(ba.get_mmaps()) != len(L["wins"]):
        return "get_buses/get_rmaps/get_mmaps lengths"
    return None


# ------------------------------------------------------------------------------------ sub-check "bankarray": stimulus and run

def _expand_array(case, L, models, wins):
    """steps -> one dict per cycle: bus (adr, we, re, dat), m (master), dev [(bank, pos, value)], tags for the evidence"""
    dw, A = case["dw"], case["paging"] // 4
    ps = A.bit_length() - 1
    cyc = []
    nb, nw = len(L["banks"]), len(wins)
    used = {b["map"] for b in L["banks"]} | {w["map"] for w in L["wins"]}
    npg = 1 << (case.get("aw", AW) - ps)
    unowned = ([p for p in range(npg) if p not in used][:3] + [p for p in range(npg - 1, -1, -1) if p not in used][:1])[:4]
    curpage = [0] * nw
    pagereg = {}                                     # bus address of a page register -> window index
    for wi, w in enumerate(L["wins"]):
        if w["page"] is not None:
            bi, pos = w["page"]
            idx = [n_ for n_, x in enumerate(models[bi].words) if x[0] == pos][0]
            pagereg[(L["banks"][bi]["map"] << ps) | idx] = wi

    def emit(cy):
        b = cy.get("bus")
        if b and b[1]:
            for wi_, wn in enumerate(wins):
                # safety net: never write beyond the end of a memory (undefined in the generated Verilog)
                if (b[0] >> ps) == wn.mapaddr and wn.locate(b[0], curpage[wi_])[0] >= wn.depth:
                    cy = {"dropped": 1}
                    b = None
        if b and b[1] and b[0] in pagereg:
            wi = pagereg[b[0]]
            curpage[wi] = b[3] & _m(wins[wi].page_bits)
        cyc.append(cy)

    def goto(wi, loc, m):
        win = wins[wi]
        if win.paged and curpage[wi] != loc // win.per_page:
            adr = [a for a, x in pagereg.items() if x == wi][0]
            emit({"bus": (adr, 1, 0, loc // win.per_page), "m": m, "tgt": ("page", wi)})

    def wloc(wi, f):
        win, w = wins[wi], L["wins"][wi]
        loc = w["it"]["focus"][f % len(w["it"]["focus"])]
        if win.paged and w["page"] is None:
            loc %= win.per_page                      # the page register is not reachable: only page 0 can be addressed
        return loc

    for s in case["steps"]:
        op = s["op"]
        m = s.get("m", 0)
        if op in ("w", "r", "seq", "dev") and nb:
            bi = s["b"] % nb
            base = L["banks"][bi]["map"] << ps
            words = models[bi].words
            if op == "w":
                emit({"bus": (base | (s["idx"] % (len(words) + 2)), 1, 0, s["dat"]), "m": m})
            elif op == "r":
                emit({"bus": (base | (s["idx"] % (len(words) + 2)), 0, 1, 0), "m": m})
            elif op == "dev":
                emit({"dev": [(bi, s["reg"] % len(L["banks"][bi]["entries"]), s["val"])]})
            else:
                k = s["reg"] % len(L["banks"][bi]["entries"])
                ws = [(n_, x) for n_, x in enumerate(words) if x[0] == k]
                for n_, (kk, i, nbits) in ws:
                    emit({"bus": (base | n_, 1, 0, (s["val"] >> (i * dw)) & _m(nbits)), "m": m, "tgt": ("reg", bi, k)})
                if s["rd"]:
                    emit({})
                    for n_, (kk, i, nbits) in ws:
                        emit({"bus": (base | n_, 0, 1, 0), "m": m, "rdt": ("reg", bi, k)})
        elif op in ("mseq", "mw", "mr") and nw:
            wi = s["w"] % nw
            win = wins[wi]
            loc = wloc(wi, s["f"])
            goto(wi, loc, m)
            if op == "mw":
                emit({"bus": (win.addr(loc, s["sub"] % win.c)[1], 1, 0, s["dat"]), "m": m})
            elif op == "mr":
                emit({"bus": (win.addr(loc, s["sub"] % win.c)[1], 0, 1, 0), "m": m, "rdt": ("win", wi, loc)})
            else:
                for sub in range(win.c):
                    goto(wi, loc, m)                 # a foreign write in between may have hit the page register
                    emit({"bus": (win.addr(loc, sub)[1], 1, 0, (s["val"] >> (dw * (win.c - 1 - sub))) & _m(dw)), "m": m, "tgt": ("win", wi, loc)})
                    if sub < win.c - 1 and s["ilv"] == 1:
                        # a write to somebody else (a bank or nobody) with the same low address bits
                        others = [b["map"] for b in L["banks"]] + unowned[:1]
                        p = others[s["g"] % len(others)]
                        emit({"bus": ((p << ps) | (win.addr(loc, sub)[1] & (A - 1) & 7), 1, 0, s["g"]), "m": m ^ 1, "ilv": 1})
                if s["rd"]:
                    emit({})
                    goto(wi, loc, m)
                    for sub in range(win.c):
                        emit({"bus": (win.addr(loc, sub)[1], 0, 1, 0), "m": m, "rdt": ("win", wi, loc)})
        elif op == "un" and unowned:
            p = unowned[s["p"] % len(unowned)]
            emit({"bus": ((p << ps) | (s["low"] & (A - 1)), int(s["we"]), int(not s["we"]), s["dat"] if s["we"] else 0), "m": m, "un": 1})
        else:
            for _ in range(s.get("n", 1)):
                emit({})
    return cyc + [{}, {}, {}]


def _array_descr(case, L):
    return "dw %d %s paging %#x %s banks %r windows %r" % (
        case["dw"], case["ordering"], case["paging"], case["ic"],
        [(b["obj"], b["map"], [(e["name"], e["kind"], e["size"]) for e in b["entries"]]) for b in L["banks"]],
        [(w["obj"], w["name"], w["map"], w["it"]["width"], w["it"]["depth"], w["it"]["ro"]) for w in L["wins"]])


def run_array(case):
    from checks.C12 import Model
    dw, A = case["dw"], case["paging"] // 4
    L = _layout(case)
    cls = ["dw%d" % dw, case["ordering"], "ic:" + case["ic"]]
    if case.get("steered"):
        cls.append("steered-away:fixed-n-eq-count")
    try:
        built = _build_array(case)
    except _DutCrash as dc:
        ex = dc.args[0]
        if isinstance(ex, ValueError) and L["conflict"]:
            return skip("two registers fixed at the same location", detail=str(ex)[:120])
        if isinstance(ex, IndexError) and L["n_eq_count"]:
            return bad("gather", "fixed location n == number of registers of the object: IndexError (%s) instead of [.., filler, register]" % ex,
                       key="c12:gather:fixed-n-eq-count", cls=cls)
        return bad("build-crash", "CSRBankArray / interconnect construction raised %s: %s on a legal object tree | %s" %
                   (type(ex).__name__, str(ex)[:200], json.dumps(case["objs"])[:1500]), key="c12:array:build-crash", cls=cls)
    if L["conflict"]:
        return bad("conflict-accepted", "two registers fixed at the same location were accepted", key="c12:array:conflict", cls=cls)
    if built is None:
        return skip("nothing mapped")
    dut, ba, masters, made, calls = built
    err = _check_layout(case, L, ba, made, calls)
    if err:
        return bad("layout", err + " | " + _array_descr(case, L), key="c12:array:layout", cls=cls)
    # ---- models
    models, hw = [], []
    hb = {name: csrs for name, csrs, mapaddr, rmap in ba.banks}
    for b in L["banks"]:
        pc, descr = _bank_pseudo_case(case, b)
        models.append(Model(pc, descr))
        hw.append(hb[b["obj"]])
    wins = []
    for w in L["wins"]:
        it = w["it"]
        wins.append(Win(dw, A, w["map"], it["width"], it["depth"], _mem_init(it["width"], it["depth"], "full", it["seed"]), bool(it["ro"])))
    # address uniqueness as the hardware declares it (word count of every bank inside its page, pages distinct)
    pages = [b["map"] for b in L["banks"]] + [w["map"] for w in L["wins"]]
    if len(set(pages)) != len(pages):
        return skip("address_map handed out a location twice")
    for bi, b in enumerate(L["banks"]):
        rmap = [x[3] for x in ba.banks if x[0] == b["obj"]][0]
        if len(rmap.simple_csrs) != len(models[bi].words) or len(models[bi].words) > A:
            return bad("layout", "bank %s has %d words, model %d | %s" % (b["obj"], len(rmap.simple_csrs), len(models[bi].words), _array_descr(case, L)),
                       key="c12:array:layout", cls=cls)
    cycles = _expand_array(case, L, models, wins)
    # ---- observation
    reads = [m_.dat_r for m_ in masters]
    nmast = len(masters)
    layout = []                                   # (bank, pos, kind, number of signals)
    for bi, b in enumerate(L["banks"]):
        for pos, e in enumerate(b["entries"]):
            d = hw[bi][pos]
            if e["kind"] == "csr":
                reads += [d.re, d.r, d.we]
                layout.append((bi, pos, "csr", 3))
            elif e["kind"] == "storage":
                reads += [d.storage, d.re]
                layout.append((bi, pos, "storage", 2))
            else:
                extra = [d.r] if not e["it"].get("ro", True) else []
                reads += [d.we, d.re] + extra
                layout.append((bi, pos, "status", 2 + len(extra)))
    watch = []
    mems = [made[w["it"]["ord"]] for w in L["wins"]]
    for wi, w in enumerate(L["wins"]):
        wl = _watch(w["it"]["depth"], w["it"]["focus"], wins[wi].per_page)
        watch.append(wl)
        reads += [mems[wi][i] for i in wl]
    final = [mems[wi][i] for wi, w in enumerate(L["wins"]) for i in range(w["it"]["depth"])]
    trace, devlog = [], []
    wr = _Writer()

    def step(t, vals):
        trace.append(list(vals))
        out = []
        cy = cycles[t] if t < len(cycles) else {}
        b = cy.get("bus", (0, 0, 0, 0))
        act = cy.get("m", 0) % nmast
        for mi, ms in enumerate(masters):
            bb = b if mi == act else (0, 0, 0, 0)
            wr.set(out, ms.adr, bb[0])
            wr.set(out, ms.we, bb[1])
            wr.set(out, ms.re, bb[2])
            wr.set(out, ms.dat_w, bb[3])
        dv = {}
        for bi, pos, val in cy.get("dev", []):
            e = L["banks"][bi]["entries"][pos]
            d = hw[bi][pos]
            if e["kind"] == "status":
                wr.set(out, d.status, val)
                dv[("status", bi, pos)] = val & _m(e["size"])
            elif e["kind"] == "csr":
                wr.set(out, d.w, val)
                dv[("wset", bi, pos)] = val & _m(e["size"])
        devlog.append(dv)
        return out

    n = len(cycles) + 1
    fin = _simulate(dut, reads, step, n, final=final or None)
    # ---- models alongside (see checks/C12.py for the cycle numbering)
    csr_w = [dict() for _ in models]
    for mo in models:
        mo.step((0, 0, 0, 0), {})
    for wn in wins:
        wn.step((0, 0, 0, 0), 0)

    def pageval(wi):
        pg = L["wins"][wi]["page"]
        return 0 if pg is None else models[pg[0]].regs[pg[1]]["storage"]

    hist = set()
    written, readback = set(), set()
    lastt = None
    D = lambda: _array_descr(case, L)
    for t in range(1, len(trace)):
        cn = t - 1
        cy = cycles[cn] if cn < len(cycles) else {}
        b = cy.get("bus", (0, 0, 0, 0))
        prevbus = cycles[cn - 1].get("bus") if 0 < cn <= len(cycles) else None
        dv = devlog[cn] if cn < len(devlog) else {}
        for (kind, bi, pos), val in dv.items():
            if kind == "status":
                models[bi].regs[pos]["status"] = val
            else:
                csr_w[bi][pos] = val
        vals = trace[t]
        # dat_r: OR of everything on the bus = what the addressed bank / window holds (everybody else drives zero)
        exp = {0}
        for mo in models:
            exp = {x | mo.dat_r for x in exp}
        for wn in wins:
            exp = None if (exp is None or wn.rd is None) else {x | y for x in exp for y in wn.rd}
        if exp is not None:
            for mi in range(nmast):
                if vals[mi] not in exp:
                    who = [bb["obj"] for bb, mo in zip(L["banks"], models) if prevbus and mo.comb(prevbus)[0]] + \
                          ["window " + w["name"] for w, wn in zip(L["wins"], wins) if wn.sel]
                    return bad("dat_r", "cycle %d: master %d dat_r=%#x, model %s (previous cycle bus=%r addressed %r) | %s" %
                               (cn, mi, vals[mi], sorted(hex(x) for x in exp), prevbus, who or "nobody", D()),
                               key="c12:array:dat_r" + ("" if who else ":not-addressed"), cls=cls)
        p_ = nmast
        for bi, pos, kind, nobs in layout:
            mo = models[bi]
            reg = mo.regs[pos]
            v = vals[p_:p_ + nobs]
            p_ += nobs
            sel, idx = mo.comb(b)
            hit = [n_ for n_, x in enumerate(mo.words) if x[0] == pos]
            nm = "%s.%s" % (L["banks"][bi]["obj"], L["banks"][bi]["entries"][pos]["name"])
            if kind == "csr":
                e_re = int(sel and idx == hit[0] and b[1])
                e_we = int(sel and idx == hit[0] and b[2])
                if v[0] != e_re or v[2] != e_we:
                    return bad("strobe", "cycle %d: raw CSR %s re=%d we=%d, model re=%d we=%d (bus=%r) | %s" % (cn, nm, v[0], v[2], e_re, e_we, b, D()), key="c12:array:strobe", cls=cls)
                if e_re and v[1] != (b[3] & _m(reg["size"])):
                    return bad("r", "cycle %d: raw CSR %s r=%#x during re, bus wrote %#x | %s" % (cn, nm, v[1], b[3], D()), key="c12:array:r", cls=cls)
            elif kind == "storage":
                if v[0] != reg["storage"]:
                    return bad("storage", "cycle %d: %s.storage=%#x, model %#x (previous cycle bus=%r) | %s" % (cn, nm, v[0], reg["storage"], prevbus, D()),
                               key="csr:storage:atomic-little" if (reg["atomic"] and case["ordering"] == "little") else "c12:array:storage", cls=cls)
                if v[1] != reg["re"]:
                    return bad("re", "cycle %d: %s.re=%d, model %d (previous cycle bus=%r) | %s" % (cn, nm, v[1], reg["re"], prevbus, D()), key="c12:array:re", cls=cls)
            else:
                last_n = [n_ for n_ in hit if mo.words[n_][1] == reg["last_word"]][0]
                e_we = int(sel and idx == last_n and b[2])
                if v[0] != e_we:
                    return bad("status-we", "cycle %d: %s.we=%d, model %d (bus=%r) | %s" % (cn, nm, v[0], e_we, b, D()), key="c12:array:strobe", cls=cls)
                if v[1] != reg["re"]:
                    return bad("status-re", "cycle %d: %s.re=%d, model %d | %s" % (cn, nm, v[1], reg["re"], D()), key="c12:array:re", cls=cls)
                if nobs == 3 and reg["re"] and v[2] != reg["r"]:
                    return bad("status-r", "cycle %d: writable status %s.r=%#x, model %#x | %s" % (cn, nm, v[2], reg["r"], D()), key="c12:array:r", cls=cls)
        for wi, wl in enumerate(watch):
            for i in wl:
                if vals[p_] != wins[wi].mem[i]:
                    return bad("memory", "cycle %d: %s[%d]=%#x, model %#x (previous cycle bus=%r) | %s" %
                               (cn, L["wins"][wi]["name"], i, vals[p_], wins[wi].mem[i], prevbus, D()), key="c12:array:mem", cls=cls)
                p_ += 1
        # ---- advance over the edge at the end of cycle cn: windows first (they use the page value of this cycle)
        pv = [pageval(wi) for wi in range(len(wins))]
        for wi, wn in enumerate(wins):
            wn.step(b, pv[wi])
            if "commit" in wn.events:
                hist.add("window-commit")
            if wn.sel and wn.paged and pv[wi]:
                hist.add("window-access-page>0")
        for bi, mo in enumerate(models):
            mo.step(b, {("w", k): val for k, val in csr_w[bi].items()})
        # evidence
        anysel = any(mo.comb(b)[0] for mo in models) or any(wn.sel for wn in wins)
        if (b[1] or b[2]) and not anysel:
            hist.add("access-to-unowned-page")
        if cy.get("ilv"):
            hist.add("foreign-write-between-sub-words")
        tgt = cy.get("tgt")
        if tgt:
            if lastt is not None and lastt[:2] != tgt[:2]:
                hist.add("target-switch")
            lastt = tgt
            written.add(tgt)
        if cy.get("rdt") in written:
            readback.add(cy["rdt"][:2])
    if fin is not None:
        k = 0
        for wi, w in enumerate(L["wins"]):
            for i in range(w["it"]["depth"]):
                if fin[k] != wins[wi].mem[i]:
                    return bad("memory", "after the run: %s[%d]=%#x, model %#x | %s" % (w["name"], i, fin[k], wins[wi].mem[i], D()), key="c12:array:mem", cls=cls)
                k += 1
    cls += ["banks=%d" % len(L["banks"]), "windows=%d" % min(len(wins), 3)]
    if any(e["it"] is None and "page_of" not in e for b_ in L["banks"] for e in b_["entries"]):
        cls.append("reserved-filler")
    if any(e["it"] is not None and e["it"]["n"] is not None for b_ in L["banks"] for e in b_["entries"]):
        cls.append("fixed-n")
    if any(w["page"] is not None for w in L["wins"]):
        cls.append("paged-window")
    if any(w["it"]["ro"] for w in L["wins"]):
        cls.append("ro-window")
    if any(o["map"] is None for o in case["objs"]) or any(it["t"] == "mem" and it["map"] is None for o in case["objs"] for it in o["items"]):
        cls.append("object-not-mapped")
    if any(not o["auto"] for o in case["objs"]):
        cls.append("plain-object")
    if any(o["excl"] for o in case["objs"]) or any(s_["excl"] for o in case["objs"] for s_ in o["subs"]):
        cls.append("autocsr_exclude")
    if any(s2["subs"] for o in case["objs"] for s2 in o["subs"]):
        cls.append("nested-2")
    if L["consts"]:
        cls.append("constants")
    if case.get("aw", AW) > AW:
        cls.append("address-width=%d" % case["aw"])
    return ok(nt=len(readback) >= 2, cls=cls + sorted(hist), cycles=n)


def subchecks():
    return [
        Sub("sram", run_sram, strategy=st_sram, examples=(2400, 36000),
            rule="csr_bus.SRAM windows vs word-accurate memory/staging model"),
        Sub("bankarray", run_array, strategy=st_array, examples=(1200, 18000),
            rule="CSRBankArray + Interconnect(Shared) over generated AutoCSR trees vs placement model + per-bank C12 register models + window models"),
    ]

"""C05 - Clock-domain crossings never corrupt, drop, duplicate or reorder data."""
from hypothesis import strategies as st

from vlib.runner import Sub, ok, bad, skip
from vlib import bench, cdc, streams

RULE = ("DUT (stream.ClockDomainCrossing depth 4/8/16 x buffered x with_common_rst, stream.AsyncFIFO, uart._get_uart_fifo with two "
        "domains, BusSynchronizer width 1..16, AXILiteClockDomainCrossing, UARTBone(cd != sys), stream.Monitor(clock_domain != sys)) "
        "x generated interleaving of the rising edges of the two clock domains (periodic clocks of ratio 1/8..8 with every offset, "
        "near-equal periods that drift through all phase relations, bursts of one domain, exact alternation, runs of common "
        "instants, random instants, concatenations) x per-bit old/new resolution of the first flop of every synchroniser whose "
        "input changes in the instant in which it samples x producer/consumer (or bus master/slave) handshake schedules; "
        "oracle: sink-side handshake sequence == source-side handshake sequence (causal prefix during the run, equal after the "
        "drain), hold rule on every output, after a common reset both sides empty and later traffic intact; BusSynchronizer output "
        "only ever shows words its input held, in order, and equals the input once that was stable for 2T+8 cycles; "
        "non-trivial = a first flop was forced away from the simulator's default resolution on a multi-bit synchroniser AND "
        ">= 8 tokens (>= 3 words, >= 4 bus operations) crossed AND (streams) both full and empty were reached; distinct = canonical JSON")
ASSUMPTIONS = ["Migen's simulator (site-packages) defines FHDL semantics; MultiReg is lowered flop-for-flop like the stock implementation",
               "metastability is modelled as an independent old/new resolution of each bit of a first flop whose input changes in the "
               "instant of its sampling edge and resolves within one destination cycle (what a two-flop synchroniser assumes)",
               "BusSynchronizer: at most R <= 3 input-domain edges per output-domain cycle and timeout T >= 4R+3 input cycles "
               "(longer than one request/acknowledge round trip: <= 4 output cycles + 3 input cycles, retry after T+1)",
               "common reset: the simulator models AsyncResetSynchronizer as a synchronous reset, so a reset pulse lasts until both "
               "domains saw one edge in reset and then three more each; the producer is idle while a reset is asserted; tokens "
               "in flight at the reset may be dropped",
               "pulse synchronisers (Monitor): consecutive pulses into the same synchroniser are >= 3 destination cycles apart",
               "UARTBone: clk_freq chosen so that the 100 ms command time-out is longer than the run"]

DOMS = ["a", "b"]


def _m(w):
    return (1 << w) - 1


def fair(inst, window=32):
    """both domains rise at least once in every `window` instants (guard for concatenated short pieces)"""
    last = [-1, -1]
    out = []
    for k, c in enumerate(inst):
        for x in (0, 1):
            if not (c & (1 << x)) and k - last[x] >= window:
                c |= 1 << x
        for x in (0, 1):
            if c & (1 << x):
                last[x] = k
        out.append(c)
    return out


def _structural(key):
    """logic in a clock domain that is neither declared nor scheduled is reported as a violation of the crossing's structure"""
    def deco(fn):
        def run(case):
            try:
                return fn(case)
            except cdc.UnclockedLogic as ex:
                return bad("structure", "the design under test has logic clocked by undeclared domain(s) %s: it would never run" % ex,
                           key=key)
        run.__name__ = fn.__name__
        return run
    return deco


def edges_at(inst, n):
    """number of edges of each domain among the first n instants"""
    return [sum(1 for c in inst[:n] if c & 1), sum(1 for c in inst[:n] if c & 2)]


# ======================================================================================= 1. stream crossings

def st_stream_case(tier):
    @st.composite
    def case(draw):
        dut = draw(st.sampled_from(["cdc", "cdc", "cdc", "cdc", "asyncfifo", "uartfifo"]))
        c = {"dut": dut, "depth": draw(st.sampled_from([4, 4, 8, 16])), "buffered": draw(st.booleans()),
             "rst": dut == "cdc" and draw(st.booleans())}
        if dut == "uartfifo":
            lay = {"pl": [["data", 8]], "ql": []}
            c["buffered"] = False
        else:
            lay = draw(streams.st_layout(max_fields=3, max_w=12))
        c["lay"] = lay
        pw = [w for _, w in lay["pl"]]
        qw = [w for _, w in lay["ql"]]
        nmax = 40 if tier == "quick" else 120
        c["toks"] = draw(streams.st_tokens(pw, qw, min_size=10, max_size=nmax))
        c["edges"] = draw(cdc.st_edges(max_r=8))
        c["n"] = draw(st.integers(120, 400 if tier == "quick" else 3000))
        c["meta"] = draw(cdc.st_meta())
        c["ps"] = draw(bench.st_schedule())
        c["cs"] = draw(bench.st_schedule())
        c["g"] = draw(st.one_of(st.none(), st.integers(0, 2 ** 16)))
        c["reset"] = None
        if c["rst"] and draw(st.booleans()):
            c["reset"] = {"dom": draw(st.sampled_from(["a", "b", "ab"])), "q8": draw(st.integers(1, 6)),
                          "split": draw(st.integers(2, len(c["toks"]) - 2)), "guard": draw(st.integers(0, 2)),
                          "pre": draw(st.sampled_from([0, 0, 2, 4, 8, 12]))}
        return c
    return case()


def enum_stream(tier):
    """every phase alignment of small-ratio periodic clocks x three resolution policies, plain and common-reset variant"""
    out = []
    pers = [1, 2, 3, 5] if tier == "quick" else [1, 2, 3, 4, 5, 7]
    toks = streams.numbered_tokens([8, 3], [4], 16, lasts=(3, 9))
    for pa in pers:
        for pb in pers:
            for ob in range(pb if tier != "quick" else min(pb, 2)):
                for meta in ([0, 0], [8, 1], [4, 2]):
                    for v in (0, 1):
                        c = {"dut": "cdc", "depth": 4, "buffered": bool(v), "rst": bool(v), "lay": {"pl": [["a", 8], ["b", 3]], "ql": [["p", 4]]},
                             "toks": toks, "edges": ["ratio", pa, pb, 0, ob], "n": 160, "meta": meta,
                             "ps": ["const", 1] if (pa + pb) % 2 else ["per", [1, 1, 0], ob], "cs": ["per", [1, 0, 1, 1], pa] if v else ["const", 1],
                             "g": 7, "reset": {"dom": "ab"[(pa + ob) % 2], "q8": 3, "split": 8, "guard": ob % 3, "pre": 4 * ((pa + pb) % 2)} if v else None}
                        out.append(c)
    return out


class ResetCoord:
    """Common-reset sequencing shared by one small agent per domain (see ASSUMPTIONS).  States:
    run1 -(a-cycle q reached: no new offers; producer idle)-> assert -(every named domain drives rst=1)->
    flush1 -(both domains saw an edge in reset)-> flush2 -(three more edges each)-> release -> run2.
    An edge at instant k is 'in reset' when the first rst write was committed at an earlier instant."""

    def __init__(self, spec, q, prod_idle, now):
        self.dom = spec["dom"]
        self.guard = spec["guard"]
        self.q = q
        self.early = q - spec.get("pre", 0) if spec.get("pre", 0) else None   # a-cycle from which the consumer stalls
        self.stall = False
        self.prod_idle = prod_idle
        self.now = now
        self.state = "run1"
        self.closing = False
        self.i_assert = None          # instant at which the first rst write happened
        self.i_release = None         # instant of the last rst release
        self.mark = None
        self.cnt = {"a": 0, "b": 0}
        self.written = {"a": 0, "b": 0}
        self.a_after = 0              # a-cycles since the release

    def gate1(self):
        return not self.closing

    def cons_gate(self):
        """consumer: normal in run1/run2; optionally stalled for a few cycles before the producer stops (so that the
        FIFO holds tokens at the reset); never ready while the reset is applied (a consumer in a domain under reset
        would not be) - except to let the producer's pending offer complete"""
        if self.state == "run2":
            return True
        if self.state != "run1":
            return False
        if self.closing:
            return not self.prod_idle()
        return not self.stall

    def gate2(self):
        return self.state == "run2" and self.a_after > self.guard

    def step(self, dom, t):
        """called once per edge of `dom`; returns the rst value the domain must drive from now on or None"""
        now = self.now()
        if self.state == "run1":
            if dom == "a" and self.early is not None and t >= self.early:
                self.stall = True
            if dom == "a" and t >= self.q:
                self.closing = True
                if self.prod_idle():
                    self.state = "assert"
            else:
                return None
        if self.state in ("assert", "flush1", "flush2") and self.mark is not None and now > self.mark:
            self.cnt[dom] += 1
        if self.state == "assert":
            if dom in self.dom and not self.written[dom]:
                self.written[dom] = 1
                if self.i_assert is None:
                    self.i_assert = self.mark = now
                if all(self.written[d] for d in self.dom):
                    self.state = "flush1"
                return 1
            return None
        if self.state == "flush1":
            if min(self.cnt.values()) >= 1:
                self.state = "flush2"
                self.mark = now
                self.cnt = {"a": 0, "b": 0}
            return None
        if self.state == "flush2":
            if min(self.cnt.values()) >= 3:
                self.state = "release"
            else:
                return None
        if self.state == "release":
            if self.written[dom]:
                self.written[dom] = 0
                self.i_release = now
                if not any(self.written.values()):
                    self.state = "run2"
                return 0
            return None
        if self.state == "run2" and dom == "a":
            self.a_after += 1
        return None


class RstAgent:
    def __init__(self, coord, dom, rst):
        self.coord, self.dom, self.rst = coord, dom, rst

    def signals(self):
        return []

    def step(self, t, vals):
        v = self.coord.step(self.dom, t)
        if v is None:
            return None
        return [self.rst.eq(v)]


class _Seq:
    """two Producers on the same endpoint, used one after the other (before / after the common reset)"""

    def __init__(self, a, b, coord):
        self.a, self.b, self.coord = a, b, coord
        self.sw = False

    def signals(self):
        return self.a.signals()

    def step(self, t, vals):
        if not self.sw and self.coord.state == "run2" and not self.a.offering:
            self.sw = True
            self.b.w.last = dict(self.a.w.last)
        if self.sw:
            return self.b.step(t, vals)
        return self.a.step(t, vals)


def _stream_dut(case):
    from migen import ClockDomainsRenamer
    from litex.soc.interconnect import stream
    kind = case["dut"]
    if kind == "uartfifo":
        from litex.soc.cores import uart
        return uart._get_uart_fifo(case["depth"], sink_cd="a", source_cd="b")
    desc = streams.mk_desc(case["lay"])
    if kind == "asyncfifo":
        return ClockDomainsRenamer({"write": "a", "read": "b"})(stream.AsyncFIFO(desc, case["depth"], buffered=case["buffered"]))
    return stream.ClockDomainCrossing(desc, cd_from="a", cd_to="b", depth=case["depth"], buffered=case["buffered"],
                                      with_common_rst=case["rst"])


def _two_domain_top():
    from migen import Module, ClockDomain
    top = Module()
    top.clock_domains.cd_a = ClockDomain("a")
    top.clock_domains.cd_b = ClockDomain("b")
    return top


@_structural("c05:stream-structure")
def run_stream(case):
    top = _two_domain_top()
    try:
        dut = _stream_dut(case)
    except (ValueError, AssertionError) as ex:
        return skip("rejected:%s" % type(ex).__name__)
    top.submodules.dut = dut
    toks = [(tuple(t[0]), tuple(t[1]), t[2], t[3]) for t in case["toks"]]
    n = case["n"]
    depth = case["depth"]
    rs = case["reset"]
    drain = 40 * (len(toks) + depth + 8) + (600 if rs else 0)
    inst = fair(cdc.expand_edges(case["edges"], n + drain))
    ua, ub = edges_at(inst, n)
    variant = case["dut"] + ("+buf" if case["buffered"] else "") + ("+rst" if case["rst"] else "")
    cls = ["dut:" + variant, "depth=%d" % depth] + cdc.edge_classes(inst[:n])
    box = {}
    coord = None
    if rs:
        split = rs["split"]
        coord = ResetCoord(rs, max(1, ua * rs["q8"] // 8), lambda: not prod1.offering, lambda: box["tm"].k - 1)
        prod1 = bench.Producer(dut.sink, toks[:split], case["ps"], garbage_seed=case["g"], until=ua, gate=lambda i: coord.gate1())
        prod2 = bench.Producer(dut.sink, toks[split:], case["ps"], garbage_seed=case["g"], until=ua, gate=lambda i: coord.gate2())
        prods = _Seq(prod1, prod2, coord)
        last = prod2
    else:
        prod1 = bench.Producer(dut.sink, toks, case["ps"], garbage_seed=case["g"], until=ua)
        prods = last = prod1
    # while a reset is being applied the consumer is not ready (a consumer in a domain under reset would not be):
    # whatever the FIFO still holds at the release would come out afterwards
    cons = bench.Consumer(dut.source, case["cs"], until=ub, gate=(lambda: coord.cons_gate()) if rs else None)
    pa = bench.Probe([dut.sink.valid, dut.sink.ready])
    pb = bench.Probe([dut.source.valid, dut.source.ready])
    ag_a = [prods, pa]
    ag_b = [cons, pb]
    if coord:
        ag_a.append(RstAgent(coord, "a", top.cd_a.rst))
        ag_b.append(RstAgent(coord, "b", top.cd_b.rst))
    quiet = {"got": -1, "at": 0}

    def stop(tm):
        # drain: everything offered, then no delivery during 12 consecutive b-cycles (the consumer is always ready by then)
        if tm.k < n or not last.done() or (rs and coord.state != "run2"):
            return False
        nb_ = len(tm.rise["b"])
        if len(cons.got) != quiet["got"]:
            quiet["got"], quiet["at"] = len(cons.got), nb_
            return False
        return nb_ >= quiet["at"] + 12

    tm, reg = cdc.run(top, {"a": ag_a, "b": ag_b}, inst, DOMS, case["meta"], stop=stop, box=box)
    cyc = tm.k
    ra, rb = tm.rise["a"], tm.rise["b"]

    def inst_a(c):      # instant at which a-cycle c ended (its handshake completed)
        return ra[c + 1] if c + 1 < len(ra) else tm.k

    def inst_b(c):
        return rb[c + 1] if c + 1 < len(rb) else tm.k

    ctx = "%s depth=%d edges=%r" % (variant, depth, case["edges"])
    sent1 = [(inst_a(c), t) for c, t in prod1.sent]
    sent2 = [(inst_a(c), t) for c, t in prod2.sent] if rs else []
    got = [(inst_b(c), t) for c, t in cons.got]
    holds = [(inst_b(c), c, txt) for c, txt in cons.hold_violations]
    got1, got2 = got, []
    if rs and coord.i_assert is not None:
        ia = coord.i_assert
        ir = coord.i_release if coord.state == "run2" else tm.k + 1
        got1 = [g for g in got if g[0] <= ia]
        got2 = [g for g in got if g[0] > ir]
        holds = [h for h in holds if not ia < h[0] <= ir]
        cls.append("reset:" + rs["dom"])
        inflight = len(sent1) - len(got1)
        cls.append("reset-inflight:" + ("0" if inflight <= 0 else "1-3" if inflight <= 3 else ">3"))
    if holds:
        return bad("source-hold", "%s: b-cycle %d: %s" % (ctx, holds[0][1], holds[0][2]), key="c05:stream-hold", cls=cls, cycles=cyc)
    v = _prefix(ctx, "", sent1, got1, cls, cyc)
    if v:
        return v
    if rs:
        if coord.state != "run2":
            return bad("reset-sequence", "%s: the reset sequence did not finish (state %s, %d instants): the producer's pending offer "
                       "was never taken" % (ctx, coord.state, cyc), key="c05:stream-hang", cls=cls, cycles=cyc)
        v = _prefix(ctx, "after the common reset: ", sent2, got2, cls, cyc)
        if v:
            return v
        s_, g_, want = sent2, got2, len(toks) - rs["split"]
    else:
        s_, g_, want = sent1, got1, len(toks)
    if len(s_) < want:
        return bad("termination", "%s: only %d of %d tokens were accepted by the sink in %d instants (a:%d b:%d edges)"
                   % (ctx, len(s_), want, cyc, len(ra), len(rb)), key="c05:stream-hang", cls=cls, cycles=cyc)
    if len(g_) != len(s_):
        return bad("drain", "%s: %d tokens accepted, %d delivered after the drain phase (%d instants)" % (ctx, len(s_), len(g_), cyc),
                   key="c05:stream-loss", cls=cls, cycles=cyc)
    full = any(v_ and not r_ for v_, r_ in pa.trace)
    first = next((i for i, (v_, r_) in enumerate(pb.trace) if v_ and r_), None)
    empty = first is not None and any(r_ and not v_ for v_, r_ in pb.trace[first + 1:])
    if full:
        cls.append("full")
    if empty:
        cls.append("empty")
    if tm.forced:
        cls.append("forced-resolution")
    # structural expectations last: a functional symptom, if there is one, is the better report
    if len(reg) < 2:
        return bad("structure", "%s: %d synchronisers found, a two-clock FIFO needs both pointers synchronised" % (ctx, len(reg)),
                   key="c05:stream-structure", cls=cls, cycles=cyc)
    if case["rst"] and tm.derived_ticks == 0:
        return bad("structure", "%s: no derived clock domain found (cd.clk.eq(ClockSignal(x))), the FIFO never ran" % ctx,
                   key="c05:stream-structure", cls=cls, cycles=cyc)
    nt = tm.forced_multibit >= 1 and len(got) >= 8 and full and empty
    return ok(nt=nt, cls=cls, cycles=cyc, counts={"handshakes:" + variant: len(got), "forced-first-flops": tm.forced,
                                                  "injection-opportunities": tm.opportunities})


def _prefix(ctx, what, sent, got, cls, cyc):
    for j, (ig, tg) in enumerate(got):
        if j >= len(sent):
            return bad("duplicate-or-spurious", "%s: %soutput token #%d %r was never accepted at the sink (%d accepted)"
                       % (ctx, what, j, tg, len(sent)), key="c05:stream-spurious", cls=cls, cycles=cyc)
        is_, ts = sent[j]
        if tg != ts:
            return bad("data-or-order", "%s: %soutput token #%d is %r, the sink accepted %r" % (ctx, what, j, tg, ts),
                       key="c05:stream-data", cls=cls, cycles=cyc)
        if ig <= is_:
            return bad("causality", "%s: %stoken #%d left at instant %d but entered at instant %d" % (ctx, what, j, ig, is_),
                       key="c05:stream-causality", cls=cls, cycles=cyc)
    return None


# ======================================================================================= 2. BusSynchronizer

def st_bus_case(tier):
    @st.composite
    def case(draw):
        w = draw(st.sampled_from([1, 2, 3, 4, 5, 8, 8, 11, 16, 16]))
        nmax = 16 if tier == "quick" else 48
        vals = st.one_of(st.integers(0, _m(w)), st.sampled_from([0, _m(w), 0x5555 & _m(w), 0xaaaa & _m(w)]))
        n = draw(st.integers(4, nmax))
        chg = []
        prev = 0
        for _ in range(n):
            v = draw(vals)
            if draw(st.integers(0, 2)) == 0:
                v = prev ^ _m(w)          # every bit flips: any blend is a word that never existed
            chg.append([draw(st.sampled_from([1, 1, 2, 3, 5, 8, 13, 21, 34, 55])), v])
            prev = v
        edges = draw(cdc.st_edges(max_r=3))
        if edges[0] == "ratio" and edges[1] > edges[2] and draw(st.booleans()):
            edges = ["ratio", edges[2], edges[1], edges[3], edges[4]]      # lean towards a faster input domain: that is where T matters
        return {"dut": "bussync", "w": w, "edges": edges, "R": draw(st.sampled_from([1, 2, 3, 3])),
                "extra": draw(st.sampled_from([0, 0, 1, 2, 4, 8])), "meta": draw(cdc.st_meta()), "chg": chg}
    return case()


def _plan_bus(case):
    """instants (ratio clamped to R), time-out T, a-cycle of every change"""
    R = case["R"]
    tmax = 4 * R + 3 + case["extra"]
    times = []
    t = 0
    for gap, _ in case["chg"]:
        t += max(1, gap)
        times.append(t)
    need_a = times[-1] + 2 * tmax + 4
    n = 2 * (need_a + 16)
    while True:
        inst = cdc.clamp_ratio(cdc.expand_edges(case["edges"], n), R)
        na = 0
        end = None
        nb_after = 0
        for k, c in enumerate(inst):
            if na >= need_a:
                if c & 2:
                    nb_after += 1
                    if nb_after >= 12:
                        end = k + 1
                        break
            elif c & 1:
                na += 1
        if end is not None:
            inst = inst[:end]
            break
        n *= 2
    ra_ = cdc.max_ratio(inst, 0)
    return inst, 4 * ra_ + 3 + case["extra"], times, ra_


@_structural("c05:bussync-structure")
def run_bus(case):
    from migen import Module, Signal
    from migen.genlib.cdc import MultiReg
    from litex.gen.genlib.cdc import BusSynchronizer
    w = case["w"]
    inst, T, times, ra_ = _plan_bus(case)
    top = _two_domain_top()
    if case["dut"] == "bussync":
        dut = BusSynchronizer(w, "a", "b", timeout=T)
    else:
        # harness self-test only (not generated by the strategy): the mistake the module exists to prevent
        dut = Module()
        dut.i = Signal(w)
        dut.o = Signal(w)
        dut.specials += MultiReg(dut.i, dut.o, "b")
    top.submodules.dut = dut
    vals = [v for _, v in case["chg"]]

    def i_at(t):
        k = -1
        for j, c in enumerate(times):
            if c <= t:
                k = j
            else:
                break
        return 0 if k < 0 else vals[k]

    drv = bench.Driver(lambda t: {dut.i: i_at(t)})
    po = bench.Probe([dut.o])
    tmo = getattr(getattr(dut, "_timeout", None), "done", None)
    pt = bench.Probe([tmo] if tmo is not None else [])
    tm, reg = cdc.run(top, {"a": [drv, pt], "b": [po]}, inst, DOMS, case["meta"])
    cyc = tm.k
    ra, rb = tm.rise["a"], tm.rise["b"]
    cls = ["w=%d" % w, "R=%d" % ra_, "T=%d" % T] + cdc.edge_classes(inst)
    ctx = "BusSynchronizer(width=%d, timeout=%d) <=%d input edges per output cycle, edges=%r" % (w, T, ra_, case["edges"])
    fired = sum(1 for (d,) in pt.trace if d) if tmo is not None else 0
    if fired:
        cls.append("retry-timeout-fired")
    # words present at the input: (value, instant from which it was there)
    pres = [(0, -1)] + [(v, ra[c]) for c, v in zip(times, vals) if c < len(ra)]
    allv = {v for v, _ in pres}
    k = 0
    updates = 0
    for u, (x,) in enumerate(po.trace):
        if x == pres[k][0]:
            continue
        j = next((j for j in range(k + 1, len(pres)) if pres[j][0] == x and pres[j][1] < rb[u]), None)
        if j is None:
            if x not in allv:
                return bad("blended-word", "%s: before output edge %d (instant %d) o = %#x, a word the input never held (input words so far: %s)"
                           % (ctx, u, rb[u], x, ", ".join("%#x" % v for v, i_ in pres if i_ < rb[u])[:300]),
                           key="c05:bussync-blend", cls=cls, cycles=cyc)
            if any(v == x for v, _ in pres[:k]):
                return bad("order", "%s: before output edge %d o went back to %#x after showing the newer word %#x"
                           % (ctx, u, x, pres[k][0]), key="c05:bussync-order", cls=cls, cycles=cyc)
            return bad("causality", "%s: before output edge %d (instant %d) o = %#x, which the input only takes later"
                       % (ctx, u, rb[u], x), key="c05:bussync-order", cls=cls, cycles=cyc)
        k = j
        updates += 1
    # stability: 2T input cycles + 8 output cycles after the last change
    c_last = times[-1]
    if c_last + 2 * T >= len(ra):
        raise cdc.HarnessError("bus plan too short")
    i_st = ra[c_last + 2 * T]
    after = [u for u in range(len(rb)) if rb[u] > i_st]
    if len(after) < 10:
        raise cdc.HarnessError("bus plan too short (output side)")
    for u in after[8:]:
        if po.trace[u][0] != vals[-1]:
            return bad("stable-input", "%s: input constant %#x since a-cycle %d; after 2T=%d input cycles and %d output cycles o = %#x"
                       % (ctx, vals[-1], c_last, 2 * T, u - after[0], po.trace[u][0]), key="c05:bussync-stale", cls=cls, cycles=cyc)
    if not any(m.odomain == "b" for m in reg):
        return bad("structure", "%s: no synchroniser samples in the output domain (synchronisers sample in: %s): o is not an "
                   "output-domain signal" % (ctx, sorted({m.odomain for m in reg}) or "none"), key="c05:bussync-structure", cls=cls, cycles=cyc)
    if tm.blended:
        cls.append("blend-forced")
    cls.append("updates:" + ("0-2" if updates < 3 else "3-7" if updates < 8 else ">=8"))
    return ok(nt=(tm.blended >= 1 and updates >= 3), cls=cls, cycles=cyc,
              counts={"o-updates": updates, "blends-forced": tm.blended, "retry-timeouts": fired})


# ======================================================================================= 3. AXI-Lite crossing

def st_axil_case(tier):
    from vlib import axil

    @st.composite
    def case(draw):
        nmax = 10 if tier == "quick" else 30
        dw = draw(st.sampled_from([32, 32, 64]))
        nb = dw // 8
        ops = []
        for _ in range(draw(st.integers(4, nmax))):
            we = draw(st.integers(0, 1))
            ops.append({"we": we, "addr": draw(st.integers(0, 64 // nb - 1)) * nb, "data": draw(st.integers(0, _m(dw))),
                        "strb": draw(st.sampled_from([_m(nb), _m(nb), 1, _m(nb) & ~1, 0b0110 & _m(nb)])) if we else _m(nb)})
        return {"dw": dw, "ops": ops, "K": draw(st.sampled_from([1, 2, 4])), "Q": draw(st.sampled_from([1, 2, 4])),
                "w_after_aw": draw(st.booleans()), "wait_valid": draw(st.booleans()),
                "gm": draw(st.one_of(st.none(), st.integers(0, 999))), "gs": draw(st.one_of(st.none(), st.integers(0, 999))),
                "seed": draw(st.integers(0, 2 ** 16)), "ms": axil.st_chan_scheds(draw), "ss": axil.st_chan_scheds(draw),
                "edges": draw(cdc.st_edges(max_r=8)), "n": draw(st.integers(150, 500 if tier == "quick" else 2500)),
                "meta": draw(cdc.st_meta()), "swap": draw(st.booleans())}
    return case()


@_structural("c05:axil-structure")
def run_axil(case):
    import random
    from litex.soc.interconnect import axi
    from vlib import axil, wb
    dw = case["dw"]
    nb = dw // 8
    W = 64
    ops = case["ops"]
    top = _two_domain_top()
    m_if = axi.AXILiteInterface(data_width=dw, address_width=32)
    s_if = axi.AXILiteInterface(data_width=dw, address_width=32)
    # swap: the master lives in the second scheduled domain (mirror-image schedules without a second strategy)
    dm, ds = ("b", "a") if case["swap"] else ("a", "b")
    top.submodules.dut = axi.AXILiteClockDomainCrossing(m_if, s_if, cd_from=dm, cd_to=ds)
    n = case["n"]
    total = n + 400 + 400 * len(ops)
    inst = fair(cdc.expand_edges(case["edges"], total))
    ua, ub = edges_at(inst, n)
    um, us = (ub, ua) if case["swap"] else (ua, ub)
    r = random.Random(case["seed"])
    init = [r.randrange(256) for _ in range(W)]
    model = wb.ByteMem(W, init)
    master = axil.AXILMaster(m_if, ops, case["ms"], K=case["K"], w_after_aw=case["w_after_aw"], garbage_seed=case["gm"], until=um)
    slave = axil.AXILMemSlave(s_if, wb.ByteMem(W, init), case["ss"], Q=case["Q"], wait_valid=case["wait_valid"],
                              garbage_seed=case["gs"], until=us)
    fin = {"at": None}

    def stop(tm):
        if not master.finished():
            return False
        if fin["at"] is None:
            fin["at"] = tm.k
        return tm.k >= fin["at"] + 40          # a little longer: nothing more may arrive at the slave

    tm, reg = cdc.run(top, {dm: [master], ds: [slave]}, inst, DOMS, case["meta"], stop=stop)
    cyc = tm.k
    cls = ["dw=%d" % dw, "K=%d" % case["K"], "master-in:" + dm] + cdc.edge_classes(inst[:cyc])
    ctx = "AXILiteClockDomainCrossing dw=%d master in %s, slave in %s, edges=%r" % (dw, dm, ds, case["edges"])
    if slave.hold_violations():
        c_, txt = slave.hold_violations()[0]
        return bad("slave-side-hold", "%s: %s-cycle %d: %s" % (ctx, ds, c_, txt), key="c05:axil-hold", cls=cls, cycles=cyc)
    if master.hold_violations():
        c_, txt = master.hold_violations()[0]
        return bad("master-side-hold", "%s: %s-cycle %d: %s" % (ctx, dm, c_, txt), key="c05:axil-hold", cls=cls, cycles=cyc)
    if not master.finished():
        pend = next(i for i, d in enumerate(master.done) if not d)
        return bad("termination", "%s: operation %d %r never completed (%d instants; slave saw %d AW, %d W, %d AR)"
                   % (ctx, pend, ops[pend], cyc, len(slave.aw.got), len(slave.w.got), len(slave.ar.got)),
                   key="c05:axil-hang", cls=cls, cycles=cyc)
    nw = sum(1 for o in ops if o["we"])
    if len(slave.aw.got) != nw or len(slave.w.got) != nw or len(slave.ar.got) != len(ops) - nw:
        return bad("request-count", "%s: master issued %d writes and %d reads, the slave received %d AW, %d W, %d AR"
                   % (ctx, nw, len(ops) - nw, len(slave.aw.got), len(slave.w.got), len(slave.ar.got)), key="c05:axil-count", cls=cls, cycles=cyc)
    # requests arrive unchanged and in order per channel
    wi = [o for o in ops if o["we"]]
    ri = [o for o in ops if not o["we"]]
    for j, ((_, tok), o) in enumerate(zip(slave.aw.got, wi)):
        if tok[0][0] != o["addr"]:
            return bad("aw-data", "%s: AW #%d arrived with address %#x, sent %#x" % (ctx, j, tok[0][0], o["addr"]), key="c05:axil-data", cls=cls, cycles=cyc)
    for j, ((_, tok), o) in enumerate(zip(slave.w.got, wi)):
        if (tok[0][0], tok[0][1]) != (o["data"], o["strb"]):
            return bad("w-data", "%s: W #%d arrived as data %#x strb %#x, sent %#x / %#x" % (ctx, j, tok[0][0], tok[0][1], o["data"], o["strb"]),
                       key="c05:axil-data", cls=cls, cycles=cyc)
    for j, ((_, tok), o) in enumerate(zip(slave.ar.got, ri)):
        if tok[0][0] != o["addr"]:
            return bad("ar-data", "%s: AR #%d arrived with address %#x, sent %#x" % (ctx, j, tok[0][0], o["addr"]), key="c05:axil-data", cls=cls, cycles=cyc)
    raw = False
    written = set()
    for i, o in enumerate(ops):
        c_, data, resp, tok = master.result[i]
        if resp != 0:
            return bad("spurious-error", "%s: access %d %r answered with resp %d" % (ctx, i, o, resp), key="c05:axil-data", cls=cls, cycles=cyc)
        if o["we"]:
            model.write(o["addr"], nb, o["data"], o["strb"])
            written.add(o["addr"])
        else:
            exp = model.read(o["addr"], nb)
            if data != exp:
                return bad("data", "%s: read #%d of %#x returned %#x, flat memory holds %#x" % (ctx, i, o["addr"], data, exp),
                           key="c05:axil-data", cls=cls, cycles=cyc)
            raw = raw or o["addr"] in written
    if slave.mem.b != model.b:
        return bad("slave-memory", "%s: slave memory differs from the model after all writes" % ctx, key="c05:axil-data", cls=cls, cycles=cyc)
    if tm.forced:
        cls.append("forced-resolution")
    if raw:
        cls.append("read-after-write")
    if len(reg) < 10:
        return bad("structure", "%s: %d synchronisers found, five two-clock FIFOs need ten" % (ctx, len(reg)), key="c05:axil-structure",
                   cls=cls, cycles=cyc)
    return ok(nt=(tm.forced_multibit >= 1 and len(ops) >= 4 and raw), cls=cls, cycles=cyc,
              counts={"operations": len(ops), "forced-first-flops": tm.forced})


# ======================================================================================= 4a. stream.Monitor pulse paths

MON_COUNTERS = ["tokens", "overflows", "underflows", "packets"]


def st_mon_case(tier):
    @st.composite
    def case(draw):
        nmax = 12 if tier == "quick" else 40
        ev = [[draw(st.sampled_from([1, 2, 3, 5, 8, 13, 21])), draw(st.sampled_from(["l", "l", "r", "rl"]))]
              for _ in range(draw(st.integers(3, nmax)))]
        return {"cw": draw(st.sampled_from([3, 8, 16])), "edges": draw(cdc.st_edges(max_r=8)), "meta": draw(cdc.st_meta()), "ev": ev,
                "vs": draw(bench.st_schedule()), "rs": draw(bench.st_schedule()), "ls": draw(bench.st_schedule())}
    return case()


def _plan_mon(case):
    """instants for domains (sys, b); sys-cycle of every pulse, postponed until >= 3 b-edges lie strictly between two
    toggles of the same synchroniser"""
    ev = case["ev"]
    n = 64 + 16 * sum(g for g, _ in ev)
    while True:
        inst = fair(cdc.expand_edges(case["edges"], n))
        rs_ = [k for k, c in enumerate(inst) if c & 1]
        rb_ = [k for k, c in enumerate(inst) if c & 2]
        pulses = []                  # (sys-cycle, kinds)
        last_t = {"r": None, "l": None}
        t = 0
        okp = True
        for gap, kinds in ev:
            t += max(1, gap)
            while True:
                if t + 1 >= len(rs_):
                    okp = False
                    break
                good = True
                for kd in kinds:
                    if last_t[kd] is not None:
                        lo, hi = rs_[last_t[kd] + 1], rs_[t + 1]
                        if sum(1 for k in rb_ if lo < k < hi) < 3:
                            good = False
                if good:
                    break
                t += 1
            if not okp:
                break
            pulses.append((t, kinds))
            for kd in kinds:
                last_t[kd] = t
        if okp:
            # settle: 8 b-edges, then 8 sys-edges after the last toggle
            end_from = rs_[t + 1]
            b_after = [k for k in rb_ if k > end_from]
            if len(b_after) >= 8:
                s_after = [k for k in rs_ if k > b_after[7]]
                if len(s_after) >= 8:
                    return inst[:s_after[7] + 1], pulses
        n *= 2


@_structural("c05:monitor-structure")
def run_mon(case):
    from litex.soc.interconnect import stream
    from migen import Module, ClockDomain
    cw = case["cw"]
    inst, pulses = _plan_mon(case)
    top = Module()
    top.clock_domains.cd_sys = ClockDomain("sys")
    top.clock_domains.cd_b = ClockDomain("b")
    ep = stream.Endpoint([("data", 8)])
    mon = stream.Monitor(ep, count_width=cw, clock_domain="b", with_tokens=True, with_overflows=True, with_underflows=True,
                         with_packets=True)
    top.submodules.mon = mon
    at = {}
    for t, kinds in pulses:
        at[t] = kinds
    drv = bench.Driver(lambda t: {mon.reset: int("r" in at.get(t, "")), mon.latch: int("l" in at.get(t, ""))})
    vs, rs, ls = bench.Schedule(case["vs"]), bench.Schedule(case["rs"]), bench.Schedule(case["ls"])
    tr = bench.Driver(lambda t: {ep.valid: vs.bit(t), ep.ready: rs.bit(t), ep.last: ls.bit(t)})
    box = {}
    # the pulse synchronisers into domain b: their 1-bit synchronised toggles, in creation order (reset, latch)
    syncs = cdc.LazyProbe(lambda: [m.o for m in box["reg"] if m.width == 1 and m.odomain == "b"])
    status = bench.Probe([getattr(mon, "_" + c).status for c in MON_COUNTERS])
    # the latched counters on their way back to sys (plain multi-bit synchronisers), in creation order = MON_COUNTERS
    latched = cdc.LazyProbe(lambda: [m.i for m in box["reg"] if m.width == cw and m.odomain == "sys"])
    registry = []
    box["reg"] = registry
    tm, reg = cdc.run(top, {"sys": [drv, status], "b": [tr, syncs, latched]}, inst, ["sys", "b"], case["meta"], registry=registry)
    cyc = tm.k
    cls = ["cw=%d" % cw] + cdc.edge_classes(inst)
    ctx = "stream.Monitor(count_width=%d, clock_domain='b'), edges=%r" % (cw, case["edges"])
    n_in = {"r": sum(1 for _, k in pulses if "r" in k), "l": sum(1 for _, k in pulses if "l" in k)}
    if len(syncs.sigs) != 2:
        return bad("structure", "%s: %d one-bit synchronisers into the monitored domain, expected the reset and the latch pulse path"
                   % (ctx, len(syncs.sigs)), key="c05:monitor-structure", cls=cls, cycles=cyc)
    # model of the counters in domain b, driven by the observed arrival of the pulses
    mx = _m(cw)
    cnt = {c: 0 for c in MON_COUNTERS}
    lat = {c: 0 for c in MON_COUNTERS}
    n_out = {"r": 0, "l": 0}
    near = 0
    trc = syncs.trace
    for u in range(1, len(trc)):
        pr = trc[u][0] != trc[u - 1][0]
        pl = trc[u][1] != trc[u - 1][1]
        n_out["r"] += pr
        n_out["l"] += pl
        v_, r_, l_ = vs.bit(u - 1), rs.bit(u - 1), ls.bit(u - 1)
        en = {"tokens": v_ and r_, "overflows": v_ and not r_, "underflows": r_ and not v_, "packets": v_ and r_ and l_}
        for c in MON_COUNTERS:
            old = cnt[c]
            if pr:
                cnt[c] = 0
            elif en[c] and old != mx:
                cnt[c] = old + 1
            if pr:
                lat[c] = 0
            elif pl:
                lat[c] = old
        if pl and en["tokens"]:
            near += 1
    for kd, name in (("r", "reset"), ("l", "latch")):
        if n_out[kd] != n_in[kd]:
            return bad("pulse-count", "%s: %d %s pulses entered in sys (>= 3 destination cycles apart), %d came out in the monitored domain"
                       % (ctx, n_in[kd], name, n_out[kd]), key="c05:monitor-pulses", cls=cls, cycles=cyc)
    if case.get("strict_status") and len(latched.sigs) == len(MON_COUNTERS):
        # NOT part of the generated search (the strategy never sets the flag): every word the status registers show, not
        # only the settled one.  The latched counters return to sys through a plain multi-bit MultiReg - the use the
        # BusSynchronizer docstring warns against - so a read in the cycle after a latch/reset lands can see a blend.
        for n_, c in enumerate(MON_COUNTERS):
            real = {0} | {row[n_] for row in latched.trace}
            for t_, row in enumerate(status.trace):
                if row[n_] not in real:
                    return bad("status-transient", "%s: sys-cycle %d: %s status reads %d, the latched counter only ever held %s"
                               % (ctx, t_, c, row[n_], sorted(real)[:24]), key="c05:monitor-status-blend", cls=cls, cycles=cyc)
    final = status.trace[-1]
    for c, got in zip(MON_COUNTERS, final):
        if got != lat[c]:
            return bad("latched-count", "%s: %s status reads %d after everything settled, the counter latched %d (pulses: %r)"
                       % (ctx, c, got, lat[c], pulses), key="c05:monitor-count", cls=cls, cycles=cyc)
    if tm.forced:
        cls.append("forced-resolution")
    if any(lat[c] == mx for c in MON_COUNTERS):
        cls.append("saturated")
    return ok(nt=(tm.forced >= 1 and n_in["l"] >= 2 and n_in["r"] >= 1 and near >= 1), cls=cls, cycles=cyc,
              counts={"pulses": n_in["r"] + n_in["l"], "latch-while-counting": near})


# ======================================================================================= 4b. UARTBone(cd != sys)

UB_WORDS = 8


def st_ub_case(tier):
    @st.composite
    def case(draw):
        ops = []
        for _ in range(draw(st.integers(2, 5 if tier == "quick" else 12))):
            ln = draw(st.integers(1, 4))
            we = draw(st.booleans())
            ops.append({"we": we, "incr": draw(st.booleans()), "adr": draw(st.integers(0, UB_WORDS - 1)), "len": ln,
                        "data": [draw(st.integers(0, _m(32))) for _ in range(ln)] if we else []})
        return {"ops": ops, "edges": draw(cdc.st_edges(max_r=8)), "n": draw(st.integers(100, 400 if tier == "quick" else 2000)),
                "meta": draw(cdc.st_meta()), "ps": draw(bench.st_schedule()), "cs": draw(bench.st_schedule()),
                "go": draw(st.one_of(st.just(["const", 1]), bench.st_schedule())), "seed": draw(st.integers(0, 2 ** 16)),
                "g": draw(st.one_of(st.none(), st.integers(0, 999)))}
    return case()


@_structural("c05:uartbone-structure")
def run_ub(case):
    import random
    from migen import Module, ClockDomain
    from litex.soc.interconnect import stream
    from litex.soc.cores import uart
    from vlib import wb

    class FakePHY(Module):
        """byte pipe with one register stage per direction: the stages follow whatever domain UARTBone puts the PHY in"""

        def __init__(self):
            lay = [("data", 8)]
            self.rx_in = stream.Endpoint(lay)       # host -> device (driven by the bench in domain b)
            self.tx_out = stream.Endpoint(lay)      # device -> host
            self.submodules.rxb = stream.Buffer(lay)
            self.submodules.txb = stream.Buffer(lay)
            self.comb += [self.rx_in.connect(self.rxb.sink), self.txb.source.connect(self.tx_out)]
            self.source = self.rxb.source
            self.sink = self.txb.sink

    top = Module()
    top.clock_domains.cd_sys = ClockDomain("sys")
    top.clock_domains.cd_b = ClockDomain("b")
    phy = FakePHY()
    dut = uart.UARTBone(phy, clk_freq=int(10e6), cd="b")      # command time-out 1e6 cycles: never within a run
    top.submodules.dut = dut
    r = random.Random(case["seed"])
    mem = [r.getrandbits(32) for _ in range(UB_WORDS)]
    sm = wb.WBMemSlave(dut.wishbone, UB_WORDS, list(mem))
    top.submodules.sm = sm
    ops = list(case["ops"]) + [{"we": False, "incr": True, "adr": 0, "len": UB_WORDS, "data": []}]    # final read-back of everything
    tx, exp = [], []
    for o in ops:
        cmd = {(True, True): 1, (False, True): 2, (True, False): 3, (False, False): 4}[(o["we"], o["incr"])]
        tx += [cmd, o["len"]] + [(o["adr"] >> s_) & 0xff for s_ in (24, 16, 8, 0)]
        for k in range(o["len"]):
            a = (o["adr"] + (k if o["incr"] else 0)) % UB_WORDS
            if o["we"]:
                mem[a] = o["data"][k]
                tx += [(o["data"][k] >> s_) & 0xff for s_ in (24, 16, 8, 0)]
            else:
                exp += [(mem[a] >> s_) & 0xff for s_ in (24, 16, 8, 0)]
    n = case["n"]
    total = n + 600 + 80 * (len(tx) + len(exp))
    inst = fair(cdc.expand_edges(case["edges"], total))
    us, ub = edges_at(inst, n)
    prod = bench.Producer(phy.rx_in, [((b_,), (), 0, 0) for b_ in tx], case["ps"], garbage_seed=case["g"], until=ub)
    cons = bench.Consumer(phy.tx_out, case["cs"], until=ub)
    go = bench.Schedule(case["go"])
    god = bench.Driver(lambda t: {sm.go: 1 if t >= us else go.bit(t)})
    wbmon = wb.WBMonitor(dut.wishbone, "UARTBone->wishbone")
    fin = {"at": None}

    def stop(tm):
        if not (prod.done() and len(cons.got) >= len(exp)):
            return False
        if fin["at"] is None:
            fin["at"] = tm.k
        return tm.k >= fin["at"] + 60

    tm, reg = cdc.run(top, {"sys": [god, wbmon], "b": [prod, cons]}, inst, ["sys", "b"], case["meta"], stop=stop)
    cyc = tm.k
    cls = cdc.edge_classes(inst[:cyc])
    ctx = "UARTBone(cd='b'), %d command bytes, edges=%r" % (len(tx), case["edges"])
    got = [t[0][0] for _, t in cons.got]
    if cons.hold_violations:
        return bad("tx-hold", "%s: b-cycle %d: %s" % (ctx, cons.hold_violations[0][0], cons.hold_violations[0][1]), key="c05:uartbone-hold",
                   cls=cls, cycles=cyc)
    if wbmon.violations:
        return bad("wishbone", "%s: %s" % (ctx, wbmon.violations[0][1]), key="c05:uartbone-hold", cls=cls, cycles=cyc)
    for j, (g_, e_) in enumerate(zip(got, exp)):
        if g_ != e_:
            return bad("data", "%s: response byte #%d is %#x, expected %#x (memory model after the preceding writes)" % (ctx, j, g_, e_),
                       key="c05:uartbone-data", cls=cls, cycles=cyc)
    if len(got) > len(exp):
        return bad("spurious", "%s: %d response bytes, %d expected" % (ctx, len(got), len(exp)), key="c05:uartbone-data", cls=cls, cycles=cyc)
    if len(got) < len(exp) or not prod.done():
        return bad("termination", "%s: %d of %d command bytes taken, %d of %d response bytes delivered in %d instants"
                   % (ctx, len(prod.sent), len(tx), len(got), len(exp), cyc), key="c05:uartbone-hang", cls=cls, cycles=cyc)
    if tm.forced:
        cls.append("forced-resolution")
    if len(reg) < 4:
        return bad("structure", "%s: %d synchronisers found, two two-clock FIFOs need four" % (ctx, len(reg)), key="c05:uartbone-structure",
                   cls=cls, cycles=cyc)
    return ok(nt=(tm.forced_multibit >= 1 and any(o["we"] for o in case["ops"])), cls=cls, cycles=cyc,
              counts={"bytes": len(tx) + len(exp), "forced-first-flops": tm.forced})


# ======================================================================================= 7. UART core with its PHY in another domain

def st_uc_case(tier):
    @st.composite
    def case(draw):
        nrx = draw(st.integers(4, 24 if tier == "quick" else 60))
        ntx = draw(st.integers(4, 24 if tier == "quick" else 60))
        return {"rx": [draw(st.integers(0, 255)) for _ in range(nrx)], "tx": [draw(st.integers(0, 255)) for _ in range(ntx)],
                "txgap": [draw(st.sampled_from([0, 0, 1, 2, 5, 9])) for _ in range(ntx)],
                "popgap": [draw(st.sampled_from([0, 1, 1, 2, 4, 8, 20])) for _ in range(nrx + 6)],
                "depth": draw(st.sampled_from([4, 8, 16])),
                "edges": draw(cdc.st_edges(max_r=8)), "n": draw(st.integers(150, 500 if tier == "quick" else 2500)),
                "meta": draw(cdc.st_meta()), "ps": draw(bench.st_schedule()), "cs": draw(bench.st_schedule()),
                "g": draw(st.one_of(st.none(), st.integers(0, 999)))}
    return case()


@_structural("c05:uart-structure")
def run_uc(case):
    """UART(phy_cd='b'): the core's two FIFOs cross between the CSR side (sys) and the PHY side (b).  Software (a CSR bus
    program in sys) writes bytes to RXTX and pops the receive FIFO through the rx event's pending bit; the PHY side is a
    stream producer / consumer in b.  What the PHY hands in must be what software pops, what software writes while the FIFO
    is not full must be what the PHY gets - once, in order."""
    from migen import Module, ClockDomain
    from litex.soc.cores import uart
    from vlib import periph
    core = uart.UART(phy=None, tx_fifo_depth=case["depth"], rx_fifo_depth=case["depth"], phy_cd="b")
    top = periph.csr_top(core)
    top.clock_domains.cd_sys = ClockDomain("sys")
    top.clock_domains.cd_b = ClockDomain("b")
    writes = {}
    t = 3
    for b_, g_ in zip(case["tx"], case["txgap"]):
        t += g_
        writes[t] = ("rxtx", b_)
        t += 1
    tw_end = t
    # pops: clear the rx event (bit 1 of ev_pending); interleaved with the writes (one bus access per step)
    t = 4
    pops = 0
    npop = len(case["rx"]) + 6
    while pops < npop:
        t += case["popgap"][pops % len(case["popgap"])] + 1
        while t in writes:
            t += 1
        writes[t] = ("ev_pending", 2)
        pops += 1
    n = case["n"]
    total = n + 800 + 60 * (len(case["rx"]) + len(case["tx"]))
    inst = fair(cdc.expand_edges(case["edges"], total))
    us, ub = edges_at(inst, n)
    # after the generated phase software keeps popping (every fifth sys cycle, to the end of the run): the run ends once the PHY
    # side has handed everything in and both FIFOs have been empty for forty sys cycles
    sys_total = edges_at(inst, len(inst))[0]
    t = max(max(writes) + 2, us)
    while t < sys_total - 4:
        writes[t] = ("ev_pending", 2)
        t += 5
    prog = periph.BusProgram(top, writes, {})
    prod = bench.Producer(core.sink, [((b_,), (), 0, 0) for b_ in case["rx"]], case["ps"], garbage_seed=case["g"], until=ub)
    cons = bench.Consumer(core.source, case["cs"], until=ub)
    probe = bench.Probe([core._rxtx.re, core._rxtx.r, core._txfull.status, core.rx_fifo.source.valid, core.rx_fifo.source.ready,
                         core.rx_fifo.source.data, core._txempty.status])

    def stop(tm):
        tr_ = probe.trace
        if not (tm.k > n + 100 and prod.done() and len(tr_) > 60 and all(not r_[3] and r_[6] for r_ in tr_[-40:])):
            return False
        # ... and every byte software wrote while the FIFO was not full has come out at the PHY (a byte may still be inside the
        # two-clock FIFO while both ends look empty)
        return len(cons.got) >= sum(1 for r_ in tr_ if r_[0] and not r_[2]) or tm.k > len(inst) - 8

    tm, reg = cdc.run(top, {"sys": [prog, probe], "b": [prod, cons]}, inst, ["sys", "b"], case["meta"], stop=stop)
    cyc = tm.k
    cls = cdc.edge_classes(inst[:cyc]) + ["depth=%d" % case["depth"]]
    ctx = "UART(phy_cd='b', fifo depth %d), edges=%r" % (case["depth"], case["edges"])
    accepted, popped = [], []
    for r in probe.trace:
        if r[0] and not r[2]:
            accepted.append(r[1])
        if r[3] and r[4]:
            popped.append(r[5])
    sent = [t_[0][0] for _, t_ in cons.got]
    pushed = [t_[0][0] for _, t_ in prod.sent]
    if cons.hold_violations:
        return bad("tx-hold", "%s: b-cycle %d: %s" % (ctx, cons.hold_violations[0][0], cons.hold_violations[0][1]), key="c05:uart-hold",
                   cls=cls, cycles=cyc)
    for j, (g_, e_) in enumerate(zip(popped, pushed)):
        if g_ != e_:
            return bad("rx-data", "%s: byte #%d popped by software is %#x, the PHY handed in %#x (handed in %r, popped %r)" %
                       (ctx, j, g_, e_, pushed[:j + 3], popped[:j + 3]), key="c05:uart-rx", cls=cls, cycles=cyc)
    if len(popped) > len(pushed):
        return bad("rx-spurious", "%s: software popped %d bytes, the PHY handed in %d" % (ctx, len(popped), len(pushed)), key="c05:uart-rx",
                   cls=cls, cycles=cyc)
    for j, (g_, e_) in enumerate(zip(sent, accepted)):
        if g_ != e_:
            return bad("tx-data", "%s: byte #%d handed to the PHY is %#x, software wrote %#x (written %r, handed over %r)" %
                       (ctx, j, g_, e_, accepted[:j + 3], sent[:j + 3]), key="c05:uart-tx", cls=cls, cycles=cyc)
    if len(sent) > len(accepted):
        return bad("tx-spurious", "%s: the PHY got %d bytes, software wrote %d while the FIFO was not full" % (ctx, len(sent), len(accepted)),
                   key="c05:uart-tx", cls=cls, cycles=cyc)
    if (len(popped) < len(pushed) or len(sent) < len(accepted) or not prod.done()) and tm.k < len(inst) - 8:
        # the run ended before everything had drained (the bench's end-of-run detection, not the design): the prefixes compared
        # above are all this case can say - counted, not judged
        return ok(nt=False, cls=cls + ["ended-before-drained"], cycles=cyc)
    if len(popped) < len(pushed) or len(sent) < len(accepted) or not prod.done():
        return bad("termination", "%s: %d of %d received bytes handed in, %d popped; %d written, %d reached the PHY (%d instants)" %
                   (ctx, len(pushed), len(case["rx"]), len(popped), len(accepted), len(sent), cyc), key="c05:uart-hang", cls=cls, cycles=cyc)
    if tm.forced:
        cls.append("forced-resolution")
    if len(reg) < 4:
        return bad("structure", "%s: %d synchronisers found, two two-clock FIFOs need four" % (ctx, len(reg)), key="c05:uart-structure",
                   cls=cls, cycles=cyc)
    return ok(nt=(len(popped) >= 4 and len(sent) >= 4), cls=cls, cycles=cyc,
              counts={"bytes": len(popped) + len(sent), "forced-first-flops": tm.forced})


def subchecks():
    return [
        Sub("uart-core-cdc", run_uc, strategy=st_uc_case, examples=(160, 4000), timeout=(900, 20000),
            rule="UART(phy_cd != sys): software side in sys (CSR bus program), PHY side in another domain, generated edge interleavings with "
                 "first-flop resolution injection; bytes popped = bytes handed in, bytes written while not full = bytes at the PHY"),
        Sub("cdc-stream", run_stream, strategy=st_stream_case, examples=(1280, 25000), timeout=(900, 20000),
            rule="ClockDomainCrossing / AsyncFIFO / UART FIFO: token sequence preserved under generated edge interleavings, "
                 "first-flop resolutions, handshake schedules and common-reset pulses"),
        Sub("cdc-stream-phases", run_stream, enum=enum_stream, exhaustive=True,
            rule="ClockDomainCrossing depth 4 (plain; buffered + common reset with a reset pulse): periodic clocks with periods in "
                 "{1,2,3,5}^2 x phase offsets x {never, always, half} forced resolutions"),
        Sub("bus-synchronizer", run_bus, strategy=st_bus_case, examples=(1200, 20000), timeout=(900, 20000),
            rule="BusSynchronizer: only real words, in order, input reflected after 2T+8; ratio <= 3, T >= 4R+3"),
        Sub("axilite-cdc", run_axil, strategy=st_axil_case, examples=(288, 6000), timeout=(900, 20000),
            rule="AXILiteClockDomainCrossing: master agent in one scheduled domain, multi-accept memory slave in the other; all "
                 "operations complete, every request arrives once and unchanged, scoreboard right, hold monitors silent; "
                 "non-trivial additionally needs a read after a write to the same word"),
        Sub("monitor-pulse", run_mon, strategy=st_mon_case, examples=(560, 10000), timeout=(900, 20000),
            rule="stream.Monitor(clock_domain != sys): reset/latch pulses >= 3 destination cycles apart arrive exactly once each; "
                 "latched token/overflow/underflow/packet counts read back in sys equal a model clocked by the observed pulses; "
                 "non-trivial = a forced first-flop resolution, >= 2 latches, >= 1 reset, a latch landing on a counting cycle"),
        Sub("uartbone-cdc", run_ub, strategy=st_ub_case, examples=(96, 2400), timeout=(900, 20000),
            rule="UARTBone(cd='b') with a registered byte-pipe PHY in b and a Wishbone memory in sys: write/read burst commands, "
                 "every response byte equals the memory model, final read-back of all words; non-trivial = forced resolution + a write"),
    ]

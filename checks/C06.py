"""C06 - Wishbone interconnect routes each cycle to one slave and answers only its master."""
import itertools

from hypothesis import strategies as st

from vlib.runner import Sub, ok, bad, skip
from vlib import bench, wb

RULE = ("topology (Arbiter, Decoder, InterconnectShared, Crossbar, point-to-point, and the interconnect SoCBusHandler composes from declared masters/slaves/regions) x 1..3 masters x 1..3 slaves x generated "
        "disjoint address map (real SoCRegion.decoder) x registered/unregistered decode x per-master request programs "
        "(reads/writes, mapped or hole addresses, gaps, held cyc, simultaneous starts, aborts on unmapped addresses) x "
        "per-slave ack schedules; every master tags its requests in dat_w so that per-cycle routing/ownership invariants can "
        "be evaluated from port traces, plus a per-slave memory scoreboard; non-trivial = two masters requested in the "
        "same cycle at least once and one request waited for another master's cycle; distinct = canonical JSON")
ASSUMPTIONS = ["Migen's simulator (site-packages) defines FHDL semantics",
               "registered decode needs slave latency >= 1 (code comment: registering 'breaks Wishbone combinatorial feedback')",
               "a master drops cyc without ack only on addresses that match no slave; no timeout here (C11)"]

WINDOWS = [(0x00000000, 0x1000), (0x00001000, 0x1000), (0x00010000, 0x10000), (0x10000000, 0x10000000), (0x40000000, 0x20000000),
           (0x80000000, 0x80000000), (0x20000000, 0x100), (0x20000100, 0x100), (0x30000000, 0x10000000), (0x60000000, 0x10000)]
HOLES = [0x00002000, 0x00020000, 0x70000000, 0x20000200, 0x60010000]


def _overlap(a, b):
    return a[0] < b[0] + b[1] and b[0] < a[0] + a[1]


def st_case(tier):
    @st.composite
    def case(draw):
        kind = draw(st.sampled_from(["shared", "shared", "crossbar", "crossbar", "arbiter", "decoder", "p2p", "socbus", "socbus"]))
        M = 1 if kind in ("decoder", "p2p") else draw(st.integers(1, 3))
        S = 1 if kind in ("arbiter", "p2p") else draw(st.integers(1, 3))
        ic = draw(st.sampled_from(["shared", "crossbar"]))
        if kind == "socbus" and draw(st.integers(0, 2)) == 0:
            M = S = 1           # the SoC builds a point-to-point connection only for one master, one slave at origin 0
        wins = []
        for idx in draw(st.permutations(list(range(len(WINDOWS))))):
            w = WINDOWS[idx]
            if all(not _overlap(w, x) for x in wins):
                wins.append(w)
            if len(wins) == S:
                break
        register = draw(st.booleans())
        progs = []
        nops = draw(st.integers(3, 10 if tier == "quick" else 20))
        # masters of different address widths on one interconnect (the first one narrower): it only addresses what it can reach
        narrow = 16 if (kind in ("shared", "crossbar") and M >= 2 and draw(st.integers(0, 3)) == 0) else None
        reach = (1 << (narrow + 2)) if narrow else None
        for m in range(M):
            ops = []
            for _ in range(nops):
                if narrow and m == 0:
                    low = [j for j in range(S) if wins[j][0] + wins[j][1] <= reach]
                    if low and draw(st.integers(0, 4)):
                        j = draw(st.sampled_from(low))
                        base, hole = wins[j][0] + draw(st.sampled_from([0, 4, 8, wins[j][1] - 4, wins[j][1] // 2])), False
                    else:
                        cand = [h for h in HOLES if h < reach and not any(_overlap((h, 0x100), w) for w in wins)]
                        if not cand:
                            continue
                        base, hole = draw(st.sampled_from(cand)), True
                    ops.append({"we": draw(st.integers(0, 1)), "badr": base, "dat": draw(st.integers(0, 0xffffff)),
                                "sel": draw(st.sampled_from([15, 15, 3, 8, 1])), "gap": draw(st.sampled_from([0, 0, 0, 1, 2, 4])),
                                "hold": draw(st.booleans()), "hole": hole})
                    continue
                hole = kind not in ("arbiter", "p2p") and draw(st.integers(0, 9 if kind != "socbus" else 4)) == 0
                if kind == "socbus" and M == 1 and S == 1 and wins[0][0] == 0:
                    hole = False    # point-to-point by design ("no address translation"): no decoder, so no unmapped address
                if hole:
                    base = draw(st.sampled_from(HOLES))
                    if any(_overlap((base, 0x100), w) for w in wins):
                        hole = False
                if not hole:
                    j = draw(st.integers(0, S - 1))
                    base = wins[j][0] + draw(st.sampled_from([0, 4, 8, wins[j][1] - 4, wins[j][1] // 2]))
                ops.append({"we": draw(st.integers(0, 1)), "badr": base, "dat": draw(st.integers(0, 0xffffff)),
                            "sel": draw(st.sampled_from([15, 15, 3, 8, 1])), "gap": draw(st.sampled_from([0, 0, 0, 1, 2, 4])),
                            "hold": draw(st.booleans()), "hole": hole})
            progs.append(ops)
        return {"kind": kind, "ic": ic, "M": M, "S": S, "wins": [list(w) for w in wins], "register": register, "progs": progs, "narrow": narrow,
                # data width of the bus (the region decoders turn byte windows into word-address predicates)
                "dw": draw(st.sampled_from([32, 32, 64])),
                # slaves that answer some requests with err - together with ack, or instead of it
                "err": [draw(st.one_of(st.none(), st.none(), bench.st_schedule())) for _ in range(S)],
                "err_only": draw(st.booleans()),
                "go": [draw(st.one_of(st.just(["const", 1]), bench.st_schedule())) for _ in range(S)],
                "seed": draw(st.integers(0, 2 ** 16))}
    return case()


class _Bus:
    data_width = 32
    address_width = 32


def run_case(case):
    from migen import Module
    from litex.soc.interconnect import wishbone
    from litex.soc.integration.soc import SoCRegion
    kind, M, S = case["kind"], case["M"], case["S"]
    label = kind
    if kind == "socbus":
        # the interconnect SoCBusHandler composes from masters / slaves / regions declared through its API; judged as the
        # topology that was asked for (point-to-point only for one master, one slave whose region starts at 0)
        kind = "p2p" if (M == 1 and S == 1 and case["wins"][0][0] == 0) else case["ic"]
        label = "socbus:" + kind
    top = Module()
    dw = case.get("dw", 32)
    nb = dw // 8
    ash = nb.bit_length() - 1          # byte address -> word address
    masters = [wishbone.Interface(data_width=dw, adr_width=32 - ash, addressing="word") for _ in range(M)]
    if case.get("narrow"):
        masters[0] = wishbone.Interface(data_width=dw, adr_width=case["narrow"] + 2 - ash, addressing="word")      # fewer address lines than the others
    slaves = [wishbone.Interface(data_width=dw, adr_width=32 - ash, addressing="word") for _ in range(S)]
    regions = [SoCRegion(origin=o, size=s) for o, s in case["wins"]]
    register = case["register"] and kind in ("shared", "crossbar", "decoder")

    class _B(_Bus):
        data_width = dw
    decs = [(r.decoder(_B), s) for r, s in zip(regions, slaves)] if case["kind"] != "socbus" else None
    if case["kind"] == "socbus":
        from litex.soc.integration.soc import SoCBusHandler
        from vlib import env as _env
        h = SoCBusHandler(standard="wishbone", data_width=dw, address_width=32, timeout=None, interconnect=case["ic"],
                          interconnect_register=register)
        try:
            for i_, m_ in enumerate(masters):
                h.add_master("m%d" % i_, m_)
            if case.get("seed", 0) % 3 == 0:
                # regions declared first, the slaves bound to them by name later and in another order
                for j_, r_ in enumerate(regions):
                    h.add_region("s%d" % j_, r_)
                order = list(range(S))
                order = order[1:] + order[:1] if case["seed"] % 2 else order[::-1]
                for j_ in order:
                    h.add_slave("s%d" % j_, slaves[j_])
            else:
                for j_, (r_, s_) in enumerate(zip(regions, slaves)):
                    h.add_slave("s%d" % j_, s_, r_)
        finally:
            _env.restore_stderr()
        top.submodules.dut = h
    elif kind == "shared":
        top.submodules.dut = wishbone.InterconnectShared(masters, decs, register=register, timeout_cycles=case.get("timeout"))
    elif kind == "crossbar":
        top.submodules.dut = wishbone.Crossbar(masters, decs, register=register, timeout_cycles=None)
    elif kind == "arbiter":
        top.submodules.dut = wishbone.Arbiter(masters, slaves[0])
    elif kind == "decoder":
        top.submodules.dut = wishbone.Decoder(masters[0], decs, register=register)
    else:
        top.submodules.dut = wishbone.InterconnectPointToPoint(masters[0], slaves[0])
    smods = []
    for j, s in enumerate(slaves):
        sm = wb.WBMemSlave(s, 16, [(case["seed"] * 7 + j * 1000 + i * 13) & 0xffffffff for i in range(16)], min_latency1=register,
                           err_only=bool(case.get("err_only")))
        top.submodules += sm
        smods.append(sm)
    models = [wb.ByteMem(16 * nb, [(((case["seed"] * 7 + j * 1000 + (i // nb) * 13) & 0xffffffff) >> (8 * (i % nb))) & 0xff for i in range(16 * nb)])
              for j in range(S)]
    # requests: dat_w carries the master tag in its top byte (also for reads)
    agents = []
    mags = []
    for m in range(M):
        ops = []
        for o in case["progs"][m]:
            ops.append({"we": o["we"], "adr": o["badr"] >> ash, "dat": ((m + 1) << 24) | o["dat"], "sel": o["sel"], "gap": o["gap"],
                        "hold": o["hold"], "abort": 12 if o["hole"] else None})
        ma = wb.WBMaster(masters[m], ops)
        mags.append(ma)
        agents.append(ma)
    gos = [bench.Schedule(g if bench.sched_has_one(g) else ["const", 1]) for g in case["go"]]
    errs = [bench.Schedule(e) if e is not None else None for e in (case.get("err") or [None] * S)]

    def drive(t):
        d = {smods[j].go: gos[j].bit(t) for j in range(S)}
        for j in range(S):
            if errs[j] is not None:
                d[smods[j].err] = errs[j].bit(t)
        return d
    agents.append(bench.Driver(drive))
    mprobe = [bench.Probe([b.cyc, b.stb, b.we, b.adr, b.sel, b.dat_w, b.ack, b.err, b.dat_r]) for b in masters]
    sprobe = [bench.Probe([b.cyc, b.stb, b.we, b.adr, b.sel, b.dat_w, b.ack, b.err, b.dat_r]) for b in slaves]
    agents += mprobe + sprobe
    limit = 300 + sum(len(p) for p in case["progs"]) * 150
    cyc = bench.run(top, agents, limit, stop=lambda t: all(a.finished() for a in mags))
    cls = ["kind:" + label, "M%dS%d" % (M, S), "registered" if register else "comb-decode"]

    def inwin(j, wadr):
        o, s = case["wins"][j]
        return o <= (wadr << ash) < o + s

    if not all(a.finished() for a in mags):
        k = next(i for i, a in enumerate(mags) if not a.finished())
        return bad("termination", "%s %dx%d: master %d operation %d never terminated (%d cycles)" % (kind, M, S, k, mags[k].i, limit),
                   key="wbic-hang:" + kind, cls=cls, cycles=cyc)
    T = len(mprobe[0].trace)
    simultaneous = 0
    waited = 0
    owner_prev = [None] * S        # per slave: master bound in the previous cycle
    served = {}                    # (master, slave) -> acks counted at the slave
    for c in range(1, T):
        mv = [p.trace[c] for p in mprobe]
        sv = [p.trace[c] for p in sprobe]
        req = [i for i in range(M) if mv[i][0] and mv[i][1]]
        if len(req) >= 2:
            simultaneous += 1
        active = [j for j in range(S) if sv[j][0]]
        if kind in ("shared", "arbiter", "decoder", "p2p") and len(active) > 1:
            return bad("one-slave", "%s: cycle %d: slaves %r see cyc at the same time" % (kind, c, active), key="wbic-multi:" + kind, cls=cls)
        owners = [None] * S
        for j in range(S):
            cycj, stbj, wej, adrj, selj, datj, ackj, errj, drj = sv[j]
            if not cycj:
                continue
            tag = (datj >> 24) - 1
            cands = [i for i in range(M) if mv[i][0] and (mv[i][2], mv[i][3], mv[i][4], mv[i][5]) == (wej, adrj, selj, datj) and mv[i][1] == stbj]
            if not cands:
                return bad("route-source", "%s: cycle %d: slave %d sees cyc (adr %#x we %d dat_w %#x) but no master presents that request" %
                           (kind, c, j, adrj, wej, datj), key="wbic-route:" + kind, cls=cls)
            i = tag if tag in cands else cands[0]
            owners[j] = i
            if kind != "arbiter" and kind != "p2p" and not inwin(j, adrj):
                return bad("route-region", "%s: cycle %d: slave %d (window %#x+%#x) sees cyc for address %#x" %
                           (kind, c, j, case["wins"][j][0], case["wins"][j][1], adrj << ash), key="wbic-region:" + kind, cls=cls)
            # ownership: bound master keeps the port while it keeps cyc
            p = owner_prev[j]
            if p is not None and p != i and mprobe[p].trace[c][0] and kind in ("shared", "arbiter", "crossbar"):
                pm = mprobe[p].trace[c]
                still_here = kind in ("shared", "arbiter") or inwin(j, pm[3])
                if still_here:
                    return bad("ownership", "%s: cycle %d: slave %d passed from master %d to master %d although master %d still asserts cyc" %
                               (kind, c, j, p, i, p), key="wbic-owner:" + kind, cls=cls)
            if (ackj or errj) and stbj:
                served[(i, j)] = served.get((i, j), 0) + 1
        owner_prev = owners
        # hole addresses reach nobody
        for i in req:
            a = mv[i][3]
            if kind in ("shared", "crossbar", "decoder") and not any(inwin(j, a) for j in range(S)):
                hit = [j for j in range(S) if owners[j] == i]
                if hit:
                    return bad("route-hole", "%s: cycle %d: master %d address %#x matches no region but slave %r sees the cycle" %
                               (kind, c, i, a << ash, hit), key="wbic-hole:" + kind, cls=cls)
        # responses reach only the bound master, with the answering slave's data
        for i in range(M):
            cyci, stbi, wei, adri, seli, dati, acki, erri, dri = mv[i]
            if acki or erri:
                src = [j for j in range(S) if owners[j] == i and (sv[j][6] or sv[j][7])]
                if not src:
                    return bad("ack-stray", "%s: cycle %d: master %d sees ack/err but no slave bound to it answers" % (kind, c, i),
                               key="wbic-ack:" + kind, cls=cls)
                j = src[0]
                if (acki, erri) != (sv[j][6], sv[j][7]):
                    return bad("termination-kind", "%s: cycle %d: slave %d answers ack=%d err=%d, master %d sees ack=%d err=%d" %
                               (kind, c, j, sv[j][6], sv[j][7], i, acki, erri), key="wbic-ack:" + kind, cls=cls)
                if acki and not wei and cyci and stbi:
                    if dri != sv[j][8] and not (register and False):
                        return bad("data-return", "%s (register=%r): cycle %d: master %d reads %#x, slave %d drives %#x" %
                                   (kind, register, c, i, dri, j, sv[j][8]), key="wbic-data:" + kind, cls=cls)
        for j in range(S):
            if (sv[j][6] or sv[j][7]) and owners[j] is not None:
                i = owners[j]
                if not (mv[i][6] or mv[i][7]):
                    return bad("ack-lost", "%s: cycle %d: slave %d answers master %d which sees neither ack nor err" % (kind, c, j, i),
                               key="wbic-ack:" + kind, cls=cls)
    # exactly one termination per request, scoreboard per slave in ack order
    events = []
    for m, a in enumerate(mags):
        if a.acks_outside:
            return bad("ack-once", "%s: master %d saw %d ack(s) without a pending request" % (kind, m, a.acks_outside), key="wbic-ack:" + kind, cls=cls)
        for (i, start, ackc, dat_r, err) in a.results:
            events.append((ackc, m, i, dat_r, err, start))
        for (i, start, end) in a.aborted:
            if not case["progs"][m][i]["hole"]:
                return bad("termination", "master %d op %d to a mapped address was never acknowledged" % (m, i), key="wbic-hang:" + kind, cls=cls)
        done = {r[0] for r in a.results} | {r[0] for r in a.aborted}
        if len(a.results) + len(a.aborted) != len(case["progs"][m]) or len(done) != len(case["progs"][m]):
            return bad("termination", "%s: master %d: %d operations, %d terminations" % (kind, m, len(case["progs"][m]), len(a.results) + len(a.aborted)),
                       key="wbic-ack:" + kind, cls=cls)
    per_ms = {}
    for ackc, m, i, dat_r, err, start in sorted(events):
        o = case["progs"][m][i]
        if o["hole"]:
            return bad("hole-answered", "%s: master %d request to unmapped %#x was acknowledged" % (kind, m, o["badr"]), key="wbic-hole:" + kind, cls=cls)
        j = 0 if kind in ("arbiter", "p2p") else next(jj for jj in range(S) if case["wins"][jj][0] <= o["badr"] < sum(case["wins"][jj]))
        per_ms[(m, j)] = per_ms.get((m, j), 0) + 1
        off = ((o["badr"] >> ash) & 15) * nb
        if err and case.get("err_only"):
            continue                     # terminated by err instead of ack: nothing written, no data returned
        if o["we"]:
            models[j].write(off, nb, ((m + 1) << 24) | o["dat"], o["sel"])
        else:
            exp = models[j].read(off, nb)
            if dat_r != exp:
                return bad("scoreboard", "%s %dx%d: master %d read of %#x returned %#x, slave %d memory holds %#x" %
                           (kind, M, S, m, o["badr"], dat_r, j, exp), key="wbic-data:" + kind, cls=cls)
    if per_ms != served:
        return bad("exactly-once", "%s: acknowledged requests per (master, slave) %r differ from acks counted at the slaves %r" %
                   (kind, per_ms, served), key="wbic-once:" + kind, cls=cls)
    # fairness (shared / arbiter): while a master waits, each other master owns the bus for at most one cyc period
    if kind in ("shared", "arbiter") and M > 1:
        own = []
        for c in range(1, T):
            sv = [p.trace[c] for p in sprobe]
            o = None
            for j in range(S):
                if sv[j][0]:
                    o = (sv[j][5] >> 24) - 1
            own.append(o)
        for m in range(M):
            c = 1
            while c < T:
                if mprobe[m].trace[c][0] and own[c - 1] != m:
                    # waiting
                    start = c
                    periods = {}
                    last = None
                    while c < T and mprobe[m].trace[c][0] and own[c - 1] != m:
                        o = own[c - 1]
                        if o is not None and o != last:
                            periods[o] = periods.get(o, 0) + 1
                        if o is not None or True:
                            last = o
                        c += 1
                    if c - start > 1:
                        waited += 1
                    # ownership periods are delimited by the owner dropping cyc; count changes of owner identity
                    worst = max(periods.values()) if periods else 0
                    if worst > 2:
                        return bad("fairness", "%s: master %d waited from cycle %d to %d while another master was granted %d separate times" %
                                   (kind, m, start, c, worst), key="wbic-fair:" + kind, cls=cls)
                else:
                    c += 1
    nt = simultaneous >= 1 and (waited >= 1 or kind == "crossbar")
    if any(o["hole"] for p in case["progs"] for o in p):
        cls.append("hole-access")
    cls.append("dw%d" % dw)
    if case.get("narrow"):
        cls.append("mixed-address-widths")
    if any(ev[4] for ev in events):
        cls.append("err-terminated" + (":err-only" if case.get("err_only") else ":with-ack"))
    return ok(nt=nt, cls=cls, cycles=cyc)


def enum_small(tier):
    """2 masters x 2 slaves, all request-start offsets (0..5)^2 x held/not held cyc x shared/crossbar x register"""
    out = []
    for kind in ("shared", "crossbar"):
        for register in (False, True):
            for o0, o1 in itertools.product(range(6), repeat=2):
                for h0, h1 in itertools.product((False, True), repeat=2):
                    for tgt in ((0, 0), (0, 1), (1, 0)):
                        progs = []
                        for m, (off, h) in enumerate(((o0, h0), (o1, h1))):
                            ops = []
                            for n in range(3):
                                j = tgt[m] if n != 1 else 1 - tgt[m]
                                ops.append({"we": n % 2, "badr": WINDOWS[j][0] + 4 * n, "dat": 0x100 * m + n, "sel": 15,
                                            "gap": off if n == 0 else 0, "hold": h, "hole": False})
                            progs.append(ops)
                        for go in (["const", 1], ["per", [0, 1], 0], ["per", [0, 0, 1], 1]):
                            out.append({"kind": kind, "M": 2, "S": 2, "wins": [list(WINDOWS[0]), list(WINDOWS[1])], "register": register,
                                        "progs": progs, "go": [go, ["const", 1]], "seed": 1})
    return out


def enum_streak(tier):
    """a configured time-out must not disturb requests that are answered in time: one master keeps cyc and stb
    asserted over a streak of back-to-back requests much longer than the time-out (slave latency 0..2 << T)"""
    out = []
    for T in (4, 8, 16):
        for go in (["const", 1], ["per", [0, 1], 0], ["per", [0, 0, 1], 0]):
            for M in (1, 2):
                progs = []
                for m in range(M):
                    progs.append([{"we": n % 2, "badr": WINDOWS[n % 2][0] + 4 * (n % 8), "dat": 0x100 * m + n, "sel": 15, "gap": 0, "hold": True, "hole": False}
                                  for n in range(3 * T + 6)])
                out.append({"kind": "shared", "M": M, "S": 2, "wins": [list(WINDOWS[0]), list(WINDOWS[1])], "register": False, "progs": progs,
                            "go": [go, go], "seed": 3, "timeout": T})
    return out


def subchecks():
    return [
        Sub("interconnect", run_case, strategy=st_case, examples=(2000, 60000),
            rule="generated topologies, maps, request programs and ack schedules"),
        Sub("timeout-streak", run_case, enum=enum_streak, exhaustive=True, shards=(4, 4),
            rule="shared interconnect with a configured time-out T in {4,8,16}: streaks of 3T+6 back-to-back held requests answered within 0..2 cycles"),
        Sub("small-exhaustive", run_case, enum=enum_small, exhaustive=True,
            rule="2x2 shared/crossbar: ALL start offsets (0..5)^2 x held cyc x targets x registered x 3 slave latencies"),
    ]

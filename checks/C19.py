"""C19 - Serial peripherals and timers produce exact waveforms and always finish."""
from hypothesis import strategies as st

from vlib.runner import Sub, ok, bad, skip
from vlib import bench, periph

RULE = ("every case builds a fresh core (bench top = core + real CSRBank where the core has CSRs, + Migen pin partners), drives "
        "a generated command history and judges pin / CSR-level traces against a statement of the externally defined behaviour "
        "(UART framing at the programmed bit period, SPI mode 0, I2C bus rules, documented timer / watchdog / PWM semantics); "
        "every history ends with a bounded return-to-idle requirement; non-trivial per sub-check (see rules): timer history with a "
        "reload at zero and a disable, >= 2 UART frames with a back-to-back offer, RX with |eps| >= 1.5 % or gap 0, SPI start "
        "issued while the divider is mid-phase plus a second transfer, I2C transaction with >= 2 bytes; distinct = canonical JSON "
        "of the case")
ASSUMPTIONS = [
    "Migen's simulator (site-packages) defines FHDL semantics",
    "CSR accesses go through a real csr_bus.CSRBank (32-bit bus) next to the core (no back-door writes); the bank itself is "
    "C12's subject; a write issued in step t reaches the storage / strobes `re` in cycle t+2 (timer, watchdog: the model's "
    "register values are compared with the observed storages every cycle, a mismatch is a harness error, not a violation)",
    "UART RX: correct reception is required only inside the measured envelope (|eps| <= 2 % from 16 cycles/bit, <= 1 % from "
    "8.68 cycles/bit), gaps >= 0 between frames, >= 1.5 bit of idle after a framing error or break; UART TX: 4..48 (thorough "
    "400) cycles per bit - below 4 the one-cycle edge tolerance is vacuous; tuning word changes during a frame are not generated",
    "SPIMaster: dividers >= 2, length 1..data_width, length / cs / loopback / divider registers are not rewritten during a "
    "transfer (a second start and a new mosi word are), divider only raised at run time in sub-check 'spim' (lowering: "
    "'spim-divider'); the slave partner is an ideal zero-delay mode-0 device, optionally with MISO valid only from the falling "
    "edge until one cycle after the rising edge; the one-cycle cs_n=0 after reset (pad reset value) is ignored",
    "SPISlave: reference master at >= 8 system cycles per SPI clock, chip-select lead >= 6 cycles, gaps >= 8 cycles",
    "I2C: clock load >= 1 (load 0 leaves no cycle for the pad logic to move SDA), one command bit per write (compound commands "
    "are marked TODO in the source), no clock stretching, a READ only after an address byte; commands written while busy only "
    "in sub-check 'i2c-busy'; legality is judged at the pads through a mock open-drain tristate",
    "Timer: exact alignment taken from the code (counter holds `load` while disabled; first enabled cycle shows `load`; zero "
    "event = count is 0), so a one-shot fires exactly `load` cycles after the enable takes effect; NOT asserted: the periodic "
    "period, which is reload+1 cycles although the register description says `reload` cycles",
    "Watchdog: `remaining` is 0 after reset, so enabling without a feed times out at once (taken as specified); the time-out "
    "event follows the zero count by one enabled cycle; crg_rst: must be up while the condition has been held for reset_delay "
    "cycles and still holds, must be down unless it was held during the last reset_delay cycles",
    "PWM: judged in settled intervals only (one period after the last register write); period 0 and MultiChannelPWM are not covered",
    "pending/irq of the event managers follow C15's model (rising-edge process source, set wins over clear)",
]


def _first_diff(exp, got):
    for i, (a, b) in enumerate(zip(exp, got)):
        if a != b:
            return i
    return None


# ===================================================================================== Timer

def st_timer(tier):
    small = st.integers(0, 12)

    @st.composite
    def case(draw):
        width = draw(st.sampled_from([32, 32, 32, 32, 8, 16, 5]))
        top = (1 << width) - 1
        val = st.one_of(small, small, st.integers(0, 40), st.sampled_from([top, top - 1, 1 << (width - 1)]))
        gap = st.one_of(st.integers(0, 3), st.integers(0, 3), st.integers(0, 30))
        n = draw(st.integers(4, 28 if tier == "quick" else 60))
        ops = []
        for _ in range(n):
            k = draw(st.sampled_from(["load", "reload", "en", "en", "en", "upd", "upd", "clr", "ien"]))
            if k in ("load", "reload"):
                v = draw(val) & top
            elif k == "upd":
                v = draw(st.integers(0, 1))
            elif k == "clr":
                v = draw(st.sampled_from([1, 1, 0]))
            else:
                v = draw(st.integers(0, 1))
            ops.append([draw(gap), k, v])
        uptime = draw(st.booleans())
        if uptime:
            for _ in range(draw(st.integers(1, 3))):
                ops.insert(draw(st.integers(0, len(ops))), [draw(gap), "uplatch", 1])
        # epilogue: documented one-shot recipe (disable, load, reload=0, enable) and then rest
        L = draw(st.integers(0, 20))
        ops += [[draw(gap), "en", 0], [0, "load", L], [0, "reload", 0], [draw(st.integers(0, 2)), "en", 1]]
        return {"width": width, "uptime": uptime, "ops": ops, "tail": L + 6}
    return case()


def run_timer(case):
    from litex.soc.cores.timer import Timer
    width = case["width"]
    core = Timer(width=width)
    if case["uptime"]:
        core.add_uptime()
    top = periph.csr_top(core)
    regname = {"load": "load", "reload": "reload", "en": "en", "upd": "update_value", "clr": "ev_pending",
               "ien": "ev_enable", "uplatch": "uptime_latch"}
    sched, tend = periph.schedule_ops(case["ops"])
    writes = {t: (regname[op[1]], op[2]) for t, op in sched.items()}
    ncyc = tend + case["tail"] + 4
    sigs = [core.ev.zero.trigger, core._value.status, core.ev.zero.pending, core.ev.irq]
    if case["uptime"]:
        sigs.append(core._uptime_cycles.status)
    probe = bench.Probe(sigs)
    regs = bench.Probe([core._load.storage, core._reload.storage, core._en.storage, core.ev.enable.storage])
    cyc = bench.run(top, [periph.BusProgram(top, writes), probe, regs], ncyc)

    # ---- reference: documented behaviour, cycle alignment as stated in ASSUMPTIONS
    eff = {}                      # cycle -> list of (kind, value) taking effect in that cycle
    for t, op in sched.items():
        eff.setdefault(t + 2, []).append((op[1], op[2]))
    load = reload_ = en = ien = 0
    value = status = 0
    trig_d = pending = 0
    upstat = 0
    reloads = disables = oneshots = 0
    was_en = 0
    exp = []
    for c in range(len(probe.trace)):
        upd = clr = upl = False
        for k, v in eff.get(c, ()):
            if k == "load":
                load = v
            elif k == "reload":
                reload_ = v
            elif k == "en":
                en = v & 1
            elif k == "ien":
                ien = v & 1
            elif k == "upd":
                upd = True            # "a write to this register latches" - any value
            elif k == "clr":
                clr = bool(v & 1)     # write 1 to clear
            elif k == "uplatch":
                upl = True
        if regs.trace[c] != (load, reload_, en, ien):
            raise RuntimeError("C19 harness: CSR write timing assumption broken in cycle %d: storages %r, expected %r" % (
                c, regs.trace[c], (load, reload_, en, ien)))
        trig = int(value == 0)
        row = [trig, status, pending, pending & ien]
        if case["uptime"]:
            row.append(upstat)
        exp.append(tuple(row))
        if was_en and not en:
            disables += 1
        was_en = en
        # next state
        if upd:
            status = value
        if upl:
            upstat = c                # free-running cycle counter since power-up
        npend = pending
        if clr:
            npend = 0
        if trig and not trig_d:
            npend = 1                 # event on the rising edge of "count is zero"
        pending, trig_d = npend, trig
        if en:
            if value == 0:
                if reload_ != 0:
                    reloads += 1
                value = reload_       # "when the Timer reaches 0 it is reloaded with reload"; reload 0 = stop
            else:
                value -= 1            # one step per enabled cycle
        else:
            value = load              # "when (re-)enabled it is loaded with load"
    cls = ["timer:w%d" % width] + (["timer:uptime"] if case["uptime"] else [])
    i = _first_diff(exp, probe.trace)
    if i is not None:
        names = ["zero-trigger", "value-latch", "pending", "irq", "uptime"]
        j = _first_diff(exp[i], probe.trace[i])
        lo = max(0, i - 3)
        return bad("timer-" + names[j],
                   "Timer(width=%d): cycle %d %s is %d, documented behaviour gives %d (writes take effect 2 cycles after "
                   "the listed step; trace[%d:%d] got %r expected %r)" %
                   (width, i, names[j], probe.trace[i][j], exp[i][j], lo, i + 1, probe.trace[lo:i + 1], exp[lo:i + 1]),
                   key="c19:timer:" + names[j], cls=cls, cycles=cyc)
    if reloads:
        cls.append("timer:reload-at-zero")
    if disables:
        cls.append("timer:disable")
    return ok(nt=bool(reloads and disables), cls=cls, cycles=cyc)


# ===================================================================================== UART TX

def _st_tuning(tier, tmin, tmax):
    """tuning words with bit periods T = 2^32/tw in [tmin, tmax] cycles: integer, fractional and baud-rate derived"""
    lo, hi = int(2 ** 32 / tmax), int(2 ** 32 / tmin)
    by_period = st.integers(int(tmin * 16) + 1, int(tmax * 16)).map(lambda x: int(2 ** 32 * 16 / x))
    return st.one_of(by_period, by_period, st.integers(lo, hi),
                     st.sampled_from([int(115200 / 1e6 * 2 ** 32), int(1e6 / 12e6 * 2 ** 32), int(3e6 / 50e6 * 2 ** 32),
                                      int(921600 / 25e6 * 2 ** 32)])).filter(lambda tw: lo <= tw <= hi)


def st_uart_tx(tier):
    @st.composite
    def case(draw):
        tmax = 48 if tier == "quick" else 400
        tw = draw(_st_tuning(tier, 4, tmax))
        T = 2 ** 32 / tw
        n = draw(st.integers(1, 4))
        byte = st.one_of(st.integers(0, 255), st.sampled_from([0x00, 0xff, 0x55, 0xaa, 0x7f, 0x80, 0x01, 0xfe]))
        gap = st.one_of(st.just(0), st.just(0), st.integers(0, 3), st.integers(0, int(2 * T) + 2))
        return {"tw": tw, "dyn": draw(st.sampled_from(["const", "signal", "phy"])),
                "bytes": [draw(byte) for _ in range(n)], "gaps": [draw(st.integers(0, 6))] + [draw(gap) for _ in range(n - 1)]}
    return case()


class _TxFeeder:
    """holds valid+data until the handshake; gap g = idle cycles between a handshake and the next offer (0 = the next
    byte is valid in the cycle right after the handshake)"""

    def __init__(self, sink, data, gaps):
        self.sink, self.data, self.gaps = sink, data, gaps
        self.i = 0
        self.offering = False
        self.wait = gaps[0] if gaps else 0
        self.offers = []      # first cycle in which byte i is valid
        self.shakes = []      # cycle of the handshake

    def signals(self):
        return [self.sink.ready]

    def step(self, t, vals):
        out = []
        if self.offering and vals[0]:
            self.shakes.append(t)
            self.offering = False
            self.i += 1
            self.wait = self.gaps[self.i] if self.i < len(self.data) else 0
            out.append(self.sink.valid.eq(0))
        if not self.offering and self.i < len(self.data):
            if self.wait == 0:
                self.offering = True
                self.offers.append(t + 1)
                out = [self.sink.valid.eq(1), self.sink.data.eq(self.data[self.i])]
            else:
                self.wait -= 1
        return out


def check_tx_wave(tx, T, data, offers, shakes, what):
    """tx: line value per cycle.  Returns None or (clause, detail).  Frame: start 0, eight data bits LSB first, stop 1;
    the k-th bit boundary lies within one cycle of start + k*T (no drift); the line is 1 outside frames."""
    n = len(tx)
    c = 0
    fi = 0
    prev_end = 0.0
    if tx[0] != 1:
        return "tx-idle", "%s: line is %d in cycle 0 (idle level is 1)" % (what, tx[0])
    while c < n:
        # idle: search the next start edge
        while c < n and tx[c] == 1:
            c += 1
        if c >= n:
            break
        s = c
        if fi >= len(data):
            return "tx-spurious", "%s: start bit at cycle %d although all %d bytes were sent" % (what, s, len(data))
        if s < prev_end - 1.000001:
            return "tx-stop", "%s: frame %d starts at cycle %d, before the stop bit of the previous frame ends (%.2f)" % (
                what, fi, s, prev_end)
        if s < offers[fi] + 1 if fi < len(offers) else True:
            return "tx-spurious", "%s: start bit at cycle %d but byte %d is offered only from cycle %s" % (
                what, s, fi, offers[fi] if fi < len(offers) else "never")
        bits = [0] + [(data[fi] >> k) & 1 for k in range(8)] + [1]
        exp_edges = [k for k in range(1, 10) if bits[k] != bits[k - 1]]
        end = s + 10 * T
        last = min(n, int(end) - 1)
        got_edges = [x for x in range(s + 1, last + 1) if tx[x] != tx[x - 1]]
        sent = 0
        # decode what was actually sent (mid-bit samples) for the message
        for k in range(8):
            m = int(s + (k + 1.5) * T)
            if m < n:
                sent |= tx[m] << k
        if len(got_edges) != len(exp_edges):
            return "tx-frame", "%s: frame %d (byte %#04x) from cycle %d: %d level changes inside the frame at %r, the bit pattern " \
                               "has %d (mid-bit decode %#04x)" % (what, fi, data[fi], s, len(got_edges), got_edges, len(exp_edges), sent)
        for k, e in zip(exp_edges, got_edges):
            ideal = s + k * T
            if abs(e - ideal) > 1.000001:
                return "tx-bit-period", "%s: frame %d (byte %#04x) from cycle %d: boundary of bit cell %d at cycle %d, programmed " \
                                        "period %.4f puts it at %.2f" % (what, fi, data[fi], s, k, e, T, ideal)
        if int(end) - 1 >= n:
            return "tx-unfinished", "%s: frame %d not finished within the cycle limit" % (what, fi)
        if tx[last] != 1:
            return "tx-stop", "%s: frame %d: line low at cycle %d inside the stop bit" % (what, fi, last)
        prev_end = end
        fi += 1
        c = last + 1
    if fi != len(data):
        return "tx-missing", "%s: %d of %d bytes transmitted within the cycle limit (stuck?)" % (what, fi, len(data))
    if len(shakes) != len(data):
        return "tx-handshake", "%s: %d sink handshakes for %d bytes" % (what, len(shakes), len(data))
    return None


def run_uart_tx(case):
    from migen import Signal
    from litex.soc.cores.uart import RS232PHYTX, RS232PHY, UARTPads
    tw = case["tw"]
    T = 2 ** 32 / tw
    pads = UARTPads()
    if case["dyn"] == "const":
        dut = RS232PHYTX(pads, tw)
        sink = dut.sink
    elif case["dyn"] == "signal":
        dut = RS232PHYTX(pads, Signal(32, reset=tw))
        sink = dut.sink
    else:
        # whole PHY: tuning word computed by the code under test from (clk_freq, baudrate); the monitor uses clk/baud
        clk = 1 << 32
        dut = RS232PHY(pads, clk_freq=clk, baudrate=tw)
        sink = dut.sink
    data, gaps = case["bytes"], case["gaps"]
    feeder = _TxFeeder(sink, data, gaps)
    probe = bench.Probe([pads.tx])
    ncyc = sum(gaps) + len(data) * (int(10 * T) + 4) + int(T) + 12
    cyc = bench.run(dut, [feeder, probe], ncyc)
    tx = [r[0] for r in probe.trace]
    what = "RS232PHYTX(tuning_word=%d: %.4f cycles/bit, %s)" % (tw, T, case["dyn"])
    cls = ["uart-tx:" + case["dyn"], "uart-tx:T<8" if T < 8 else ("uart-tx:T<20" if T < 20 else "uart-tx:T>=20")]
    v = check_tx_wave(tx, T, data, feeder.offers, feeder.shakes, what)
    if v:
        return bad(v[0], v[1], key="c19:uart-tx:" + v[0], cls=cls, cycles=cyc)
    # the handshake of byte i belongs to frame i: not before its stop bit began, not after the frame ended (+1)
    starts = []
    c = 1
    while c < len(tx) and len(starts) < len(data):
        if tx[c] == 0 and tx[c - 1] == 1:
            starts.append(c)
            c = int(c + 10 * T) - 1
        else:
            c += 1
    for i, (s0, h) in enumerate(zip(starts, feeder.shakes)):
        if not (s0 + 9 * T - 1.000001 <= h <= s0 + 10 * T + 1.000001):
            return bad("tx-handshake", "%s: byte %d accepted (valid & ready) in cycle %d; its frame starts at %d, the stop bit "
                       "spans %.1f..%.1f" % (what, i, h, s0, s0 + 9 * T, s0 + 10 * T), key="c19:uart-tx:tx-handshake", cls=cls, cycles=cyc)
    b2b = any(g == 0 for g in gaps[1:])
    if b2b:
        cls.append("uart-tx:back-to-back")
    return ok(nt=(len(data) >= 2 and b2b), cls=cls, cycles=cyc)


# ===================================================================================== UART RX

def st_uart_rx(tier):
    @st.composite
    def case(draw):
        tmax = 40 if tier == "quick" else 200
        near16 = st.integers(16 * 16, 20 * 16).map(lambda x: int(2 ** 32 * 16 / x))
        tw = draw(st.one_of(near16, _st_tuning(tier, 8.68, tmax)))
        T = 2 ** 32 / tw
        lim = 200 if T >= 16 else 100                   # envelope: |eps| <= 2 % from 16 cycles/bit, 1 % from 8.68
        eps = draw(st.one_of(st.sampled_from([-lim, lim, -lim + 10, lim - 10, 0]), st.integers(-lim, lim)))
        n = draw(st.integers(2, 5))
        byte = st.one_of(st.integers(0, 255), st.sampled_from([0x00, 0xff, 0x55, 0xaa, 0x7f, 0x80, 0x01, 0xfe]))
        frames = []
        for i in range(n):
            kind = draw(st.sampled_from(["ok"] * 6 + ["badstop", "break"])) if i < n - 1 else "ok"
            gap = draw(st.one_of(st.just(0), st.just(0), st.integers(0, 48)))     # idle after the frame, 1/16 bit units
            if kind != "ok":
                gap = max(gap, 24)
            frames.append({"kind": kind, "byte": draw(byte), "gap": gap,
                           "len": draw(st.integers(11, 24)) if kind == "break" else 10})
        return {"tw": tw, "eps": eps, "phase": draw(st.integers(0, 15)), "frames": frames}
    return case()


def rx_wave(T, eps, phase16, frames):
    """line level per system cycle: frames at bit period T/(1+eps) starting at a fractional cycle offset"""
    import math
    Tt = T / (1.0 + eps)
    tau = 2.0 * T + phase16 / 16.0
    spans = []
    for f in frames:
        if f["kind"] == "break":
            bits = [0] * f["len"]
        else:
            bits = [0] + [(f["byte"] >> k) & 1 for k in range(8)] + [1 if f["kind"] == "ok" else 0]
        spans.append((tau, bits))
        tau += (len(bits) + f["gap"] / 16.0) * Tt
    n = int(tau + 2 * T) + 8
    wave = [1] * n
    for tau_i, bits in spans:
        for c in range(max(0, int(tau_i) - 1), min(n, int(tau_i + len(bits) * Tt) + 2)):
            k = math.floor((c - tau_i) / Tt)
            if 0 <= k < len(bits):
                wave[c] = bits[k]
    return wave, spans, Tt


def run_uart_rx(case):
    from litex.soc.cores.uart import RS232PHYRX, UARTPads
    tw = case["tw"]
    T = 2 ** 32 / tw
    eps = case["eps"] / 10000.0
    if T < 8.68 or abs(eps) > (0.02 if T >= 16 else 0.01) + 1e-9:
        return skip("outside the measured reception envelope")
    pads = UARTPads()
    dut = RS232PHYRX(pads, tw)
    wave, spans, Tt = rx_wave(T, eps, case["phase"], case["frames"])
    n = len(wave)
    drv = bench.Driver(lambda t: {pads.rx: wave[t + 1] if t + 1 < n else 1})
    probe = bench.Probe([dut.source.valid, dut.source.data])
    cyc = bench.run(dut, [drv, probe], n)
    got = [(c, r[1]) for c, r in enumerate(probe.trace) if r[0]]
    want = [f["byte"] for f in case["frames"] if f["kind"] == "ok"]
    what = "RS232PHYRX(tuning_word=%d: %.3f cycles/bit), transmitter %+.2f %%, start phase %d/16 cycle" % (
        tw, T, 100 * eps, case["phase"])
    cls = ["uart-rx:T<16" if T < 16 else "uart-rx:T>=16"]
    if abs(eps) >= 0.015:
        cls.append("uart-rx:|eps|>=1.5%")
    if any(f["kind"] != "ok" for f in case["frames"]):
        cls.append("uart-rx:framing-error-or-break")
    if any(f["gap"] == 0 for f in case["frames"][:-1]):
        cls.append("uart-rx:gap0")
    if [d for _, d in got] != want:
        # attribute: which frame went wrong
        detail = "%s: frames %r delivered %r (cycle, byte), expected bytes %r" % (
            what, [(f["kind"], f["byte"], f["gap"]) for f in case["frames"]], got, want)
        bad_delivered = len(got) > len(want)
        return bad("rx-extra" if bad_delivered else "rx-data", detail, key="c19:uart-rx:" + ("extra" if bad_delivered else "data"),
                   cls=cls, cycles=cyc)
    # every delivery falls into its own frame's stop bit neighbourhood (once per frame, not late into the next frame)
    oks = [sp for sp, f in zip(spans, case["frames"]) if f["kind"] == "ok"]
    for (c, d), (tau_i, bits) in zip(got, oks):
        if not (tau_i + 9 * Tt <= c <= tau_i + 10 * Tt + 4):
            return bad("rx-when", "%s: byte %#04x delivered in cycle %d, its stop bit spans %.1f..%.1f" % (
                what, d, c, tau_i + 9 * Tt, tau_i + 10 * Tt), key="c19:uart-rx:when", cls=cls, cycles=cyc)
    return ok(nt=abs(eps) >= 0.015 or "uart-rx:gap0" in cls, cls=cls, cycles=cyc)


# ===================================================================================== SPIMaster

class _Prog:
    """Sequential CSR program executed by an agent: items
       ["w", reg, value] bus write | ["gap", n] | ["wait"] until `done` is observed (bounded) | ["set", key, value] back-door
       write to a bench-side signal (partner stimulus).  One item per step at most (gap n = n idle steps)."""

    def __init__(self, top, items, done_sig, extra, wait_limit):
        self.top, self.items, self.done_sig, self.extra = top, list(items), done_sig, extra
        self.pc = 0
        self.gap = 0
        self.strobe = False
        self.waited = 0
        self.wait_limit = wait_limit
        self.finished_at = None
        self.timeouts = 0

    def step(self, t, done):
        bus = self.top.bus
        out = []
        self._we0 = None
        if self.strobe:
            self._we0 = bus.we.eq(0)
            out.append(self._we0)
            self.strobe = False
        while self.pc < len(self.items):
            it = self.items[self.pc]
            k = it[0]
            if k == "gap":
                if self.gap < it[1]:
                    self.gap += 1
                    return out
                self.gap = 0
                self.pc += 1
                continue
            if k == "wait":
                if not done and self.waited < (it[1] if len(it) > 1 else self.wait_limit):
                    self.waited += 1
                    return out
                if not done:
                    self.timeouts += 1
                self.waited = 0
                self.pc += 1
                continue
            if k == "set":
                out.append(self.extra[it[1]].eq(it[2]))
                self.pc += 1
                continue
            if k == "w":
                out = [x for x in out if x is not self._we0]
                out += [bus.adr.eq(self.top.addr[it[1]][0]), bus.dat_w.eq(it[2]), bus.we.eq(1)]
                self.strobe = True
                self.pc += 1
                return out
            raise ValueError(it)
        if self.finished_at is None:
            self.finished_at = t
        return out


def st_spim(tier, shrink_div=False):
    @st.composite
    def case(draw):
        dw = draw(st.sampled_from([8, 16, 24, 32, 32, 12, 9]))
        mode = draw(st.sampled_from(["raw", "aligned"]))
        ncs = draw(st.sampled_from([1, 1, 2, 3]))
        div0 = draw(st.sampled_from([2, 3, 4, 5, 8]))
        psel = draw(st.integers(0, ncs - 1))
        nx = draw(st.integers(1, 4))
        div = div0
        xfers = []
        budget = 900 if tier == "quick" else 4000
        for i in range(nx):
            x = {}
            if draw(st.integers(0, 3)) == 0:
                cand = [2, 3, 4, 5, 6, 7, 8, 11, 16, 33, 64]
                if not shrink_div:
                    cand = [d for d in cand if d >= div]      # see key c19:spim:divider-shrink (own sub-check)
                else:
                    cand = [d for d in cand if d != div]
                if cand:
                    div = draw(st.sampled_from(cand))
                    x["div"] = div
            maxlen = max(1, min(dw, budget // (div * nx) - 2))
            x["len"] = draw(st.one_of(st.integers(1, maxlen), st.sampled_from([1, maxlen, min(dw, 8)])))
            x["len"] = min(x["len"], maxlen)
            x["mosi"] = draw(st.one_of(st.integers(0, (1 << dw) - 1), st.sampled_from([0, (1 << dw) - 1, 1 << (dw - 1), 1,
                                                                                     0xaaaaaaaa & ((1 << dw) - 1)])))
            x["resp"] = draw(st.integers(0, (1 << dw) - 1))
            x["gap"] = draw(st.one_of(st.just(0), st.integers(0, 2 * div + 1)))
            if draw(st.integers(0, 4)) == 0:
                x["cs"] = [draw(st.integers(0, (1 << ncs) - 1)) if ncs > 1 else draw(st.sampled_from([1, 1, 0])), 0]
            if draw(st.integers(0, 5)) == 0:
                x["loop"] = draw(st.integers(0, 1))
            if draw(st.integers(0, 1)) == 0:
                # a write landing while the transfer runs: second start (same length) or new mosi word
                # (offsets near the end make the second start land in the last busy / first idle cycles: back-to-back)
                x["over"] = [draw(st.one_of(st.integers(0, (x["len"] + 2) * div + 2),
                                            st.integers(max(0, x["len"] * div - 2), (x["len"] + 2) * div + 2),
                                            *([st.integers(max(0, x["len"] * div + div // 2 - 3), x["len"] * div + div + div // 2 + 1)] * 3))),
                             draw(st.sampled_from(["start", "start", "mosi"])), draw(st.integers(0, (1 << dw) - 1)),
                             draw(st.sampled_from([1, 1, 2, 4, 8]))]          # number of consecutive start writes
            x["poll_gap"] = draw(st.sampled_from([0, 0, 1, 2, 5]))
            xfers.append(x)
        return {"dw": dw, "mode": mode, "ncs": ncs, "div0": div0, "psel": psel, "xfers": xfers,
                "manual": draw(st.integers(0, 7)) == 0, "garble": draw(st.booleans())}
    return case()


def run_spim(case):
    from migen import Record
    from litex.soc.cores.spi.spi_master import SPIMaster
    dw, mode, ncs = case["dw"], case["mode"], case["ncs"]
    pads = Record([("clk", 1), ("cs_n", ncs), ("mosi", 1), ("miso", 1)])
    core = SPIMaster(pads, data_width=dw, sys_clk_freq=case["div0"] * 1000000, spi_clk_freq=1000000, with_csr=True, mode=mode)
    core.add_clk_divider()
    partner = periph.spi_slave_partner(pads, dw)
    top = periph.csr_top(core, others=[partner])
    items = [["set", "psel", case["psel"]], ["set", "garble", int(case.get("garble", False))]]
    if case["manual"]:
        items.append(["w", "cs", 1 | (1 << 16)])
    div = case["div0"]
    limit = 40
    for x in case["xfers"]:
        if "div" in x:
            div = x["div"]
            items.append(["w", "clk_divider", div])
        if "cs" in x and not case["manual"]:
            items.append(["w", "cs", x["cs"][0] | (x["cs"][1] << 16)])
        if "loop" in x:
            items.append(["w", "loopback", x["loop"]])
        items += [["set", "resp", x["resp"]], ["w", "mosi", x["mosi"]], ["gap", x["gap"]],
                  ["w", "control", 1 | (x["len"] << 8)]]
        bound = (x["len"] + 2) * div + 8
        if "over" in x:
            at, what, v = x["over"][:3]
            burst = x["over"][3] if len(x["over"]) > 3 and what == "start" else 1
            items.append(["gap", at])
            for _ in range(burst):
                items.append(["w", "control", 1 | (x["len"] << 8)] if what == "start" else ["w", "mosi", v])
            bound = 2 * bound + burst
        items += [["gap", 2], ["wait", 2 * bound + 40], ["gap", x["poll_gap"]]]
        limit += 2 * bound + 40 + x["gap"] + x["poll_gap"] + 12
    if case["manual"]:
        items.append(["w", "cs", 1])
    limit += 2 * div + 8

    sigs = [pads.clk, pads.cs_n, pads.mosi, pads.miso, core.start, core.done, core.irq, core.miso, core.length, core.mosi,
            core.cs, core.cs_mode, core.loopback, core.clk_divider]

    class Agent:
        def __init__(self):
            self.trace = []
            self.prog = _Prog(top, items, core.done, {"resp": partner.resp, "psel": partner.sel, "garble": partner.garble}, wait_limit=3000)

        def signals(self):
            return sigs

        def step(self, t, vals):
            self.trace.append(tuple(vals))
            return self.prog.step(t, vals[5])

    ag = Agent()

    def stop(t):
        f = ag.prog.finished_at
        return f is not None and t > f + 2 * div + 6

    cyc = bench.run(top, [ag], limit, stop=stop)
    v, info = judge_spim(ag.trace, dw, mode, ncs, case["psel"])
    cls = ["spim:dw%d" % dw, "spim:" + mode, "spim:ncs%d" % ncs] + sorted(info["cls"])
    if case.get("garble"):
        cls.append("spim:miso-valid-only-around-rising-edge")
    what = "SPIMaster(data_width=%d, mode=%s, cs lines=%d, reset divider=%d)" % (dw, mode, ncs, case["div0"])
    if v:
        return bad(v[0], what + ": " + v[1], key="c19:spim:" + v[2], cls=cls, cycles=cyc)
    if (ag.prog.finished_at is None or ag.prog.timeouts) and "spim:divider-lowered-at-run-time" in cls:
        return bad("spim-divider-stall", what + ": program did not finish within %d cycles after the divider was lowered; "
                   "transfers seen: %r" % (cyc, info["xfers"]), key="c19:spim:divider-shrink-stall", cls=cls, cycles=cyc)
    if ag.prog.finished_at is None or ag.prog.timeouts:
        return bad("spim-stuck", what + ": program did not finish within %d cycles (done never returned); transfers seen: %r" %
                   (cyc, info["xfers"]), key="c19:spim:stuck", cls=cls, cycles=cyc)
    nt = info["n"] >= 2 and info["midphase"] >= 1
    return ok(nt=nt, cls=cls, cycles=cyc)


def judge_spim(tr, dw, mode, ncs, psel):
    """tr rows: clk, cs_n, mosi, miso, start, done, irq, miso_reg, length, mosi_reg, cs, cs_mode, loopback, divider.
    Returns ((clause, detail, key) | None, info)."""
    CLK, CSN, MOSI, MISO, START, DONE, IRQ, MISOREG, LEN, MOSIREG, CS, CSMODE, LOOP, DIV = range(14)
    n = len(tr)
    info = {"cls": set(), "n": 0, "midphase": 0, "xfers": []}
    allcs = (1 << ncs) - 1
    idle = True
    xf = None
    xfers = []
    for c in range(n):
        r = tr[c]
        if r[DONE] != int(idle and not r[START]):
            return ("spim-done", "cycle %d: done=%d while the monitor has the core %s (start=%d)" % (
                c, r[DONE], "idle" if idle else "busy", r[START]), "done"), info
        if idle:
            if r[START]:
                xf = {"a": c, "len": r[LEN], "mosi": r[MOSIREG], "cs": r[CS], "csmode": r[CSMODE], "loop": r[LOOP], "div": r[DIV],
                      "e": None, "stable": True}
                xfers.append(xf)
                idle = False
        else:
            if r[START]:
                info["cls"].add("spim:overlapping-start")
            if (r[CS], r[CSMODE], r[LOOP], r[DIV], r[LEN]) != (xf["cs"], xf["csmode"], xf["loop"], xf["div"], xf["len"]):
                xf["stable"] = False
            if r[MOSIREG] != xf["mosi"]:
                info["cls"].add("spim:mosi-rewritten-during-transfer")
            if r[IRQ]:
                xf["e"] = c
                idle = True
    info["n"] = len(xfers)
    info["xfers"] = [(x["a"], x["e"], x["len"], x["div"]) for x in xfers]
    # clock edges
    rises = [c for c in range(1, n) if tr[c][CLK] and not tr[c - 1][CLK]]
    falls = [c for c in range(1, n) if not tr[c][CLK] and tr[c - 1][CLK]]
    owned = set()
    prev_e = 0
    for i, x in enumerate(xfers):
        a, e = x["a"], x["e"]
        L, div = x["len"], x["div"]
        tag = "transfer %d (start accepted in cycle %d, length %d, divider %d, mosi %#x)" % (i, a, L, div, x["mosi"])
        if not (1 <= L <= dw) or div < 2:
            return ("spim-config", tag + ": length / divider seen by the core are not what the program wrote (1..data_width, >= 2)",
                    "config"), info
        shrunk = [c for c in range(1, a + 1) if tr[c][DIV] < tr[c - 1][DIV]]
        if shrunk:
            info["cls"].add("spim:divider-lowered-at-run-time")
        if e is None or e - a > (L + 2) * div + 8:
            took = "not finished %d cycles later" % (n - a) if e is None else "took %d cycles" % (e - a)
            if e is None and n - a <= (L + 2) * div + 8:
                break
            if shrunk:
                return ("spim-divider-stall", tag + ": %s (bound (length+2)*divider+8 = %d); the divider register was lowered from "
                        "%d to %d in cycle %d" % (took, (L + 2) * div + 8, tr[shrunk[-1] - 1][DIV], tr[shrunk[-1]][DIV], shrunk[-1]),
                        "divider-shrink-stall"), info
            return ("spim-stuck", tag + ": %s (bound (length+2)*divider+8 = %d)" % (took, (L + 2) * div + 8), "stuck"), info
        # was the start issued while the divider was mid-phase?  (phase = distance to the previous falling edge grid)
        rs = [c for c in rises if a < c <= e]
        if rs:
            # first falling edge of the internal divider after the start: df in 1..div, df == div <=> start coincided with
            # a divider wrap; anything else = command issued while the divider is mid-phase
            df = rs[0] - a - 1 - div // 2
            if df != div:
                info["midphase"] += 1
                info["cls"].add("spim:start-mid-phase")
            else:
                info["cls"].add("spim:start-at-divider-wrap")
        if i > 0 and a - prev_e <= 3:
            info["cls"].add("spim:back-to-back(start %d after end)" % (a - prev_e))
        fs = [c for c in falls if a < c <= e + 1]
        owned.update(rs)
        if len(rs) != L:
            return ("spim-clocks", tag + ": %d clock pulses (rising edges at %r)" % (len(rs), rs), "clocks"), info
        if len(fs) != L or any(f <= r_ for r_, f in zip(rs, fs)):
            return ("spim-clocks", tag + ": rising edges %r, falling edges %r" % (rs, fs), "clocks"), info
        if not x["stable"]:
            info["cls"].add("spim:config-changed-during-transfer")
            prev_e = e
            continue
        for r0, r1 in zip(rs, rs[1:]):
            if r1 - r0 != div:
                return ("spim-period", tag + ": rising edges %d and %d are %d cycles apart" % (r0, r1, r1 - r0), "period"), info
        for r_, f in zip(rs, fs):
            if f - r_ < div // 2 or (div - (f - r_)) < div // 2:
                return ("spim-duty", tag + ": clock high from %d to %d with divider %d" % (r_, f, div), "duty"), info
        # MOSI: MSB first, valid around the rising edge and held until the falling edge
        sent = []
        for r_, f in zip(rs, fs):
            vals = {tr[c][MOSI] for c in range(r_ - 1, f)}
            if len(vals) != 1:
                return ("spim-mosi-stable", tag + ": MOSI changes between cycle %d and %d (clock high)" % (r_ - 1, f), "mosi-stable"), info
            sent.append(tr[r_][MOSI])
        top_bit = (dw - 1) if mode == "raw" else (L - 1)
        exp = [(x["mosi"] >> (top_bit - k)) & 1 if top_bit - k >= 0 else 0 for k in range(L)]
        if sent != exp:
            return ("spim-mosi", tag + ": MOSI bits %r, MSB-first (%s) gives %r" % (sent, mode, exp), "mosi"), info
        # MISO capture / loopback
        for r_ in rs:
            if tr[r_ - 1][MISO] != tr[r_][MISO] and ncs == 1 and tr[r_ - 1][CSN] == 0 and tr[r_][CSN] == 0 and tr[r_ - 2][CSN] == 0:
                raise RuntimeError("C19 harness: SPI slave partner changed MISO at a rising edge (%s)" % tag)
        src = sent if x["loop"] else [tr[r_ - 1][MISO] for r_ in rs]
        word = 0
        for b in src:
            word = (word << 1) | b
        if not x["loop"] and 0 in src and 1 in src:
            info["cls"].add("spim:miso-mixed-bits")
        if e + 1 < n:
            got = tr[e + 1][MISOREG] & ((1 << L) - 1)
            if got != word:
                return ("spim-miso", tag + ": miso[%d:0] reads %#x after the transfer, the %s carried %#x" % (
                    L - 1, got, "MOSI pin (loopback)" if x["loop"] else "MISO pin at the rising edges", word), "miso"), info
        if x["loop"]:
            info["cls"].add("spim:loopback")
        # chip select framing
        if x["csmode"] == 0:
            mask = x["cs"] & allcs
            # mode-0 framing: selected from half an SPI clock before the first rising edge until half a clock after the
            # last falling edge (fs[-1] is the first cycle in which the clock is low again)
            for c in range(rs[0] - div // 2, min(n, fs[-1] + div // 2)):
                if (~tr[c][CSN]) & allcs != mask:
                    return ("spim-cs", tag + ": cs_n=%s in cycle %d, selected lines %s (clock burst %d..%d, half a clock of "
                            "setup/hold expected)" % (bin(tr[c][CSN]), c, bin(mask), rs[0], fs[-1]), "cs"), info
            lo = max(1, prev_e + 1)
            if mask and not any((tr[c][CSN] & allcs) == allcs for c in range(lo, rs[0])):
                return ("spim-cs", tag + ": chip select never released between cycle %d and the first clock at %d" % (lo, rs[0]), "cs"), info
            rel = [c for c in range(fs[-1], min(n, e + div + 4)) if (tr[c][CSN] & allcs) == allcs]
            if not rel and e + div + 4 <= n:
                return ("spim-cs", tag + ": chip select not released within divider+4 cycles after the end (%d)" % e, "cs"), info
            if mask == 0:
                info["cls"].add("spim:no-cs-selected")
            if mask & (mask - 1):
                info["cls"].add("spim:several-cs")
        else:
            info["cls"].add("spim:manual-cs")
            for c in range(rs[0] - 1, fs[-1] + 1):
                if (~tr[c][CSN]) & allcs != x["cs"] & allcs:
                    return ("spim-cs", tag + ": manual mode, cs_n=%s in cycle %d, sel=%s" % (bin(tr[c][CSN]), c, bin(x["cs"])), "cs"), info
        prev_e = e
    stray = [c for c in rises if c not in owned and not any(x["e"] is None or not x["stable"] for x in xfers)]
    if stray:
        return ("spim-clock-idle", "clock pulses outside any transfer at cycles %r (transfers %r)" % (stray[:6], info["xfers"]), "clock-idle"), info
    return None, info


# ===================================================================================== WaitTimer / timeline / PWM / Watchdog

def st_waittimer(tier):
    @st.composite
    def case(draw):
        t = draw(st.one_of(st.integers(0, 12), st.integers(0, 40), st.sampled_from([0, 1, 2, 3, 12.7, 4.999, 31, 32, 33])))
        return {"t": t, "wait": draw(bench.st_schedule()), "n": draw(st.integers(20, 160)),
                "hold": draw(st.integers(0, 60))}
    return case()


def run_waittimer(case):
    from litex.gen.genlib.misc import WaitTimer
    t = int(case["t"])
    dut = WaitTimer(case["t"])
    sched = bench.Schedule(case["wait"])
    n = case["n"] + t + 4
    hold_from = case["n"] - case["hold"]          # from here on wait stays high: the timer must finish and stay done

    def w(c):                                     # value of `wait` during cycle c
        if c == 0:
            return 0
        return 1 if c - 1 >= hold_from else sched.bit(c - 1)

    drv = bench.Driver(lambda c: {dut.wait: w(c + 1)})
    probe = bench.Probe([dut.done])
    cyc = bench.run(dut, [drv, probe], n)
    rises = restarts = 0
    run = 0                                       # number of consecutive cycles with wait=1 ending at c-1
    for c, (done,) in enumerate(probe.trace):
        exp = int(run >= t)                       # done <=> wait was high during (at least) the last t cycles
        if done != exp:
            return bad("waittimer-done", "WaitTimer(%r): cycle %d done=%d; wait has been high for the last %d cycles (t=%d)" % (
                case["t"], c, done, run, t), key="c19:waittimer:done", cycles=cyc)
        if w(c):
            run += 1
            if run == t:
                rises += 1
        else:
            if 0 < run < t:
                restarts += 1
            run = 0
    if t > 0 and not probe.trace[-1][0]:
        return bad("waittimer-finish", "WaitTimer(%r): not done at the end although wait was held for %d cycles" % (case["t"], n - hold_from),
                   key="c19:waittimer:done", cycles=cyc)
    return ok(nt=bool(rises and restarts), cls=["waittimer:t=0" if t == 0 else "waittimer:t>0"] +
              (["waittimer:interrupted-count"] if restarts else []), cycles=cyc)


def st_timeline(tier):
    @st.composite
    def case(draw):
        times = sorted(draw(st.sets(st.integers(0, 20), min_size=1, max_size=5)) | {draw(st.integers(1, 20))})
        return {"times": times, "trig": draw(bench.st_schedule()), "n": draw(st.integers(30, 200))}
    return case()


def run_timeline(case):
    from migen import Module, Signal
    from litex.gen.genlib.misc import timeline
    times = case["times"]

    class Top(Module):
        def __init__(self):
            self.trigger = Signal()
            self.marks = [Signal(name="mark%d" % i) for i in range(len(times))]
            self.sync += timeline(self.trigger, [(t, [m.eq(~m)]) for t, m in zip(times, self.marks)])

    if max(times) < 1:
        return skip("timeline needs an event later than cycle 0 (Signal(max=1) is rejected by Migen)")
    dut = Top()
    sched = bench.Schedule(case["trig"])
    n = case["n"]
    quiet_from = n - max(times) - 6               # no more triggers: the sequence must run out and stop

    def trig(c):
        return 0 if (c == 0 or c - 1 >= quiet_from) else sched.bit(c - 1)

    drv = bench.Driver(lambda c: {dut.trigger: trig(c + 1)})
    probe = bench.Probe(dut.marks)
    cyc = bench.run(dut, [drv, probe], n)
    last = max(times)
    busy_until = -1                                # last cycle in which the sequencer is busy with the accepted trigger
    toggles = {}                                   # cycle -> set of marks that must differ from the previous cycle
    accepted = ignored = 0
    for c in range(n):
        if trig(c):
            if c > busy_until:
                accepted += 1
                busy_until = c + max(last, 1)
                for i, t in enumerate(times):
                    toggles.setdefault(c + t + 1, set()).add(i)
            else:
                ignored += 1
    prev = tuple(0 for _ in times)
    for c, row in enumerate(probe.trace):
        want = tuple(p ^ (1 if i in toggles.get(c, ()) else 0) for i, p in enumerate(prev))
        if row != want:
            return bad("timeline-events", "timeline(events at %r): cycle %d marks %r, expected %r (%d triggers accepted, busy until %d)" % (
                times, c, row, want, accepted, busy_until), key="c19:timeline:events", cycles=cyc)
        prev = row
    return ok(nt=accepted >= 2 and ignored >= 1, cls=["timeline:last=%s" % ("2^k-1" if (last & (last + 1)) == 0 else "other")] +
              (["timeline:trigger-while-busy"] if ignored else []), cycles=cyc)


def st_pwm(tier):
    @st.composite
    def case(draw):
        segs = []
        for _ in range(draw(st.integers(1, 4))):
            P = draw(st.one_of(st.integers(1, 12), st.integers(1, 40)))
            W = draw(st.one_of(st.integers(0, P), st.integers(0, P + 3), st.sampled_from([0, P, 1, max(0, P - 1)])))
            segs.append({"period": P, "width": W, "enable": draw(st.sampled_from([1, 1, 1, 0])),
                         "reset": draw(st.sampled_from([0, 0, 0, 1])), "extra": draw(st.integers(0, 9)),
                         "order": draw(st.permutations(["period", "width", "enable"]))})
        return {"segs": segs, "csr": draw(st.booleans())}
    return case()


def run_pwm(case):
    from litex.soc.cores.pwm import PWM
    core = PWM(with_csr=True)
    top = periph.csr_top(core)
    writes = {}
    sets = {}
    t = 2
    marks = []                                    # (cycle from which the segment's settings are all in force, end, seg)
    for sg in case["segs"]:
        for reg in sg["order"]:
            writes[t] = (reg, sg[reg])
            t += 1
        sets[t - 1] = sg["reset"]
        start = t + 1
        t += 3 * sg["period"] + 6 + sg["extra"]
        marks.append((start, t, sg))
    n = t + 2

    class Rst:
        def signals(self):
            return []

        def step(self, c, vals):
            if c in sets:
                return [core.reset.eq(sets[c])]

    probe = bench.Probe([core.pwm])
    cyc = bench.run(top, [periph.BusProgram(top, writes), Rst(), probe], n)
    pwm = [r[0] for r in probe.trace]
    cls = set()
    for start, end, sg in marks:
        P, W = sg["period"], sg["width"]
        what = "PWM(period=%d, width=%d, enable=%d, reset=%d) settled from cycle %d" % (P, W, sg["enable"], sg["reset"], start)
        lo = start + P + 3                          # one full period after the last register change
        win = pwm[lo:end]
        if not sg["enable"]:
            cls.add("pwm:disabled")
            if any(win):
                return bad("pwm-disabled", what + ": output high while disabled: %r" % win, key="c19:pwm:disabled", cycles=cyc)
            continue
        if sg["reset"]:
            cls.add("pwm:reset-held")
            # counter held at 0: output is high iff width > 0
            if any(v != int(W > 0) for v in win):
                return bad("pwm-reset", what + ": output %r while the counter is held in reset" % win, key="c19:pwm:reset", cycles=cyc)
            continue
        high = min(W, P)
        for i in range(len(win) - P):
            if win[i] != win[i + P]:
                return bad("pwm-period", what + ": output not periodic with the programmed period: %r" % win, key="c19:pwm:period", cycles=cyc)
        if len(win) >= P:
            per = win[:P]
            rises = sum(1 for i in range(P) if per[i] and not per[i - 1])
            if sum(per) != high or rises != (1 if 0 < high < P else 0):
                return bad("pwm-width", what + ": one period of the output is %r, expected %d high and %d low cycles" % (per, high, P - high),
                           key="c19:pwm:width", cycles=cyc)
        cls.add("pwm:width=0" if W == 0 else ("pwm:width>=period" if W >= P else "pwm:0<width<period"))
    return ok(nt=len(case["segs"]) >= 2 and "pwm:0<width<period" in cls, cls=sorted(cls), cycles=cyc)


def st_watchdog(tier, probe=None):
    @st.composite
    def case(draw):
        width = draw(st.sampled_from([32, 32, 8, 16]))
        top = (1 << width) - 1
        val = st.one_of(st.integers(0, 10), st.integers(0, 10), st.integers(0, 30), st.sampled_from([top, 1]))
        gap = st.one_of(st.integers(0, 3), st.integers(0, 3), st.integers(0, 25))
        ops = []
        ctrl = {"enable": 0, "reset": 0, "pause": 0}
        for _ in range(draw(st.integers(4, 24))):
            k = draw(st.sampled_from(["cycles", "feed", "feed", "ctrl", "ctrl", "ctrl", "halt", "halt", "clr", "ien"]))
            if k == "cycles":
                ops.append([draw(gap), "cycles", draw(val) & top])
            elif k in ("feed", "ctrl"):
                if k == "ctrl":
                    f = draw(st.sampled_from(["enable", "enable", "reset", "pause", "pause"]))
                    ctrl[f] ^= 1
                v = (1 if k == "feed" or draw(st.integers(0, 3)) == 0 else 0) | (ctrl["enable"] << 8) | (ctrl["reset"] << 16) | (ctrl["pause"] << 24)
                ops.append([draw(gap), "control", v])
            elif k == "halt":
                ops.append([draw(gap), "halt", draw(st.sampled_from([1, 1, 0]))])
            elif k == "clr":
                ops.append([draw(gap), "ev_pending", 1])
            else:
                ops.append([draw(gap), "ev_enable", draw(st.integers(0, 1))])
        # epilogue: load a short time-out, enable with reset mode, let it expire: event and reset must come
        C = draw(st.integers(0, 9))
        delay = draw(st.integers(1, 6)) if probe != "delay0" else 0
        ops += [[draw(gap), "halt", 0], [0, "cycles", C], [0, "control", 1 | (1 << 8) | (1 << 16)]]
        return {"width": width, "delay": delay, "ops": ops, "tail": C + delay + 6, "probe": probe}
    return case()


def run_watchdog(case):
    from migen import Signal
    from litex.soc.cores.watchdog import Watchdog
    width, delay = case["width"], case["delay"]
    rst = Signal()
    halted = Signal()
    core = Watchdog(width=width, crg_rst=rst, reset_delay=delay, halted=halted)
    top = periph.csr_top(core)
    sched, tend = periph.schedule_ops(case["ops"])
    writes = {t: (op[1], op[2]) for t, op in sched.items() if op[1] != "halt"}
    halts = {t: op[2] for t, op in sched.items() if op[1] == "halt"}
    n = tend + case["tail"] + 4

    class Halt:
        def signals(self):
            return []

        def step(self, c, vals):
            if c in halts:
                return [halted.eq(halts[c])]

    probe = bench.Probe([core._remaining.status, core.ev.wdt.trigger, core.ev.wdt.pending, core.ev.irq, rst])
    regs = bench.Probe([core._cycles.storage, core._control.storage, halted])
    cyc = bench.run(top, [periph.BusProgram(top, writes), Halt(), probe, regs], n)
    eff = {}
    for t, op in sched.items():
        eff.setdefault(t + (1 if op[1] == "halt" else 2), []).append((op[1], op[2]))
    cycles = ctrl = ien = 0
    halt_in = 0
    remaining = execute = 0
    trig_d = pending = 0
    wait_run = 0
    wait_prev = 0
    crg_bad = None
    paused = 0
    timeouts = feeds_running = saturated = 0
    exp = []
    strict = case.get("probe")
    for c in range(len(probe.trace)):
        feed = clr = False
        for k, v in eff.get(c, ()):
            if k == "cycles":
                cycles = v
            elif k == "control":
                ctrl = v
                feed = bool(v & 1)                 # pulse field: only in the cycle of the write strobe
            elif k == "halt":
                halt_in = v
            elif k == "ev_pending":
                clr = bool(v & 1)
            elif k == "ev_enable":
                ien = v & 1
        if regs.trace[c] != (cycles, ctrl & 0x1010101, halt_in):
            raise RuntimeError("C19 harness: CSR write timing assumption broken in cycle %d: %r, expected %r" % (
                c, regs.trace[c], (cycles, ctrl & 0x1010101, halt_in)))
        enable = ((ctrl >> 8) & 1) & (1 - (halt_in & ((ctrl >> 24) & 1)))
        if ((ctrl >> 8) & 1) and not enable and remaining:
            paused += 1
        rmode = (ctrl >> 16) & 1
        trig = enable & execute
        wait = enable & execute & rmode
        # "Reset SoC when watchdog times out": the request must be up once the time-out condition (enabled, expired, reset
        # mode) has been held for reset_delay cycles and still holds, and must be down unless it was held during the last
        # reset_delay cycles (reset_delay = 0: unless it holds now or held in the previous cycle); the cycle in which the
        # condition has just gone away is left open
        got_rst = probe.trace[c][4]
        must1 = bool(wait) and wait_run >= delay
        must0 = (wait_run < delay) if delay >= 1 else (not wait and not wait_prev)
        if ((must1 and not got_rst) or (must0 and got_rst)) and crg_bad is None:
            crg_bad = (c, "Watchdog(width=%d, reset_delay=%d, crg_rst=Signal()): cycle %d crg_rst=%d; enable=%d, timed out=%d, reset "
                       "mode=%d, condition held for the last %d cycles" % (width, delay, c, got_rst, enable, execute, rmode, wait_run),
                       "c19:watchdog:reset-delay-0" if (delay == 0 and must0) else "c19:watchdog:crg-reset")
        exp.append((remaining, trig, pending, pending & ien, got_rst))
        wait_run = wait_run + 1 if wait else 0
        wait_prev = wait
        npend = 0 if clr else pending
        if trig and not trig_d:
            npend = 1
            timeouts += 1
        pending, trig_d = npend, trig
        if feed:
            if enable and remaining not in (0, cycles):
                feeds_running += 1
            remaining = cycles
        elif enable:
            execute = int(remaining == 0)
            if remaining != 0:
                remaining -= 1                      # one step per enabled cycle
            else:
                saturated += 1                      # stays at zero, never wraps
    cls = ["watchdog:w%d" % width, "watchdog:delay%d" % delay]
    i = _first_diff(exp, probe.trace)
    if crg_bad is not None and (i is None or crg_bad[0] < i):
        return bad("watchdog-crg-reset", crg_bad[1], key=crg_bad[2], cls=cls, cycles=cyc)
    if i is not None:
        names = ["remaining", "timeout-event", "pending", "irq", "crg-reset"]
        j = _first_diff(exp[i], probe.trace[i])
        lo = max(0, i - 3)
        return bad("watchdog-" + names[j], "Watchdog(width=%d, reset_delay=%d): cycle %d %s is %d, expected %d; (remaining, event, pending, "
                   "irq, crg_rst) trace[%d:%d] got %r expected %r" % (width, delay, i, names[j], probe.trace[i][j], exp[i][j], lo, i + 1,
                                                                        probe.trace[lo:i + 1], exp[lo:i + 1]),
                   key="c19:watchdog:" + names[j], cls=cls, cycles=cyc)
    if not probe.trace[-1][4]:
        return bad("watchdog-finish", "Watchdog: the final time-out with reset mode did not raise crg_rst", key="c19:watchdog:crg-reset",
                   cls=cls, cycles=cyc)
    if feeds_running:
        cls.append("watchdog:fed-while-counting")
    if saturated:
        cls.append("watchdog:saturated-at-zero")
    if paused:
        cls.append("watchdog:paused-while-cpu-halted")
    if timeouts >= 2:
        cls.append("watchdog:several-timeouts")
    return ok(nt=bool(feeds_running and saturated), cls=cls, cycles=cyc)


# ===================================================================================== I2C master

I2C_ACK, I2C_READ, I2C_WRITE, I2C_START, I2C_STOP, I2C_IDLE = (1 << i for i in range(8, 14))


def st_i2c(tier, busy=False):
    @st.composite
    def case(draw):
        load = draw(st.sampled_from([1, 1, 2, 2, 3, 5, 8]))
        byte = st.one_of(st.integers(0, 255), st.sampled_from([0x00, 0xff, 0x55, 0xaa, 0x80, 0x01]))
        lat = st.one_of(st.just(0), st.integers(0, 3), st.integers(0, 2 * load + 4))
        cmds = []
        if not busy and draw(st.integers(0, 3)) > 0:
            # protocol-shaped: START (addr) (WRITE|READ)* [RESTART ...] STOP, every command after idle was read back
            mode = "seq"
            for _ in range(draw(st.integers(1, 2))):
                cmds.append(["start", 0, draw(lat)])
                nb = draw(st.integers(1, 3))
                for i in range(nb):
                    if i == 0 or draw(st.booleans()):
                        cmds.append(["write", draw(byte), draw(lat), draw(st.sampled_from([1, 1, 1, 0]))])     # slave acks?
                    else:
                        cmds.append(["read", draw(byte), draw(lat), draw(st.integers(0, 1))])                  # master acks?
                    if i < nb - 1 and draw(st.integers(0, 3)) == 0:
                        cmds.append(["start", 0, draw(lat)])                                                   # repeated START
                        cmds.append(["write", draw(byte), draw(lat), 1])
                cmds.append(["stop", 0, draw(lat)])
        else:
            # arbitrary, also nonsensical, command orders: legality and progress only.  "any": each command is written after
            # idle was read back; "busy": at arbitrary times, also while the previous one runs (own sub-check, finding
            # c19:i2c:command-while-busy)
            mode = "busy" if busy else "any"
            for _ in range(draw(st.integers(2, 10))):
                k = draw(st.sampled_from(["start", "stop", "write", "read"]))
                cmds.append([k, draw(byte), draw(st.one_of(st.integers(0, 6), st.integers(0, 20 * (load + 1)))),
                             draw(st.integers(0, 1))])
        return {"load": load, "mode": mode, "cmds": cmds}
    return case()


def i2c_expect(cmds):
    """(token list, slave script bits {slot: pull low}, number of slots) for a protocol-shaped command list.
    slot = number of SCL falling edges so far."""
    toks = []
    script = {}
    falls = 0
    scl = 1
    for i, c in enumerate(cmds):
        k = c[0]
        if k == "start":
            toks.append("S")
            scl = 1
        elif k == "stop":
            toks.append("P")
            scl = 1
        elif k == "write":
            b, slave_ack = c[1], c[3]
            ack_slot = falls + scl + 8
            if slave_ack:
                script[ack_slot] = 1
            toks.append(("B", b, 0 if slave_ack else 1))
            falls = ack_slot + 1
            scl = 0
        elif k == "read":
            b, master_ack = c[1], c[3]
            for j in range(8):
                if not (b >> (7 - j)) & 1:
                    script[falls + j] = 1
            toks.append(("B", b, 0 if master_ack else 1))
            falls += 9
            scl = 0
    return toks, script, falls + 2


def i2c_parse(scl, sda):
    """pin-level parser: returns (tokens, violations).  tokens: "S", "P", ("B", byte, ackbit), ("partial", nbits)."""
    toks, viol = [], []
    bits = []
    took = False                 # a bit was sampled at the rising edge of the current high phase
    for c in range(1, len(scl)):
        ds, dd = scl[c] != scl[c - 1], sda[c] != sda[c - 1]
        if ds and dd:
            viol.append((c, "SCL and SDA change in the same cycle"))
        if ds:
            if scl[c]:
                bits.append(sda[c])
                took = True
                if len(bits) == 9:
                    b = 0
                    for x in bits[:8]:
                        b = (b << 1) | x
                    toks.append(("B", b, bits[8]))
                    bits = []
                    took = False
            else:
                took = False
        elif dd and scl[c]:
            # START / STOP: the bit sampled at this high phase's rising edge belongs to the condition, not to data
            if took and bits:
                bits.pop()
            took = False
            if bits:
                toks.append(("partial", len(bits)))
                bits = []
            toks.append("P" if sda[c] else "S")
    if bits:
        toks.append(("partial", len(bits)))
    return toks, viol


def run_i2c(case):
    from migen import Module, Signal
    from migen.fhdl.specials import Tristate
    from litex.soc.cores.i2c import I2CMaster
    load, mode, cmds = case["load"], case["mode"], case["cmds"]

    class Pads:
        def __init__(self):
            self.scl = Signal(name="scl")
            self.sda = Signal(name="sda")

    pads = Pads()
    dut = I2CMaster(pads)
    dut.scl_tristate.i_mock = Signal(reset=1, name="scl_pullup")
    dut.sda_tristate.i_mock = Signal(reset=1, name="sda_others")
    if mode == "seq":
        exp_toks, script, nslots = i2c_expect(cmds)
    else:
        exp_toks, script, nslots = None, {}, 4
    partner = periph.i2c_slave_partner(pads.scl, dut.sda_tristate.i_mock, nslots)

    class Top(Module):
        def __init__(self):
            self.submodules.dut = dut
            self.submodules.partner = partner

    top = Top()
    bus = dut.bus
    code = {"start": I2C_START, "stop": I2C_STOP, "write": I2C_WRITE, "read": I2C_READ}
    step_bound = 20 * (load + 1) + 12
    script_word = sum(1 << k for k in script)

    class Agent:
        def __init__(self):
            self.trace = []
            self.pc = -1                    # -1: configuration write
            self.state = "issue"
            self.wait = 0
            self.guard = 0
            self.issued = []                # (index, step at which the wishbone write was presented)
            self.status = []                # status word read back once the command was seen finished (seq mode)
            self.stuck = None
            self.overlapped = 0
            self.finished_at = None
            self.waited = 0

        def signals(self):
            return [pads.scl, pads.sda, bus.ack, bus.dat_r, dut.i2c.start, dut.i2c.stop, dut.i2c.write, dut.i2c.read]

        def _present(self, adr, dat):
            return [bus.adr.eq(adr), bus.dat_w.eq(dat), bus.we.eq(1), bus.cyc.eq(1), bus.stb.eq(1), bus.sel.eq(0xf)]

        def step(self, t, vals):
            self.trace.append(tuple(vals))
            out = []
            if t == 0:
                out.append(partner.script.eq(script_word))
            ack, dat_r = vals[2], vals[3]
            if self.state == "ack":
                if ack:
                    out += [bus.cyc.eq(0), bus.stb.eq(0), bus.we.eq(0), bus.adr.eq(0)]
                    self.state = "idlewait"
                    self.guard = 3          # status read back through dat_r is two cycles behind the write
                    self.waited = 0
                return out
            if self.state == "idlewait":
                if self.guard:
                    self.guard -= 1
                    return out
                if mode != "busy" or self.pc < 0 or self.pc >= len(cmds) - 1:
                    if not dat_r & I2C_IDLE:
                        self.waited += 1
                        if self.waited > step_bound:
                            self.stuck = (self.pc, t)
                            self.state = "done"
                            self.finished_at = t
                        return out
                    self.status.append(dat_r)
                self.pc += 1
                if self.pc >= len(cmds):
                    self.state = "done"
                    self.finished_at = t
                    return out
                self.wait = cmds[self.pc][2]
                self.state = "issue"
            if self.state == "issue":
                if self.wait:
                    self.wait -= 1
                    return out
                if self.pc < 0:
                    out += self._present(1, load)
                else:
                    c = cmds[self.pc]
                    word = code[c[0]]
                    if c[0] == "write":
                        word |= c[1]
                    if c[0] == "read" and c[3]:
                        word |= I2C_ACK
                    out += self._present(0, word)
                    self.issued.append((self.pc, t))
                    if not dat_r & I2C_IDLE:
                        self.overlapped += 1
                self.state = "ack"
            return out

    ag = Agent()
    limit = 40 + sum(c[2] + 8 for c in cmds) + (len(cmds) + 1) * (step_bound + 8)
    cyc = bench.run(top, [ag], limit, stop=lambda t: ag.finished_at is not None and t > ag.finished_at + 4,
                    special_overrides={Tristate: periph.MockTristate})
    tr = ag.trace
    scl = [r[0] for r in tr]
    sda = [r[1] for r in tr]
    what = "I2CMaster(clock load %d), commands %r" % (load, [(c[0], c[1]) if c[0] in ("write", "read") else c[0] for c in cmds])
    cls = ["i2c:" + mode, "i2c:load=%d" % load]
    toks, viol = i2c_parse(scl, sda)
    if ag.overlapped:
        cls.append("i2c:command-written-while-busy")
    busykey = "c19:i2c:command-while-busy" if ag.overlapped else None
    if viol:
        return bad("i2c-bus-legal", "%s: cycle %d: %s (scl %r sda %r)" % (what, viol[0][0], viol[0][1], scl[viol[0][0] - 2:viol[0][0] + 2],
                                                                     sda[viol[0][0] - 2:viol[0][0] + 2]),
                   key=busykey or "c19:i2c:scl-sda-same-cycle", cls=cls, cycles=cyc)
    if ag.stuck is not None or ag.finished_at is None:
        return bad("i2c-stuck", "%s: idle not reported within %d cycles after command %r" % (what, step_bound, ag.stuck), key="c19:i2c:stuck",
                   cls=cls, cycles=cyc)
    # START / STOP conditions only on command
    cmd_cycles = {"start": [c for c, r in enumerate(tr) if r[4]], "stop": [c for c, r in enumerate(tr) if r[5]]}
    ev_cycles = {"S": [], "P": []}
    for c in range(1, len(scl)):
        if scl[c] and scl[c - 1] and sda[c] != sda[c - 1]:
            ev_cycles["P" if sda[c] else "S"].append(c)
    for name, evn in (("start", "S"), ("stop", "P")):
        for i, ec in enumerate(ev_cycles[evn]):
            if sum(1 for cc in cmd_cycles[name] if cc < ec) < i + 1:
                return bad("i2c-spurious-condition", "%s: %s condition on the bus in cycle %d without a %s command (commands at %r)" % (
                    what, name.upper(), ec, name, cmd_cycles[name]), key=busykey or "c19:i2c:spurious-" + name, cls=cls, cycles=cyc)
    if mode != "seq":
        return ok(nt=len(cmds) >= 4, cls=cls, cycles=cyc)
    # ---- protocol-shaped sequences: exact token stream, pulse widths, read-back values
    if toks != exp_toks:
        return bad("i2c-frame", "%s: bus carried %r, expected %r" % (what, toks, exp_toks), key="c19:i2c:frame", cls=cls, cycles=cyc)
    edges = [c for c in range(1, len(scl)) if scl[c] != scl[c - 1]]
    for a, b in zip(edges, edges[1:]):
        if b - a < load + 1:
            return bad("i2c-clock", "%s: SCL %s for only %d cycles (cycle %d..%d), clock load %d means >= %d" % (
                what, "high" if scl[a] else "low", b - a, a, b, load, load + 1), key="c19:i2c:clock", cls=cls, cycles=cyc)
    # set-up times in units of the programmed half period: a (repeated) START / STOP edge on SDA comes no earlier than
    # load+1 cycles after SCL went high; SDA changed for a data bit is stable for >= load cycles before SCL rises
    for c in range(1, len(sda)):
        if sda[c] == sda[c - 1]:
            continue
        if scl[c]:
            r = max([e for e in edges if e <= c and scl[e]], default=None)
            if r is not None and c - r < load + 1:
                return bad("i2c-setup", "%s: %s condition at cycle %d only %d cycles after SCL rose (clock load %d means >= %d)" % (
                    what, "STOP" if sda[c] else "START", c, c - r, load, load + 1), key="c19:i2c:setup", cls=cls, cycles=cyc)
        else:
            r = min([e for e in edges if e > c and scl[e]], default=None)
            if r is not None and r - c < load:
                return bad("i2c-setup", "%s: SDA changes at cycle %d, SCL rises %d cycles later (clock load %d means >= %d)" % (
                    what, c, r - c, load, load), key="c19:i2c:setup", cls=cls, cycles=cyc)
    # status words: status[0] after the configuration write, status[i+1] after command i
    for i, c in enumerate(cmds):
        s = ag.status[i + 1]
        if c[0] == "read" and (s & 0xff) != c[1]:
            return bad("i2c-read-data", "%s: command %d read %#04x, the slave sent %#04x" % (what, i, s & 0xff, c[1]), key="c19:i2c:read-data",
                       cls=cls, cycles=cyc)
        if c[0] == "write" and bool(s & I2C_ACK) != bool(c[3]):
            return bad("i2c-ack", "%s: command %d: ack flag %d, the slave %s" % (what, i, bool(s & I2C_ACK), "acked" if c[3] else "did not ack"),
                       key="c19:i2c:ack", cls=cls, cycles=cyc)
    if not (scl[-1] and sda[-1]):
        return bad("i2c-bus-free", "%s: bus not released after STOP (scl=%d sda=%d)" % (what, scl[-1], sda[-1]), key="c19:i2c:frame", cls=cls, cycles=cyc)
    nbytes = sum(1 for c in cmds if c[0] in ("read", "write"))
    if any(c[0] == "read" for c in cmds):
        cls.append("i2c:read")
    if sum(1 for c in cmds if c[0] == "start") > sum(1 for c in cmds if c[0] == "stop"):
        cls.append("i2c:repeated-start")
    if any(c[2] == 0 for c in cmds):
        cls.append("i2c:command-right-after-idle")
    return ok(nt=nbytes >= 2, cls=cls, cycles=cyc)


# ===================================================================================== SPISlave

def st_spis(tier):
    @st.composite
    def case(draw):
        dw = draw(st.sampled_from([8, 16, 32, 12]))
        xfers = []
        for _ in range(draw(st.integers(1, 3))):
            half = draw(st.sampled_from([4, 4, 5, 6, 9]))
            n = draw(st.one_of(st.integers(1, dw), st.sampled_from([1, dw, min(dw, 8)])))
            xfers.append({"n": n, "tx": draw(st.integers(0, (1 << n) - 1)), "resp": draw(st.integers(0, (1 << dw) - 1)),
                          "half": half, "lead": draw(st.integers(max(half, 6), 2 * half + 4)),
                          "trail": draw(st.integers(half, 2 * half + 2)), "idle": draw(st.integers(8, 20)),
                          # clock pulses of somebody else's transfer on the shared bus while this slave is deselected
                          "foreign": draw(st.sampled_from([0, 0, 1, 3, 5]))})
        return {"dw": dw, "xfers": xfers, "loopback": draw(st.integers(0, 4)) == 0}
    return case()


def run_spis(case):
    from migen import Signal
    from litex.soc.cores.spi.spi_slave import SPISlave
    dw = case["dw"]

    class Pads:
        def __init__(self):
            self.clk = Signal(name="sclk")
            self.cs_n = Signal(name="cs_n", reset=1)
            self.mosi = Signal(name="mosi")
            self.miso = Signal(name="miso")

    pads = Pads()
    dut = SPISlave(pads, dw)
    # reference mode-0 master as an open-loop waveform: rows (clk, cs_n, mosi, resp word) per cycle
    wave = [(0, 1, 0, 0)] * 6
    marks = []                      # per transfer: (cycle of cs fall, [cycles of rising edges], cycle of cs rise)
    for x in case["xfers"]:
        n, half = x["n"], x["half"]
        bits = [(x["tx"] >> (n - 1 - i)) & 1 for i in range(n)]
        wave += [(0, 1, 0, x["resp"])] * 3
        fall = len(wave)
        wave += [(0, 0, bits[0], x["resp"])] * x["lead"]
        rises = []
        for i in range(n):
            rises.append(len(wave))
            wave += [(1, 0, bits[i], x["resp"])] * half
            nxt = bits[i + 1] if i + 1 < n else bits[i]
            wave += [(0, 0, nxt, x["resp"])] * (half if i + 1 < n else x["trail"])
        rise_cs = len(wave)
        wave += [(0, 1, 0, x["resp"])] * x["idle"]
        for k_ in range(x.get("foreign", 0)):
            wave += [(1, 1, (k_ + 1) & 1, x["resp"])] * half + [(0, 1, k_ & 1, x["resp"])] * half
        wave += [(0, 1, 0, x["resp"])] * (4 if x.get("foreign") else 0)
        marks.append((fall, rises, rise_cs, len(wave) - 1))
    wave += [(0, 1, 0, 0)] * 8
    n_cyc = len(wave)

    def drive(t):
        r = wave[t + 1] if t + 1 < n_cyc else wave[-1]
        return {pads.clk: r[0], pads.cs_n: r[1], pads.mosi: r[2], dut.miso: r[3], dut.loopback: int(case["loopback"])}

    probe = bench.Probe([pads.miso, dut.start, dut.done, dut.irq, dut.mosi, dut.length])
    cyc = bench.run(dut, [bench.Driver(drive), probe], n_cyc)
    tr = probe.trace
    cls = ["spis:dw%d" % dw] + (["spis:loopback"] if case["loopback"] else [])
    what = "SPISlave(data_width=%d%s)" % (dw, ", loopback" if case["loopback"] else "")
    starts = [c for c, r in enumerate(tr) if r[1]]
    irqs = [c for c, r in enumerate(tr) if r[3]]
    if len(starts) != len(marks) or len(irqs) != len(marks):
        return bad("spis-events", "%s: %d transfers, start pulses at %r, irq pulses at %r" % (what, len(marks), starts, irqs),
                   key="c19:spis:events", cls=cls, cycles=cyc)
    for i, ((fall, rises, rise_cs, quiet_end), x) in enumerate(zip(marks, case["xfers"])):
        n = x["n"]
        tag = "%s: transfer %d (%d bits %#x, SPI clock = %d system cycles, cs low at %d)" % (what, i, n, x["tx"], 2 * x["half"], fall)
        if not (fall < starts[i] <= fall + 4) or not (rise_cs < irqs[i] <= rise_cs + 4):
            return bad("spis-events", tag + ": start pulse at %d, irq pulse at %d, cs high at %d" % (starts[i], irqs[i], rise_cs),
                       key="c19:spis:events", cls=cls, cycles=cyc)
        chk = rise_cs + 6
        got, length, done = tr[chk][4], tr[chk][5], tr[chk][2]
        if not done:
            return bad("spis-done", tag + ": done=0 six cycles after cs went high", key="c19:spis:done", cls=cls, cycles=cyc)
        if any(tr[c][2] for c in range(fall + 4, rise_cs)):
            return bad("spis-done", tag + ": done=1 during the transfer", key="c19:spis:done", cls=cls, cycles=cyc)
        if length != n:
            return bad("spis-length", tag + ": length reads %d" % length, key="c19:spis:length", cls=cls, cycles=cyc)
        if got & ((1 << n) - 1) != x["tx"]:
            return bad("spis-mosi", tag + ": received word %#x, low %d bits should be %#x" % (got, n, x["tx"]), key="c19:spis:mosi", cls=cls, cycles=cyc)
        if x.get("foreign"):
            cls.append("spis:foreign-clock-while-deselected")
            if (tr[quiet_end][4], tr[quiet_end][5], tr[quiet_end][2]) != (got, length, 1):
                return bad("spis-deselected", tag + ": %d clock pulses while chip-select is high changed the received word / length / done from "
                           "%#x / %d / 1 to %#x / %d / %d" % (x["foreign"], got, length, tr[quiet_end][4], tr[quiet_end][5], tr[quiet_end][2]),
                           key="c19:spis:deselected", cls=cls, cycles=cyc)
        for r in rises:
            high = {tr[c][0] for c in range(r - 1, r + x["half"])}
            if len(high) != 1:
                return bad("spis-miso-stable", tag + ": MISO changes while SCLK is high (cycles %d..%d); mode 0 shifts on the falling edge" % (
                    r, r + x["half"] - 1), key="c19:spis:miso-stable", cls=cls, cycles=cyc)
        sampled = [tr[r - 1][0] for r in rises]          # the master samples just before it raises the clock
        if case["loopback"]:
            exp = [(x["tx"] >> (n - 1 - k)) & 1 for k in range(n)]
        else:
            exp = [(x["resp"] >> (dw - 1 - k)) & 1 for k in range(n)]
        if sampled != exp:
            return bad("spis-miso", tag + ": MISO at the rising edges %r, expected %r (MSB first)" % (sampled, exp), key="c19:spis:miso",
                       cls=cls, cycles=cyc)
        if x["half"] == 4:
            cls.append("spis:8-cycles-per-clock")
    return ok(nt=len(marks) >= 2, cls=sorted(set(cls)), cycles=cyc)


# ===================================================================================== UART core (FIFOs, status, events) with a stub PHY

def st_uartcore(tier, flush=False):
    @st.composite
    def case(draw):
        depth_tx = draw(st.sampled_from([2, 4, 16]))
        depth_rx = draw(st.sampled_from([2, 4, 16]))
        gap = st.one_of(st.integers(0, 2), st.integers(0, 2), st.integers(0, 12))
        ops = []
        for _ in range(draw(st.integers(6, 16 if flush else 40))):
            k = draw(st.sampled_from(["tx", "tx", "tx", "burst", "rd", "clr", "clr", "ien"]))
            if k == "tx":
                ops.append([draw(gap), "tx", draw(st.integers(0, 255))])
            elif k == "burst":
                ops += [[0, "tx", draw(st.integers(0, 255))] for _ in range(draw(st.integers(2, 5)))]
            elif k == "rd":
                ops.append([draw(gap), "rd", 0])
            elif k == "clr":
                ops.append([draw(gap), "clr", draw(st.sampled_from([2, 2, 3, 1]))])
            else:
                ops.append([draw(gap), "ien", draw(st.integers(0, 3))])
        if flush:
            depth_tx = min(depth_tx, 4)          # keeps the drain phase (and the shrinker's re-runs) short
            # PHY not ready for longer than the flush time-out (16 cycles), then ready for a few cycles, ...
            txs = ["rle", [[b, draw(st.integers(17, 30)) if b == 0 else draw(st.integers(1, 6))] for _ in range(3) for b in (0, 1)]]
            return {"dtx": depth_tx, "drx": depth_rx, "rx_we": draw(st.booleans()), "ops": ops, "rx": [], "rxs": ["const", 1],
                    "txs": txs, "flush": True}
        return {"dtx": depth_tx, "drx": depth_rx, "rx_we": draw(st.booleans()), "ops": ops,
                "rx": draw(st.lists(st.integers(0, 255), min_size=0, max_size=20)), "rxs": draw(bench.st_schedule()),
                "txs": draw(bench.st_schedule()), "flush": flush}
    return case()


def run_uartcore(case):
    from litex.soc.cores.uart import UART
    core = UART(phy=None, tx_fifo_depth=case["dtx"], rx_fifo_depth=case["drx"], rx_fifo_rx_we=case["rx_we"])
    if case["flush"]:
        core.add_auto_tx_flush(sys_clk_freq=1000, timeout=0.016, interval=2)       # 16 cycles without ready -> flush
    top = periph.csr_top(core)
    sched, tend = periph.schedule_ops(case["ops"])
    regname = {"tx": "rxtx", "clr": "ev_pending", "ien": "ev_enable"}
    writes = {t: (regname[op[1]], op[2]) for t, op in sched.items() if op[1] != "rd"}
    reads = {t: "rxtx" for t, op in sched.items() if op[1] == "rd"}
    main = tend + 8
    # drain phase: software pops the receive FIFO until empty, PHY always ready
    drain_ops = {}
    t = main
    for _ in range(len(case["rx"]) + 2):
        drain_ops[t] = ("ev_pending", 2)
        t += 3
    writes.update(drain_ops)
    # (auto flush: an intermittently ready PHY takes at least one byte per schedule period of <= 36 cycles)
    n = t + case["dtx"] * 3 + 40 + ((case["dtx"] + 2) * 40 if case["flush"] else 0)
    toks = [((b,), (), 0, 0) for b in case["rx"]]
    prod = bench.Producer(core.sink, toks, case["rxs"], until=main)
    cons = bench.Consumer(core.source, case["txs"], until=main if not case["flush"] else None)
    sigs = [core._rxtx.re, core._rxtx.r, core._txfull.status, core._rxtx.we, core._rxtx.w, core._rxempty.status, core.ev.rx.clear,
            core._txempty.status, core._rxfull.status, core.ev.tx.trigger, core.ev.rx.trigger, core.ev.tx.pending, core.ev.rx.pending,
            core.ev.irq, core.ev.enable.storage, core.ev.tx.clear, core.ev.pending.re, core.ev.pending.r]
    probe = bench.Probe(sigs)
    cyc = bench.run(top, [periph.BusProgram(top, writes, reads), prod, cons, probe], n)
    RE, R, TXFULL, WE, W, RXEMPTY, RXCLR, TXEMPTY, RXFULL, TTRIG, RTRIG, TPEND, RPEND, IRQ, IEN, TXCLR, PRE, PR = range(18)
    tr = probe.trace
    what = "UART(tx_fifo_depth=%d, rx_fifo_depth=%d, rx_fifo_rx_we=%r%s)" % (case["dtx"], case["drx"], case["rx_we"],
                                                                             ", auto tx flush" if case["flush"] else "")
    cls = ["uart:dtx%d" % case["dtx"], "uart:drx%d" % case["drx"]] + (["uart:auto-flush"] if case["flush"] else []) + \
          (["uart:pop-on-read"] if case["rx_we"] else ["uart:pop-on-pending-clear"])
    accepted, dropped, popped = [], 0, []
    tp = rp = 0
    ttd = rtd = 0
    for c, r in enumerate(tr):
        if r[TTRIG] != 1 - r[TXFULL] or r[RTRIG] != 1 - r[RXEMPTY]:
            return bad("uart-event-source", "%s: cycle %d: tx/rx event lines %d/%d but txfull=%d rxempty=%d" % (
                what, c, r[TTRIG], r[RTRIG], r[TXFULL], r[RXEMPTY]), key="c19:uart:event-source", cls=cls, cycles=cyc)
        if (r[TPEND], r[RPEND]) != (tp, rp) or r[IRQ] != int(bool((tp | (rp << 1)) & r[IEN])):
            return bad("uart-pending", "%s: cycle %d: pending tx/rx %d/%d irq %d, expected %d/%d (enable %d)" % (
                what, c, r[TPEND], r[RPEND], r[IRQ], tp, rp, r[IEN]), key="c19:uart:pending", cls=cls, cycles=cyc)
        # an event is cleared by software writing a one to its pending bit, and by nothing else
        sw_tx, sw_rx = int(bool(r[PRE] and r[PR] & 1)), int(bool(r[PRE] and r[PR] & 2))
        if (r[TXCLR], r[RXCLR]) != (sw_tx, sw_rx):
            return bad("uart-event-clear", "%s: cycle %d: clear lines of the tx/rx events are %d/%d, software's write-one-to-clear says %d/%d "
                       "(rxtx read strobe %d)" % (what, c, r[TXCLR], r[RXCLR], sw_tx, sw_rx, r[WE]), key="c19:uart:event-clear", cls=cls, cycles=cyc)
        ntp = 0 if sw_tx else tp
        nrp = 0 if sw_rx else rp
        if r[TTRIG] and not ttd:
            ntp = 1
        if r[RTRIG] and not rtd:
            nrp = 1
        tp, rp, ttd, rtd = ntp, nrp, r[TTRIG], r[RTRIG]
        if r[RE]:
            if r[TXFULL]:
                dropped += 1
            else:
                accepted.append(r[R])
        if (r[RXCLR] or (case["rx_we"] and r[WE])) and not r[RXEMPTY]:
            popped.append(r[W])
    sent = [tok[0][0] for _, tok in cons.got]
    pushed = [tok[0][0] for _, tok in prod.sent]
    if cons.hold_violations and not case["flush"]:
        return bad("uart-tx-hold", "%s: source endpoint: %s" % (what, cons.hold_violations[0],), key="c19:uart:tx-hold", cls=cls, cycles=cyc)
    if case["flush"]:
        it = iter(accepted)
        if not all(any(b == a for a in it) for b in sent):
            return bad("uart-tx-order", "%s: bytes handed to the PHY %r are not a subsequence of the bytes written while not full %r" % (
                what, sent, accepted), key="c19:uart:auto-flush-duplicate", cls=cls, cycles=cyc)
    elif sent != accepted:
        return bad("uart-tx-order", "%s: bytes written while txfull=0: %r, bytes handed to the PHY: %r" % (what, accepted, sent),
                   key="c19:uart:tx-order", cls=cls, cycles=cyc)
    if pushed != case["rx"]:
        return bad("uart-rx-stuck", "%s: the receive path accepted only %d of %d bytes although software drained it" % (
            what, len(pushed), len(case["rx"])), key="c19:uart:rx-stuck", cls=cls, cycles=cyc)
    if popped != pushed:
        return bad("uart-rx-order", "%s: bytes from the PHY %r, bytes popped by software (rxtx while rxempty=0) %r" % (what, pushed, popped),
                   key="c19:uart:rx-order", cls=cls, cycles=cyc)
    last = tr[-1]
    if not last[TXEMPTY] or last[TXFULL] or not last[RXEMPTY] or last[RXFULL]:
        return bad("uart-idle", "%s: at the end txempty=%d txfull=%d rxempty=%d rxfull=%d" % (what, last[TXEMPTY], last[TXFULL], last[RXEMPTY],
                                                                                          last[RXFULL]), key="c19:uart:idle", cls=cls, cycles=cyc)
    if dropped:
        cls.append("uart:write-while-full")
    if any(r[RXFULL] for r in tr):
        cls.append("uart:rx-fifo-full")
    if case["flush"]:
        if len(sent) < len(accepted):
            cls.append("uart:bytes-flushed")
        if sent:
            cls.append("uart:phy-ready-again-after-flush")
        return ok(nt=len(sent) < len(accepted) and len(sent) >= 1, cls=cls, cycles=cyc)
    return ok(nt=len(accepted) >= 3 and len(pushed) >= 3, cls=cls, cycles=cyc)


# ===================================================================================== registry

def subchecks():
    return [
        Sub("timer", run_timer, strategy=st_timer, examples=(264, 8000), shards=(6, 16),
            rule="Timer: CSR histories of load/reload/en/update_value/pending/enable writes; count, zero event, one-shot "
                 "after exactly `load` cycles, reload, stop, latch, uptime; nt = reload at zero and a disable"),
        Sub("uart-tx", run_uart_tx, strategy=st_uart_tx, examples=(260, 6000), shards=(10, 16),
            rule="RS232PHYTX / RS232PHY: bytes, gaps 0.. between offers, tuning words with 4..48 (thorough 400) cycles per bit; "
                 "per-frame monitor: start, 8 data LSB first, stop, every cell boundary within 1 cycle of start + k*2^32/tw, "
                 "one handshake per byte, idle 1; nt = >= 2 bytes with a back-to-back offer"),
        Sub("uart-rx", run_uart_rx, strategy=st_uart_rx, examples=(264, 6000), shards=(12, 16),
            rule="RS232PHYRX: fractional-time line driver, eps within the measured envelope, start phase n/16 cycle, gaps 0..3 bit, "
                 "every good frame is delivered once, in order, during its own stop bit; framing errors and breaks must not "
                 "deliver and must not disturb later frames; nt = |eps| >= 1.5 % or gap 0"),
        Sub("waittimer", run_waittimer, strategy=st_waittimer, examples=(160, 3000), shards=(2, 16),
            rule="WaitTimer(t): done <=> wait was high during the last t cycles; generated wait schedules, final hold; nt = a count "
                 "interrupted before completion and a completed one"),
        Sub("timeline", run_timeline, strategy=st_timeline, examples=(120, 2000), shards=(2, 16),
            rule="timeline(trigger, events): each accepted trigger fires every event once at its offset, triggers while busy are "
                 "ignored, the sequencer stops; nt = >= 2 accepted triggers and one ignored"),
        Sub("pwm", run_pwm, strategy=st_pwm, examples=(160, 3000), shards=(2, 16),
            rule="PWM behind its CSRs: settings rewritten at run time; in every settled interval the output has the programmed period "
                 "and min(width, period) high cycles per period, is low when disabled; nt = >= 2 settings, one with 0 < width < period"),
        Sub("watchdog", run_watchdog, strategy=st_watchdog, examples=(200, 5000), shards=(4, 16),
            rule="Watchdog behind its CSRs (+ halted input): cycles/feed/enable/reset/pause histories; remaining count (feed, one step "
                 "per enabled cycle, saturation at 0, pause), time-out event, pending/irq, crg_rst after reset_delay; nt = fed while "
                 "counting and saturated at zero"),
        Sub("watchdog-delay0", run_watchdog, strategy=lambda tier: st_watchdog(tier, probe="delay0"), examples=(32, 400), shards=(1, 16),
            rule="as watchdog with reset_delay=0 (the constructor default), kept apart because of finding c19:watchdog:reset-delay-0"),
        Sub("i2c", run_i2c, strategy=st_i2c, examples=(208, 5000), shards=(8, 16),
            rule="I2CMaster at its pads (mock open-drain tristates, scripted Migen slave): protocol-shaped transactions issued like "
                 "software (status polled, 0.. cycles latency) must put exactly START / bytes MSB first + ack / repeated START / STOP "
                 "on the bus with SCL phases >= load+1, report read data and acks; arbitrary command sequences at arbitrary times "
                 "(also while busy) must keep SDA stable while SCL changes, emit START/STOP only on command and return to idle; "
                 "nt = transaction with >= 2 bytes (seq) / >= 4 commands (any)"),
        Sub("spis", run_spis, strategy=st_spis, examples=(200, 4000), shards=(4, 16),
            rule="SPISlave driven by a reference mode-0 master waveform at >= 8 system cycles per SPI clock: received word, length, "
                 "MISO bits MSB first (or loopback), one start and one irq pulse per transfer, done between transfers; nt = >= 2 transfers"),
        Sub("uart-core", run_uartcore, strategy=st_uartcore, examples=(144, 4000), shards=(6, 16),
            rule="UART core behind its CSRs with a stub PHY (stream agents): bytes written while txfull=0 reach the PHY once and in "
                 "order, bytes from the PHY are popped in order (pending-clear or read strobe), event lines follow the FIFO flags, "
                 "pending/irq model, everything drains; nt = >= 3 bytes each way"),
        Sub("uart-core-flush", run_uartcore, strategy=lambda tier: st_uartcore(tier, flush=True), examples=(32, 800), shards=(1, 16),
            rule="as uart-core with add_auto_tx_flush (16 cycles): bytes reaching the PHY are a subsequence of the accepted ones, "
                 "everything drains even if the PHY never becomes ready (kept apart because of finding c19:uart:auto-flush-duplicate); "
                 "nt = some bytes flushed and some delivered"),
        Sub("i2c-busy", run_i2c, strategy=lambda tier: st_i2c(tier, busy=True), examples=(48, 800), shards=(1, 16),
            rule="as i2c/any, but commands are written at arbitrary times, also while the previous one is running (kept apart because "
                 "of finding c19:i2c:command-while-busy)"),
        Sub("spim-divider", run_spim, strategy=lambda tier: st_spim(tier, shrink_div=True), examples=(48, 800), shards=(1, 16),
            rule="as spim, but the divider register is also lowered between transfers (kept apart because of finding "
                 "c19:spim:divider-shrink-stall, so that the search in 'spim' continues)"),
        Sub("spim", run_spim, strategy=st_spim, examples=(280, 8000), shards=(10, 16),
            rule="SPIMaster behind its CSRs with an ideal mode-0 slave (Migen) on the pads: data_width 8..32, raw/aligned, 1..3 cs "
                 "lines, divider 2..64 raised at run time, loopback, start offsets swept over the divider phase, second start / "
                 "mosi rewrite during a transfer, next start 0..5 cycles after done; nt = >= 2 transfers, one started mid-phase"),
    ]

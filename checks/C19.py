"""C19 - Serial peripherals and timers produce exact waveforms and always finish."""
from hypothesis import strategies as st

from vlib.runner import Sub, ok, bad, skip
from vlib import bench, periph

RULE = ("every case builds a fresh core, drives a generated command history and judges pin/CSR-level traces against an "
        "independent statement of the externally defined behaviour; every history ends with a bounded return-to-idle "
        "requirement; non-trivial = (timer) history with a reload at zero and a disable, (uart) >= 2 frames back-to-back / "
        "RX with |eps| >= 1.5 %, (spi) a start issued while the divider is mid-phase plus a second transfer, (i2c) a "
        "complete START..STOP transaction with >= 2 bytes; distinct = canonical JSON of the case")
ASSUMPTIONS = [
    "Migen's simulator (site-packages) defines FHDL semantics",
    "CSR accesses go through a real csr_bus.CSRBank (32-bit bus) next to the core; the bank itself is C12's subject",
    "a CSR write issued in step t reaches the storage / strobes `re` in cycle t+2 (measured once per case class)",
]


def _first_diff(exp, got):
    for i, (a, b) in enumerate(zip(exp, got)):
        if a != b:
            return i
    return None


# ===================================================================================== Timer

TIMER_REGS = ("load", "reload", "en", "upd", "clr", "ien", "uplatch")


def st_timer(tier):
    small = st.integers(0, 12)

    @st.composite
    def case(draw):
        width = draw(st.sampled_from([32, 32, 32, 8, 16, 5, 64 if False else 32]))
        top = (1 << width) - 1
        val = st.one_of(small, small, st.integers(0, 40), st.sampled_from([top, top - 1, 1 << (width - 1)]))
        gap = st.one_of(st.integers(0, 3), st.integers(0, 3), st.integers(0, 30))
        n = draw(st.integers(4, 28 if tier == "quick" else 60))
        ops = []
        for _ in range(n):
            k = draw(st.sampled_from(["load", "reload", "en", "en", "en", "upd", "upd", "clr", "ien"]))
            if k in ("load", "reload"):
                v = draw(val) & top
            elif k == "upd":
                v = draw(st.integers(0, 1))
            elif k == "clr":
                v = draw(st.sampled_from([1, 1, 0]))
            else:
                v = draw(st.integers(0, 1))
            ops.append([draw(gap), k, v])
        uptime = draw(st.booleans())
        if uptime:
            for _ in range(draw(st.integers(1, 3))):
                ops.insert(draw(st.integers(0, len(ops))), [draw(gap), "uplatch", 1])
        # epilogue: documented one-shot recipe (disable, load, reload=0, enable) and then rest
        L = draw(st.integers(0, 20))
        ops += [[draw(gap), "en", 0], [0, "load", L], [0, "reload", 0], [draw(st.integers(0, 2)), "en", 1]]
        return {"width": width, "uptime": uptime, "ops": ops, "tail": L + 6}
    return case()


def run_timer(case):
    from litex.soc.cores.timer import Timer
    width = case["width"]
    core = Timer(width=width)
    if case["uptime"]:
        core.add_uptime()
    top = periph.csr_top(core)
    regname = {"load": "load", "reload": "reload", "en": "en", "upd": "update_value", "clr": "ev_pending",
               "ien": "ev_enable", "uplatch": "uptime_latch"}
    sched, tend = periph.schedule_ops(case["ops"])
    writes = {t: (regname[op[1]], op[2]) for t, op in sched.items()}
    ncyc = tend + case["tail"] + 4
    sigs = [core.ev.zero.trigger, core._value.status, core.ev.zero.pending, core.ev.irq]
    if case["uptime"]:
        sigs.append(core._uptime_cycles.status)
    probe = bench.Probe(sigs)
    cyc = bench.run(top, [periph.BusProgram(top, writes), probe], ncyc)

    # ---- reference: documented behaviour, cycle alignment as stated in ASSUMPTIONS
    eff = {}                      # cycle -> list of (kind, value) taking effect in that cycle
    for t, op in sched.items():
        eff.setdefault(t + 2, []).append((op[1], op[2]))
    load = reload_ = en = ien = 0
    value = status = 0
    trig_d = pending = 0
    upstat = 0
    reloads = disables = oneshots = 0
    was_en = 0
    exp = []
    for c in range(len(probe.trace)):
        upd = clr = upl = False
        for k, v in eff.get(c, ()):
            if k == "load":
                load = v
            elif k == "reload":
                reload_ = v
            elif k == "en":
                en = v & 1
            elif k == "ien":
                ien = v & 1
            elif k == "upd":
                upd = True            # "a write to this register latches" - any value
            elif k == "clr":
                clr = bool(v & 1)     # write 1 to clear
            elif k == "uplatch":
                upl = True
        trig = int(value == 0)
        row = [trig, status, pending, pending & ien]
        if case["uptime"]:
            row.append(upstat)
        exp.append(tuple(row))
        if was_en and not en:
            disables += 1
        was_en = en
        # next state
        if upd:
            status = value
        if upl:
            upstat = c                # free-running cycle counter since power-up
        npend = pending
        if clr:
            npend = 0
        if trig and not trig_d:
            npend = 1                 # event on the rising edge of "count is zero"
        pending, trig_d = npend, trig
        if en:
            if value == 0:
                if reload_ != 0:
                    reloads += 1
                value = reload_       # "when the Timer reaches 0 it is reloaded with reload"; reload 0 = stop
            else:
                value -= 1            # one step per enabled cycle
        else:
            value = load              # "when (re-)enabled it is loaded with load"
    cls = ["timer:w%d" % width] + (["timer:uptime"] if case["uptime"] else [])
    i = _first_diff(exp, probe.trace)
    if i is not None:
        names = ["zero-trigger", "value-latch", "pending", "irq", "uptime"]
        j = _first_diff(exp[i], probe.trace[i])
        lo = max(0, i - 3)
        return bad("timer-" + names[j],
                   "Timer(width=%d): cycle %d %s is %d, documented behaviour gives %d (writes take effect 2 cycles after "
                   "the listed step; trace[%d:%d] got %r expected %r)" %
                   (width, i, names[j], probe.trace[i][j], exp[i][j], lo, i + 1, probe.trace[lo:i + 1], exp[lo:i + 1]),
                   key="c19:timer:" + names[j], cls=cls, cycles=cyc)
    if reloads:
        cls.append("timer:reload-at-zero")
    if disables:
        cls.append("timer:disable")
    return ok(nt=bool(reloads and disables), cls=cls, cycles=cyc)


# ===================================================================================== UART TX

def _st_tuning(tier, tmin, tmax):
    """tuning words with bit periods T = 2^32/tw in [tmin, tmax] cycles: integer, fractional and baud-rate derived"""
    lo, hi = int(2 ** 32 / tmax), int(2 ** 32 / tmin)
    by_period = st.integers(int(tmin * 16) + 1, int(tmax * 16)).map(lambda x: int(2 ** 32 * 16 / x))
    return st.one_of(by_period, by_period, st.integers(lo, hi),
                     st.sampled_from([int(115200 / 1e6 * 2 ** 32), int(1e6 / 12e6 * 2 ** 32), int(3e6 / 50e6 * 2 ** 32),
                                      int(921600 / 25e6 * 2 ** 32)])).filter(lambda tw: lo <= tw <= hi)


def st_uart_tx(tier):
    @st.composite
    def case(draw):
        tmax = 48 if tier == "quick" else 400
        tw = draw(_st_tuning(tier, 4, tmax))
        T = 2 ** 32 / tw
        n = draw(st.integers(1, 4))
        byte = st.one_of(st.integers(0, 255), st.sampled_from([0x00, 0xff, 0x55, 0xaa, 0x7f, 0x80, 0x01, 0xfe]))
        gap = st.one_of(st.just(0), st.just(0), st.integers(0, 3), st.integers(0, int(2 * T) + 2))
        return {"tw": tw, "dyn": draw(st.sampled_from(["const", "signal", "phy"])),
                "bytes": [draw(byte) for _ in range(n)], "gaps": [draw(st.integers(0, 6))] + [draw(gap) for _ in range(n - 1)]}
    return case()


class _TxFeeder:
    """holds valid+data until the handshake; gap g = idle cycles between a handshake and the next offer (0 = the next
    byte is valid in the cycle right after the handshake)"""

    def __init__(self, sink, data, gaps):
        self.sink, self.data, self.gaps = sink, data, gaps
        self.i = 0
        self.offering = False
        self.wait = gaps[0] if gaps else 0
        self.offers = []      # first cycle in which byte i is valid
        self.shakes = []      # cycle of the handshake

    def signals(self):
        return [self.sink.ready]

    def step(self, t, vals):
        out = []
        if self.offering and vals[0]:
            self.shakes.append(t)
            self.offering = False
            self.i += 1
            self.wait = self.gaps[self.i] if self.i < len(self.data) else 0
            out.append(self.sink.valid.eq(0))
        if not self.offering and self.i < len(self.data):
            if self.wait == 0:
                self.offering = True
                self.offers.append(t + 1)
                out = [self.sink.valid.eq(1), self.sink.data.eq(self.data[self.i])]
            else:
                self.wait -= 1
        return out


def check_tx_wave(tx, T, data, offers, shakes, what):
    """tx: line value per cycle.  Returns None or (clause, detail).  Frame: start 0, eight data bits LSB first, stop 1;
    the k-th bit boundary lies within one cycle of start + k*T (no drift); the line is 1 outside frames."""
    n = len(tx)
    c = 0
    fi = 0
    prev_end = 0.0
    if tx[0] != 1:
        return "tx-idle", "%s: line is %d in cycle 0 (idle level is 1)" % (what, tx[0])
    while c < n:
        # idle: search the next start edge
        while c < n and tx[c] == 1:
            c += 1
        if c >= n:
            break
        s = c
        if fi >= len(data):
            return "tx-spurious", "%s: start bit at cycle %d although all %d bytes were sent" % (what, s, len(data))
        if s < prev_end - 1.000001:
            return "tx-stop", "%s: frame %d starts at cycle %d, before the stop bit of the previous frame ends (%.2f)" % (
                what, fi, s, prev_end)
        if s < offers[fi] + 1 if fi < len(offers) else True:
            return "tx-spurious", "%s: start bit at cycle %d but byte %d is offered only from cycle %s" % (
                what, s, fi, offers[fi] if fi < len(offers) else "never")
        bits = [0] + [(data[fi] >> k) & 1 for k in range(8)] + [1]
        exp_edges = [k for k in range(1, 10) if bits[k] != bits[k - 1]]
        end = s + 10 * T
        last = min(n, int(end) - 1)
        got_edges = [x for x in range(s + 1, last + 1) if tx[x] != tx[x - 1]]
        sent = 0
        # decode what was actually sent (mid-bit samples) for the message
        for k in range(8):
            m = int(s + (k + 1.5) * T)
            if m < n:
                sent |= tx[m] << k
        if len(got_edges) != len(exp_edges):
            return "tx-frame", "%s: frame %d (byte %#04x) from cycle %d: %d level changes inside the frame at %r, the bit pattern " \
                               "has %d (mid-bit decode %#04x)" % (what, fi, data[fi], s, len(got_edges), got_edges, len(exp_edges), sent)
        for k, e in zip(exp_edges, got_edges):
            ideal = s + k * T
            if abs(e - ideal) > 1.000001:
                return "tx-bit-period", "%s: frame %d (byte %#04x) from cycle %d: boundary of bit cell %d at cycle %d, programmed " \
                                        "period %.4f puts it at %.2f" % (what, fi, data[fi], s, k, e, T, ideal)
        if int(end) - 1 >= n:
            return "tx-unfinished", "%s: frame %d not finished within the cycle limit" % (what, fi)
        if tx[last] != 1:
            return "tx-stop", "%s: frame %d: line low at cycle %d inside the stop bit" % (what, fi, last)
        prev_end = end
        fi += 1
        c = last + 1
    if fi != len(data):
        return "tx-missing", "%s: %d of %d bytes transmitted within the cycle limit (stuck?)" % (what, fi, len(data))
    if len(shakes) != len(data):
        return "tx-handshake", "%s: %d sink handshakes for %d bytes" % (what, len(shakes), len(data))
    return None


def run_uart_tx(case):
    from migen import Signal
    from litex.soc.cores.uart import RS232PHYTX, RS232PHY, UARTPads
    tw = case["tw"]
    T = 2 ** 32 / tw
    pads = UARTPads()
    if case["dyn"] == "const":
        dut = RS232PHYTX(pads, tw)
        sink = dut.sink
    elif case["dyn"] == "signal":
        dut = RS232PHYTX(pads, Signal(32, reset=tw))
        sink = dut.sink
    else:
        # whole PHY: tuning word computed by the code under test from (clk_freq, baudrate); the monitor uses clk/baud
        clk = 1 << 32
        dut = RS232PHY(pads, clk_freq=clk, baudrate=tw)
        sink = dut.sink
    data, gaps = case["bytes"], case["gaps"]
    feeder = _TxFeeder(sink, data, gaps)
    probe = bench.Probe([pads.tx])
    ncyc = sum(gaps) + len(data) * (int(10 * T) + 4) + int(T) + 12
    cyc = bench.run(dut, [feeder, probe], ncyc)
    tx = [r[0] for r in probe.trace]
    what = "RS232PHYTX(tuning_word=%d: %.4f cycles/bit, %s)" % (tw, T, case["dyn"])
    cls = ["uart-tx:" + case["dyn"], "uart-tx:T<8" if T < 8 else ("uart-tx:T<20" if T < 20 else "uart-tx:T>=20")]
    v = check_tx_wave(tx, T, data, feeder.offers, feeder.shakes, what)
    if v:
        return bad(v[0], v[1], key="c19:uart-tx:" + v[0], cls=cls, cycles=cyc)
    # the handshake of byte i belongs to frame i: not before its stop bit began, not after the frame ended (+1)
    starts = []
    c = 1
    while c < len(tx) and len(starts) < len(data):
        if tx[c] == 0 and tx[c - 1] == 1:
            starts.append(c)
            c = int(c + 10 * T) - 1
        else:
            c += 1
    for i, (s0, h) in enumerate(zip(starts, feeder.shakes)):
        if not (s0 + 9 * T - 1.000001 <= h <= s0 + 10 * T + 1.000001):
            return bad("tx-handshake", "%s: byte %d accepted (valid & ready) in cycle %d; its frame starts at %d, the stop bit "
                       "spans %.1f..%.1f" % (what, i, h, s0, s0 + 9 * T, s0 + 10 * T), key="c19:uart-tx:tx-handshake", cls=cls, cycles=cyc)
    b2b = any(g == 0 for g in gaps[1:])
    if b2b:
        cls.append("uart-tx:back-to-back")
    return ok(nt=(len(data) >= 2 and b2b), cls=cls, cycles=cyc)


# ===================================================================================== UART RX

def st_uart_rx(tier):
    @st.composite
    def case(draw):
        tmax = 40 if tier == "quick" else 200
        near16 = st.integers(16 * 16, 20 * 16).map(lambda x: int(2 ** 32 * 16 / x))
        tw = draw(st.one_of(near16, _st_tuning(tier, 8.68, tmax)))
        T = 2 ** 32 / tw
        lim = 200 if T >= 16 else 100                   # envelope: |eps| <= 2 % from 16 cycles/bit, 1 % from 8.68
        eps = draw(st.one_of(st.sampled_from([-lim, lim, -lim + 10, lim - 10, 0]), st.integers(-lim, lim)))
        n = draw(st.integers(2, 5))
        byte = st.one_of(st.integers(0, 255), st.sampled_from([0x00, 0xff, 0x55, 0xaa, 0x7f, 0x80, 0x01, 0xfe]))
        frames = []
        for i in range(n):
            kind = draw(st.sampled_from(["ok"] * 6 + ["badstop", "break"])) if i < n - 1 else "ok"
            gap = draw(st.one_of(st.just(0), st.just(0), st.integers(0, 48)))     # idle after the frame, 1/16 bit units
            if kind != "ok":
                gap = max(gap, 24)
            frames.append({"kind": kind, "byte": draw(byte), "gap": gap,
                           "len": draw(st.integers(11, 24)) if kind == "break" else 10})
        return {"tw": tw, "eps": eps, "phase": draw(st.integers(0, 15)), "frames": frames}
    return case()


def rx_wave(T, eps, phase16, frames):
    """line level per system cycle: frames at bit period T/(1+eps) starting at a fractional cycle offset"""
    import math
    Tt = T / (1.0 + eps)
    tau = 2.0 * T + phase16 / 16.0
    spans = []
    for f in frames:
        if f["kind"] == "break":
            bits = [0] * f["len"]
        else:
            bits = [0] + [(f["byte"] >> k) & 1 for k in range(8)] + [1 if f["kind"] == "ok" else 0]
        spans.append((tau, bits))
        tau += (len(bits) + f["gap"] / 16.0) * Tt
    n = int(tau + 2 * T) + 8
    wave = [1] * n
    for tau_i, bits in spans:
        for c in range(max(0, int(tau_i) - 1), min(n, int(tau_i + len(bits) * Tt) + 2)):
            k = math.floor((c - tau_i) / Tt)
            if 0 <= k < len(bits):
                wave[c] = bits[k]
    return wave, spans, Tt


def run_uart_rx(case):
    from litex.soc.cores.uart import RS232PHYRX, UARTPads
    tw = case["tw"]
    T = 2 ** 32 / tw
    eps = case["eps"] / 10000.0
    if T < 8.68 or abs(eps) > (0.02 if T >= 16 else 0.01) + 1e-9:
        return skip("outside the measured reception envelope")
    pads = UARTPads()
    dut = RS232PHYRX(pads, tw)
    wave, spans, Tt = rx_wave(T, eps, case["phase"], case["frames"])
    n = len(wave)
    drv = bench.Driver(lambda t: {pads.rx: wave[t + 1] if t + 1 < n else 1})
    probe = bench.Probe([dut.source.valid, dut.source.data])
    cyc = bench.run(dut, [drv, probe], n)
    got = [(c, r[1]) for c, r in enumerate(probe.trace) if r[0]]
    want = [f["byte"] for f in case["frames"] if f["kind"] == "ok"]
    what = "RS232PHYRX(tuning_word=%d: %.3f cycles/bit), transmitter %+.2f %%, start phase %d/16 cycle" % (
        tw, T, 100 * eps, case["phase"])
    cls = ["uart-rx:T<16" if T < 16 else "uart-rx:T>=16"]
    if abs(eps) >= 0.015:
        cls.append("uart-rx:|eps|>=1.5%")
    if any(f["kind"] != "ok" for f in case["frames"]):
        cls.append("uart-rx:framing-error-or-break")
    if any(f["gap"] == 0 for f in case["frames"][:-1]):
        cls.append("uart-rx:gap0")
    if [d for _, d in got] != want:
        # attribute: which frame went wrong
        detail = "%s: frames %r delivered %r (cycle, byte), expected bytes %r" % (
            what, [(f["kind"], f["byte"], f["gap"]) for f in case["frames"]], got, want)
        bad_delivered = len(got) > len(want)
        return bad("rx-extra" if bad_delivered else "rx-data", detail, key="c19:uart-rx:" + ("extra" if bad_delivered else "data"),
                   cls=cls, cycles=cyc)
    # every delivery falls into its own frame's stop bit neighbourhood (once per frame, not late into the next frame)
    oks = [sp for sp, f in zip(spans, case["frames"]) if f["kind"] == "ok"]
    for (c, d), (tau_i, bits) in zip(got, oks):
        if not (tau_i + 9 * Tt <= c <= tau_i + 10 * Tt + 4):
            return bad("rx-when", "%s: byte %#04x delivered in cycle %d, its stop bit spans %.1f..%.1f" % (
                what, d, c, tau_i + 9 * Tt, tau_i + 10 * Tt), key="c19:uart-rx:when", cls=cls, cycles=cyc)
    return ok(nt=abs(eps) >= 0.015 or "uart-rx:gap0" in cls, cls=cls, cycles=cyc)


# ===================================================================================== registry

def subchecks():
    return [
        Sub("timer", run_timer, strategy=st_timer, examples=(400, 8000),
            rule="Timer: CSR histories of load/reload/en/update_value/pending/enable writes; count, zero event, one-shot "
                 "after exactly `load` cycles, reload, stop, latch, uptime; nt = reload at zero and a disable"),
        Sub("uart-tx", run_uart_tx, strategy=st_uart_tx, examples=(320, 6000),
            rule="RS232PHYTX / RS232PHY: bytes, gaps 0.. between offers, tuning words with 4..48 (thorough 400) cycles per bit; "
                 "per-frame monitor: start, 8 data LSB first, stop, every cell boundary within 1 cycle of start + k*2^32/tw, "
                 "one handshake per byte, idle 1; nt = >= 2 bytes with a back-to-back offer"),
        Sub("uart-rx", run_uart_rx, strategy=st_uart_rx, examples=(320, 6000),
            rule="RS232PHYRX: fractional-time line driver, eps within the measured envelope, start phase n/16 cycle, gaps 0..3 bit, "
                 "framing errors and breaks must not deliver and must not disturb later frames; nt = |eps| >= 1.5 % or gap 0"),
    ]

"""C08 (AXI4 twins) - AXIArbiter, AXIDecoder, AXIInterconnectShared, AXICrossbar, AXIInterconnectPointToPoint
with burst traffic.  Complements checks/C08.py (AXI-Lite family); the main check appends subchecks() of this module.

Every slave owns a 1 KB area inside its decoded window; inside it every master owns a 128-byte block (plus a
128-byte block in the upper half of the area where the slave answers SLVERR), so that the address of a request seen
at a slave port identifies the issuing master and the routing decision at the same time.
"""
import random

from hypothesis import strategies as st

from vlib.runner import Sub, ok, bad, skip
from vlib import bench, axil, axi4

FIXED, INCR, WRAP = axi4.FIXED, axi4.INCR, axi4.WRAP
BNAME = {FIXED: "FIXED", INCR: "INCR", WRAP: "WRAP"}

RULE = ("AXIArbiter, AXIDecoder, AXIInterconnectShared, AXICrossbar, AXIInterconnectPointToPoint, 1..3 masters x 1..3 slaves, 32/64-bit "
        "data, id width 1..4, disjoint windows decoded by the real SoCRegion.decoder, no timeout; per-master programs of INCR/FIXED/"
        "WRAP read and write bursts (1..16 beats, narrow and unaligned transfers, strobe styles, generated id/lock/prot/cache/qos/"
        "region) issued through five independently scheduled channels with 1/2/4 outstanding bursts per direction, byte-accurate "
        "memory slaves with generated ready styles, queue depth, response latency, error range and idle garbage; oracle from the "
        "port logs: every AW (all fields) with its complete W burst (every beat's data and strobes, last on the final beat only) and "
        "every AR arrives exactly once at the slave decoding its address, per master in issue order, never mixed with another "
        "master's beats; every B and every R beat the slave sent (data incl. unused lanes, resp, id, last) reaches the issuing master "
        "exactly once and in issue order, not before the request was accepted; hold rule on all ten DUT-driven channel ends; every "
        "master finishes within a bound; with one outstanding burst per master no master is overtaken twice by the same competitor "
        "(round-robin); with one direction blocked for ever at the slaves the other direction still completes; final slave memories "
        "equal the model; non-trivial = (two masters with bursts at the same slave, or one master with bursts at two slaves), a multi-beat "
        "burst and a stalled DUT-driven beat; "
        "distinct = canonical JSON")
ASSUMPTIONS = ["Migen's simulator (site-packages) defines FHDL semantics",
               "masters use disjoint bytes (cross-master write ordering is not defined by the protocol); bursts obey the AXI4 limits "
               "(no 4 KB crossing, WRAP 2/4/8/16 aligned, FIXED <= 16)",
               "known findings excluded by construction (counted as classes): through anything containing AXIDecoder a master keeps "
               "all bursts outstanding in one direction at ONE slave (the decoder routes every channel by the registered select while "
               "locked); W is presented ahead of its AW only where the decoder has one slave (AXIDecoder routes W by the address "
               "currently on AW)",
               "no accesses to unmapped addresses and no timeout (C11)"]

# windows: (origin, size), all sizes powers of two >= 4 KB so that a 1 KB area fits at several offsets
WINDOWS = [(0x00000000, 0x1000), (0x00001000, 0x1000), (0x00010000, 0x10000), (0x10000000, 0x10000000), (0x40000000, 0x20000000),
           (0x80000000, 0x80000000), (0x20000000, 0x1000), (0x20001000, 0x1000), (0x30000000, 0x10000000), (0x60000000, 0x10000)]
AREA, BLOCK, ERRBIT = 1024, 128, 512


def _overlap(a, b):
    return a[0] < b[0] + b[1] and b[0] < a[0] + a[1]


def _log2(n):
    return n.bit_length() - 1


def envelope(case):
    """None, or the name of the known finding the case steps into (never generated; witness replays only)"""
    kind, M, S = case["kind"], case["M"], case["S"]
    has_dec = kind in ("shared", "crossbar", "decoder")
    has_arb = kind in ("shared", "crossbar", "arbiter")
    if not case["w_after_aw"]:
        # write data ahead of its address is routed by whatever the idle AW channel shows: wrong with several slaves, and
        # with one slave too when the idle address lines carry garbage (the decode then flickers)
        if has_dec and (S > 1 or case.get("gm") is not None):
            return "c08:axi-decoder-w-before-aw"
    if has_dec and S > 1 and case["K"] > 1 and not case.get("one_target", True):
        return "c08:axi-decoder-outstanding"
    return None


# ------------------------------------------------------------------------------------- generator

def _st_geometry(draw, nb, tier):
    """(burst, len, size, offset inside the master's 128-byte block)"""
    burst = draw(st.sampled_from([INCR, INCR, INCR, INCR, INCR, FIXED, WRAP, WRAP]))
    full = _log2(nb)
    size = draw(st.sampled_from([full, full, full] + list(range(full + 1))))
    nbs = 1 << size
    maxn = BLOCK // nbs
    big = 8 if tier == "quick" else 16
    if burst == WRAP:
        n = draw(st.sampled_from([x for x in (2, 4, 4, 8, 16) if x <= min(maxn, big)]))
        total = n * nbs
        off = draw(st.integers(0, BLOCK // total - 1)) * total + draw(st.integers(0, n - 1)) * nbs
    else:
        low = draw(st.sampled_from([0, 0, 0] + list(range(nbs)))) if burst == INCR else draw(st.sampled_from([0, 0] + list(range(nbs))))
        n = draw(st.sampled_from([1, 1, 2, 2, 3, 4, 4, 5, 7, big]))
        n = min(n, maxn, 16)
        if burst == FIXED:
            off = draw(st.integers(0, maxn - 1)) * nbs + low
        else:
            off = draw(st.integers(0, maxn - n)) * nbs + low
    return burst, n - 1, size, off


def st_case(tier, kinds=("shared", "shared", "crossbar", "crossbar", "arbiter", "decoder", "p2p"), block=True):
    @st.composite
    def case(draw):
        kind = draw(st.sampled_from(list(kinds)))
        M = 1 if kind in ("decoder", "p2p") else draw(st.sampled_from([1, 2, 2, 3, 3]))
        S = 1 if kind in ("arbiter", "p2p") else draw(st.sampled_from([1, 2, 2, 3, 3]))
        # class-determining choices first: Hypothesis completes some examples with the simplest remaining choices
        K = draw(st.sampled_from([1, 1, 1, 2, 2, 4]))
        blk = draw(st.sampled_from([None] * 7 * 5 + ["aw", "w", "b", "ar", "r"])) if block else None
        # W ahead of AW: where no decoder sits behind several masters (the decoder routes W by the address currently on AW,
        # also an idle one); arbiters with any number of masters since the write-data lock was added to AXIArbiter (the
        # witness of the former finding is replayed)
        w_before = (kind in ("p2p", "arbiter") or (M == 1 and S == 1)) and draw(st.booleans())
        err = draw(st.integers(0, 2)) == 0
        dw = draw(st.sampled_from([32, 32, 32, 64]))
        idw = draw(st.sampled_from([1, 2, 4]))
        wins = []
        for idx in draw(st.permutations(list(range(len(WINDOWS))))):
            w = WINDOWS[idx]
            if all(not _overlap(w, x) for x in wins):
                wins.append(w)
            if len(wins) == S:
                break
        # the 1 KB area used inside each window: bottom, top, or somewhere in between (exercises the decoded address bits)
        areas = []
        for o, s in wins:
            k = s // AREA
            areas.append(o + AREA * draw(st.sampled_from([0, k - 1, k // 2, draw(st.integers(0, k - 1))])))
        nb = dw // 8
        internal = kind in ("shared", "crossbar")
        idmax = (1 << idw) - 1       # full ids also through shared / crossbar (the internal buses of shared / crossbar take the masters' id width: repaired, witnesses replayed)
        nmax = 5 if tier == "quick" else 10
        progs = []
        for m in range(M):
            ops = []
            j = None
            for _ in range(draw(st.integers(2, nmax))):
                # a master stays with a slave for a while: only runs of requests to one slave make K > 1 effective (see ASSUMPTIONS)
                if j is None or draw(st.integers(0, 2)) == 0:
                    j = draw(st.integers(0, S - 1))
                burst, length, size, off = _st_geometry(draw, nb, tier)
                in_err = err and draw(st.integers(0, 4)) == 0
                we = draw(st.integers(0, 1))
                op = {"we": we, "addr": areas[j] + (ERRBIT if in_err else 0) + BLOCK * m + off, "len": length, "size": size, "burst": burst,
                      "id": draw(st.integers(0, idmax)), "prot": draw(st.integers(0, 7)), "cache": draw(st.sampled_from([0, 3, 15, 10])),
                      "qos": draw(st.sampled_from([0, 0, 9])), "lock": draw(st.sampled_from([0, 0, 1])), "region": draw(st.sampled_from([0, 0, 5]))}
                if we:
                    op["strb"] = draw(st.sampled_from(["full", "full", "rand", "mixed", "sparse", "none"]))
                ops.append(op)
            progs.append(ops)
        return {"kind": kind, "M": M, "S": S, "dw": dw, "idw": idw, "wins": [list(w) for w in wins], "areas": areas, "progs": progs,
                "K": K, "one_target": True, "w_after_aw": not w_before, "err": err, "block": blk,
                "ms": [axil.st_chan_scheds(draw) for _ in range(M)], "ss": [axil.st_chan_scheds(draw) for _ in range(S)],
                "Q": draw(st.sampled_from([1, 2, 4])), "wait_valid": draw(st.booleans()), "w_needs_aw": draw(st.booleans()),
                # (no garbage on the master's idle channels where write data runs ahead of its address through a decoder: known finding)
                "gm": draw(st.one_of(st.none(), st.integers(0, 999))) if not (w_before and kind in ("shared", "crossbar", "decoder")) else None,
                "gs": draw(st.one_of(st.none(), st.integers(0, 999))),
                "seed": draw(st.integers(0, 2 ** 16))}
    return case()


def _write_beats(op, nb, rng):
    """[[data, strb], ...] of a legal master: strobes only inside the lanes the transfer covers"""
    out = []
    for a in axi4.burst_addresses(op["addr"], op["len"], op["size"], op["burst"]):
        act = 0
        for x in axi4.active_bytes(a, op["size"]):
            act |= 1 << (x % nb)
        style = op.get("strb", "full")
        if style == "mixed":
            style = rng.choice(["full", "rand", "sparse", "none", "full"])
        if style == "full":
            strb = act
        elif style == "rand":
            strb = rng.getrandbits(nb) & act
        elif style == "sparse":
            strb = 1 << rng.choice([i for i in range(nb) if (act >> i) & 1])
        else:
            strb = 0
        out.append([rng.getrandbits(8 * nb), strb])
    return out


# ------------------------------------------------------------------------------------- monitors

class _ReqMon:
    """per handshake on a request channel: (first cycle valid, cycle accepted)"""

    def __init__(self, ep):
        self.sigs = [ep.valid, ep.ready]
        self.since = None
        self.log = []

    def signals(self):
        return self.sigs

    def step(self, t, v):
        if v[0]:
            if self.since is None:
                self.since = t - 1
            if v[1]:
                self.log.append((self.since, t - 1))
                self.since = None
        else:
            self.since = None
        return None


class _Bus:
    def __init__(self, dw):
        self.data_width = dw
        self.address_width = 32


# ------------------------------------------------------------------------------------- one case

def build(case):
    from migen import Module
    from litex.soc.interconnect import axi
    from litex.soc.integration.soc import SoCRegion
    kind, M, S, dw = case["kind"], case["M"], case["S"], case["dw"]
    top = Module()
    masters = [axi.AXIInterface(data_width=dw, address_width=32, id_width=case["idw"]) for _ in range(M)]
    slaves = [axi.AXIInterface(data_width=dw, address_width=32, id_width=case["idw"]) for _ in range(S)]
    decs = [(SoCRegion(origin=o, size=s).decoder(_Bus(dw)), sl) for (o, s), sl in zip(case["wins"], slaves)]
    if kind == "shared":
        top.submodules.dut = axi.AXIInterconnectShared(masters, decs, timeout_cycles=None)
    elif kind == "crossbar":
        top.submodules.dut = axi.AXICrossbar(masters, decs, timeout_cycles=None)
    elif kind == "arbiter":
        top.submodules.dut = axi.AXIArbiter(masters, slaves[0])
    elif kind == "decoder":
        top.submodules.dut = axi.AXIDecoder(masters[0], decs)
    else:
        top.submodules.dut = axi.AXIInterconnectPointToPoint(masters[0], slaves[0])
    return top, masters, slaves


def _is_err(case, j, addr):
    return bool((addr - case["areas"][j]) & ERRBIT)


def run_case(case):
    kind, M, S, dw, K = case["kind"], case["M"], case["S"], case["dw"], case["K"]
    nb = dw // 8
    areas = case["areas"]
    blk = case.get("block")
    top, mbus, sbus = build(case)
    env = envelope(case)

    def key(base):
        return env or ("c08:axi-" + base + ":" + kind)

    def slave_of(addr):
        if kind in ("arbiter", "p2p"):
            return 0
        return next(j for j in range(S) if case["wins"][j][0] <= addr < sum(case["wins"][j]))

    # ---- programs
    progs = []
    for m, p in enumerate(case["progs"]):
        ops = []
        for i, o in enumerate(p):
            o = dict(o)
            if o["we"]:
                o["beats"] = _write_beats(o, nb, random.Random(case["seed"] * 131 + 17 * m + i))
            ops.append(o)
        progs.append(ops)
    nops = sum(len(p) for p in progs)
    nbeats = sum(o["len"] + 1 for p in progs for o in p)
    until = 80 + 6 * (nops + nbeats)
    limit = until + 40 * nops + 6 * nbeats + 300

    # ---- agents
    mags, held = [], {"n": 0}
    for m in range(M):
        ma = axi4.AXI4Master(mbus[m], progs[m], case["ms"][m], K=K, w_after_aw=case["w_after_aw"],
                             garbage_seed=None if case["gm"] is None else case["gm"] + 100 * m, until=until)
        ma.tgt_w = [slave_of(progs[m][p]["addr"]) for p in ma.widx]
        ma.tgt_r = [slave_of(progs[m][p]["addr"]) for p in ma.ridx]
        if case.get("one_target", True) and S > 1:
            _one_target(ma, held)
        ma.mon_aw = _ReqMon(mbus[m].aw)
        ma.mon_ar = _ReqMon(mbus[m].ar)
        mags.append(ma)
    sags, smem = [], []
    for j in range(S):
        rng = random.Random(case["seed"] * 977 + j)
        mem = bytearray(rng.randrange(256) for _ in range(AREA))
        smem.append(mem)
        sch = dict(case["ss"][j])
        if blk:
            sch[blk] = ["const", 0]
        gs = case["gs"]
        sags.append(axi4.AXI4MemSlave(sbus[j], bytearray(mem), sch, Q=case["Q"], wait_valid=case["wait_valid"],
                                      err=(lambda a, j=j: _is_err(case, j, a)) if case["err"] else None, base=areas[j],
                                      garbage_b=None if gs is None else gs + 11 + 100 * j, garbage_r=None if gs is None else gs + 12 + 100 * j,
                                      until=until, w_needs_aw=case["w_needs_aw"], pad_seed=case["seed"] + 7 + j))
        if blk:
            getattr(sags[-1], blk).until = None         # the blocked channel stays blocked in the cooperative tail too

    # with one direction blocked, the operations that must still complete: those of the other direction up to the first one
    # that the master itself orders behind a blocked operation (overlapping bytes; the request channels issue in program order)
    live = []
    for ma in mags:
        if blk is None:
            live.append(list(range(len(ma.ops))))
            continue
        idx = ma.ridx if blk in ("aw", "w", "b") else ma.widx
        dead_dir = set(ma.widx if blk in ("aw", "w", "b") else ma.ridx)
        keep = []
        for p in idx:
            if any(d in dead_dir for d in ma.deps[p]):
                break
            keep.append(p)
        live.append(keep)

    def live_done(ma):
        return all(ma.done[p] for p in live[mags.index(ma)])
    state = {"done_at": None}

    def stop(t):
        if state["done_at"] is None:
            if all(live_done(ma) for ma in mags):
                state["done_at"] = t
            return False
        return t >= state["done_at"] + 8
    extra = [x for ma in mags for x in (ma.mon_aw, ma.mon_ar)]
    cyc = bench.run(top, mags + sags + extra, limit, stop=stop)

    cls = ["kind:" + kind, "M%dS%d" % (M, S), "K=%d" % K, "dw=%d" % dw, "idw=%d" % case["idw"]]
    if blk:
        cls.append("blocked:" + blk)
    ctx = "%s %dx%d %d-bit K=%d Q=%d%s" % (kind, M, S, dw, K, case["Q"], (" %s blocked at the slaves" % blk.upper()) if blk else "")

    def opdesc(m, p):
        o = progs[m][p]
        return "master %d op %d (%s %s addr=%#x len=%d size=%d id=%d)" % (m, p, "write" if o["we"] else "read", BNAME[o["burst"]], o["addr"],
                                                                         o["len"], o["size"], o["id"])

    # ---- hold rule on everything the interconnect drives
    for j, sa in enumerate(sags):
        hv = sa.hold_violations()
        if hv:
            c_, txt = min(hv)
            return bad("hold-slave-side", "%s: towards slave %d, cycle %d: %s" % (ctx, j, c_, txt), key=key("hold"), cls=cls, cycles=cyc)
    for m, ma in enumerate(mags):
        hv = ma.hold_violations()
        if hv:
            c_, txt = min(hv)
            return bad("hold-master-side", "%s: towards master %d, cycle %d: %s" % (ctx, m, c_, txt), key=key("hold"), cls=cls, cycles=cyc)
    # ---- what arrives at the slaves is legal AXI4 (the masters only send legal bursts)
    for j, sa in enumerate(sags):
        if sa.audit:
            return bad("slave-side-burst", "%s: slave %d: %s" % (ctx, j, sa.audit[0]), key=key("burst"), cls=cls, cycles=cyc)
    # ---- responses beyond the requests
    for m, ma in enumerate(mags):
        if ma.extra_b or ma.extra_r:
            return bad("response-once", "%s: master %d received %d B and %d R beats beyond those of its requests (first in cycle %d)" %
                       (ctx, m, len(ma.extra_b), len(ma.extra_r), (ma.extra_b + ma.extra_r)[0][0]), key=key("once"), cls=cls, cycles=cyc)
    # ---- R framing as far as received (beats attributed by count)
    for m, ma in enumerate(mags):
        for jn, p in enumerate(ma.ridx):
            n = progs[m][p]["len"] + 1
            for i, (c_, data, resp, rid, last) in enumerate(ma.rres[jn]):
                if last != int(i == n - 1):
                    return bad("r-last", "%s: %s: R beat %d of %d (cycle %d) has last=%d" % (ctx, opdesc(m, p), i, n, c_, last),
                               key=key("framing"), cls=cls, cycles=cyc)
    # ---- progress
    for m, ma in enumerate(mags):
        if not live_done(ma):
            p = next(i for i in live[m] if not ma.done[i])
            return bad("served", "%s: %s never completed (%d cycles, all agents cooperative from cycle %d; %s)" %
                       (ctx, opdesc(m, p), cyc, until, "; ".join("slave %d: %s" % (j, sa.state()) for j, sa in enumerate(sags))),
                       key=key("hang"), cls=cls, cycles=cyc)

    # ---- routing: per slave, attribute every arrived request to a master by its address
    # exp[j][m] = ops of master m addressed to slave j, in issue order (per direction)
    def expected(j, m, we):
        return [p for p, o in enumerate(progs[m]) if bool(o["we"]) == we and slave_of(o["addr"]) == j]
    wmap, rmap = {}, {}            # (m, p) -> (j, arrival index at slave j)
    for j, sa in enumerate(sags):
        for we, arrivals, amap in ((True, sa.writes, wmap), (False, sa.reads, rmap)):
            nxt = [0] * M
            exp = [expected(j, m, we) for m in range(M)]
            for k, arr in enumerate(arrivals):
                ax = arr["aw"] if we else arr["ar"]
                what = "AW" if we else "AR"
                off = ax["addr"] - areas[j]
                if not (0 <= off < AREA) or (off % ERRBIT) // BLOCK >= M:
                    src = [(m, p) for m in range(M) for p, o in enumerate(progs[m]) if o["addr"] == ax["addr"] and bool(o["we"]) == we]
                    return bad("route", "%s: slave %d (window %#x+%#x) accepted %s #%d for address %#x, which %s" %
                               (ctx, j, case["wins"][j][0], case["wins"][j][1], what, k, ax["addr"],
                                ("belongs to slave %d (%s)" % (slave_of(ax["addr"]), opdesc(*src[0]))) if src else "no master issued"),
                               key=key("route"), cls=cls, cycles=cyc)
                m = (off % ERRBIT) // BLOCK
                if nxt[m] >= len(exp[m]):
                    return bad("request-once", "%s: slave %d accepted %s #%d (addr %#x len %d) from master %d's block beyond the %d %s that master "
                               "addressed to it" % (ctx, j, what, k, ax["addr"], ax["len"], m, len(exp[m]), "writes" if we else "reads"),
                               key=key("route"), cls=cls, cycles=cyc)
                p = exp[m][nxt[m]]
                nxt[m] += 1
                o = progs[m][p]
                want = {f: o.get(f, 0) for f in axi4.AX_FIELDS}
                if ax != want:
                    diff = ", ".join("%s %#x (sent %#x)" % (f, ax[f], want[f]) for f in axi4.AX_FIELDS if ax[f] != want[f])
                    return bad("request-payload", "%s: slave %d %s #%d, expected to be %s, arrived with %s" % (ctx, j, what, k, opdesc(m, p), diff),
                               key=key("id" if all(ax[f] == want[f] for f in axi4.AX_FIELDS if f != "id") else "payload"), cls=cls, cycles=cyc)
                if we:
                    got = [list(b) for b in sa.w_bursts[k][1]]
                    if got != o["beats"]:
                        i = next((i for i, (g, e) in enumerate(zip(got, o["beats"])) if g != e), min(len(got), len(o["beats"])))
                        return bad("w-burst", "%s: slave %d write #%d (%s): the W burst delivered with it has %d beats (sent %d); first difference "
                                   "at beat %d: arrived %s, sent %s" % (ctx, j, k, opdesc(m, p), len(got), len(o["beats"]), i,
                                                                       _fb(got[i:i + 1]), _fb(o["beats"][i:i + 1])),
                                   key=key("wdata"), cls=cls, cycles=cyc)
                amap[(m, p)] = (j, k)
            if blk is None:
                for m in range(M):
                    if nxt[m] != len(exp[m]):
                        return bad("request-lost", "%s: %s was answered but never arrived at slave %d" % (ctx, opdesc(m, exp[m][nxt[m]]), j),
                                   key=key("route"), cls=cls, cycles=cyc)
        # W beats that belong to no AW (everything finished: nothing may be left over)
        if blk is None and (len(sa.w_bursts) != len(sa.writes) or sa._wcur):
            return bad("w-burst", "%s: slave %d holds W beats that belong to no write (%s)" % (ctx, j, sa.state()), key=key("wdata"), cls=cls, cycles=cyc)

    # ---- responses: exactly the tokens the answering slave sent for this request, in issue order, not early
    fb_, fr_ = sags[0].f["b"], sags[0].f["r"]
    for m, ma in enumerate(mags):
        for n, p in enumerate(ma.widx):
            if n >= len(ma.bres):
                break
            c_, resp, bid = ma.bres[n]
            if (m, p) not in wmap:
                return bad("response-without-request", "%s: %s received B in cycle %d but the write never arrived at a slave" % (ctx, opdesc(m, p), c_),
                           key=key("once"), cls=cls, cycles=cyc)
            j, k = wmap[(m, p)]
            tok = sags[j].b.tokens[k]
            want = (fb_.get(tok, "resp"), progs[m][p]["id"])
            if (resp, bid) != want:
                return bad("b-payload", "%s: %s received B resp=%d id=%d in cycle %d; slave %d answered resp=%d to id %d" %
                           (ctx, opdesc(m, p), resp, bid, c_, j, want[0], fb_.get(tok, "id")),
                           key=key("id" if resp == want[0] else "resp"), cls=cls, cycles=cyc)
            c_aw = ma.aw.sent[n][0] if n < len(ma.aw.sent) else 10 ** 9
            c_wl = ma.w.sent[ma.w_lastbeat[n]][0] if ma.w_lastbeat[n] < len(ma.w.sent) else 10 ** 9
            if c_ <= max(c_aw, c_wl):
                return bad("b-early", "%s: %s: B in cycle %d, AW accepted in cycle %d, last W beat in cycle %d" % (ctx, opdesc(m, p), c_, c_aw, c_wl),
                           key=key("once"), cls=cls, cycles=cyc)
        for n, p in enumerate(ma.ridx):
            beats = ma.rres[n]
            if not beats:
                continue
            if (m, p) not in rmap:
                return bad("response-without-request", "%s: %s received R in cycle %d but the read never arrived at a slave" %
                           (ctx, opdesc(m, p), beats[0][0]), key=key("once"), cls=cls, cycles=cyc)
            j, k = rmap[(m, p)]
            sa = sags[j]
            lo = sa._r_last_idx[k - 1] + 1 if k else 0
            toks = sa.r.tokens[lo:sa._r_last_idx[k] + 1]
            c_ar = ma.ar.sent[n][0] if n < len(ma.ar.sent) else 10 ** 9
            if beats[0][0] <= c_ar:
                return bad("r-early", "%s: %s: first R beat in cycle %d, AR accepted in cycle %d" % (ctx, opdesc(m, p), beats[0][0], c_ar),
                           key=key("once"), cls=cls, cycles=cyc)
            for i, (c_, data, resp, rid, last) in enumerate(beats):
                tok = toks[i]
                want = (fr_.get(tok, "data"), fr_.get(tok, "resp"), progs[m][p]["id"], tok[3])
                if (data, resp, rid, last) != want:
                    return bad("r-payload", "%s: %s: R beat %d (cycle %d) is data=%#x resp=%d id=%d last=%d; slave %d sent data=%#x resp=%d "
                               "last=%d for id %d" % (ctx, opdesc(m, p), i, c_, data, resp, rid, last, j, want[0], want[1], want[3], fr_.get(tok, "id")),
                               key=key("id" if (data, resp, last) == (want[0], want[1], want[3]) else "rdata"), cls=cls, cycles=cyc)

    # ---- final slave memories against the model (masters own disjoint blocks; conflicting bursts of a master were serialised)
    if blk is None:
        for j, sa in enumerate(sags):
            model = bytearray(smem[j])
            for m in range(M):
                for o in progs[m]:
                    if o["we"] and slave_of(o["addr"]) == j and not (case["err"] and _is_err(case, j, o["addr"])):
                        for a, (data, strb) in zip(axi4.burst_addresses(o["addr"], o["len"], o["size"], o["burst"]), o["beats"]):
                            for x in axi4.active_bytes(a, o["size"]):
                                if (strb >> (x % nb)) & 1:
                                    model[x - areas[j]] = (data >> (8 * (x % nb))) & 0xff
            if bytes(model) != bytes(sa.mem):
                x = next(i for i in range(AREA) if model[i] != sa.mem[i])
                return bad("slave-memory", "%s: slave %d byte %#x holds %#04x, model %#04x" % (ctx, j, areas[j] + x, sa.mem[x], model[x]),
                           key=key("wdata"), cls=cls, cycles=cyc)

    # ---- round-robin: with one outstanding burst per master, a waiting request is overtaken at most once by each competitor
    contention = 0
    if K == 1 and M > 1 and kind != "decoder":
        for we in (True, False):
            acc = []           # (accept cycle, master, slave)
            for m, ma in enumerate(mags):
                log = (ma.mon_aw if we else ma.mon_ar).log
                idx = ma.widx if we else ma.ridx
                for n, (c0, c1) in enumerate(log):
                    acc.append((c0, c1, m, slave_of(progs[m][idx[n]]["addr"]), idx[n]))
            for c0, c1, m, j, p in acc:
                for m2 in range(M):
                    if m2 == m:
                        continue
                    over = [a for a in acc if a[2] == m2 and c0 < a[1] < c1 and (kind != "crossbar" or a[3] == j)]
                    contention += len(over)
                    if len(over) > 1:
                        return bad("starved", "%s: %s was presented from cycle %d and accepted in cycle %d; meanwhile master %d had %d %s accepted "
                                   "(cycles %s) - round-robin allows one" % (ctx, opdesc(m, p), c0, c1, m2, len(over), "writes" if we else "reads",
                                                                            [a[1] for a in over][:4]), key=key("starved"), cls=cls, cycles=cyc)

    # ---- evidence classes
    counts = {}
    for p_ in progs:
        for o in p_:
            for lab in (BNAME[o["burst"]], ("write:" if o["we"] else "read:") + _len_class(o["len"] + 1)):
                counts[lab] = counts.get(lab, 0) + 1
            if o["size"] < _log2(nb):
                counts["narrow"] = counts.get("narrow", 0) + 1
            if (o["addr"] - areas[slave_of(o["addr"])]) & ERRBIT:
                counts["error-range-burst"] = counts.get("error-range-burst", 0) + 1
    if held["n"]:
        counts["request held until the other slave's responses returned (decoder finding excluded)"] = held["n"]
    backp = sum(ma.mon_b.stalled + ma.mon_r.stalled for ma in mags) + sum(sa.mon_aw.stalled + sa.mon_w.stalled + sa.mon_ar.stalled for sa in sags)
    if backp:
        cls.append("backpressure")
    if contention:
        cls.append("overtaken-while-waiting")
    if not case["w_after_aw"] and any(ma.w.sent and ma.aw.sent and ma.w.sent[0][0] < ma.aw.sent[0][0] for ma in mags):
        cls.append("W-accepted-before-AW")
    if K > 1:
        cls.append("multi-outstanding")
    shared_slave = 0
    if M >= 2:
        for j, sa in enumerate(sags):
            who = set()
            for arr in sa.writes:
                who.add(((arr["aw"]["addr"] - areas[j]) % ERRBIT) // BLOCK)
            for arr in sa.reads:
                who.add(((arr["ar"]["addr"] - areas[j]) % ERRBIT) // BLOCK)
            if len(who) >= 2:
                shared_slave += 1
    if shared_slave:
        cls.append("two-masters-one-slave")
    multibeat = any(o["len"] >= 1 for p_ in progs for o in p_)
    fanout = M == 1 and len(set(slave_of(o["addr"]) for o in progs[0])) >= 2
    if fanout:
        cls.append("one-master-several-slaves")
    return ok(nt=bool((shared_slave or fanout) and backp and multibeat), cls=cls, counts=counts, cycles=cyc)


def _one_target(ma, held):
    """a new AW / AR is only presented while every burst outstanding in that direction is at the same slave"""
    g_aw, g_ar = ma.aw.gate, ma.ar.gate
    seen = set()

    def aw_gate(n):
        if not g_aw(n):
            return False
        if any(ma.tgt_w[k] != ma.tgt_w[n] for k in range(ma.w_done, n)):
            if ("w", n) not in seen:
                seen.add(("w", n))
                held["n"] += 1
            return False
        return True

    def ar_gate(n):
        if not g_ar(n):
            return False
        if any(ma.tgt_r[k] != ma.tgt_r[n] for k in range(ma.r_done, n)):
            if ("r", n) not in seen:
                seen.add(("r", n))
                held["n"] += 1
            return False
        return True
    ma.aw.gate = aw_gate
    ma.ar.gate = ar_gate


def _len_class(n):
    return "1" if n == 1 else "2-4" if n <= 4 else "5-8" if n <= 8 else "9-16"


def _fb(beats):
    return "[" + ", ".join("data=%#x strb=%#x" % (d, s) for d, s in beats) + "]"


# ------------------------------------------------------------------------------------- enumerated lock windows

def enum_windows(tier):
    """two masters at one slave: master 0 runs a burst whose phases are stretched one at a time (AW -> first W beat, gaps between beats,
    response latency, response back-pressure) while master 1 starts a burst of its own at every offset around those phases; master 0 then
    moves on to the other slave (decoder select must follow once the lock has drained)"""
    one = ["const", 1]
    thorough = tier != "quick"

    def pre(k, rest=one):
        return ["pre", k, 0, rest] if k else rest
    out = []
    for kind, S in (("arbiter", 1), ("shared", 2), ("crossbar", 2)):
        wins = [[0, 0x1000], [0x1000, 0x1000]][:S]
        other = wins[-1][0]
        for K in ((1, 2) if thorough else (1,)):
            for L in ((0, 1, 2, 3) if thorough else (2,)):
                for off in ((0, 1, 2, 3, 4, 5, 6, 8) if thorough else (0, 1, 2, 3, 4, 6)):
                    def mk(we, m0, s0, tag):
                        def o(addr, length, i):
                            d = {"we": we, "addr": addr, "len": length, "size": 2, "burst": INCR, "id": i, "prot": 0, "cache": 0, "qos": 0, "lock": 0, "region": 0}
                            if we:
                                d["strb"] = "full"
                            return d
                        chans = {"aw": one, "w": one, "ar": one, "b": one, "r": one}
                        m1 = dict(chans)
                        m1["aw" if we else "ar"] = pre(off)
                        return {"kind": kind, "M": 2, "S": S, "dw": 32, "idw": 1, "wins": wins, "areas": [w[0] for w in wins],
                                "progs": [[o(0x10, L, 0), o(other + 0x40, 0, 1)], [o(BLOCK + 0x20, 1, 1), o(BLOCK + 0x8, 0, 0)]],
                                "K": K, "one_target": True, "w_after_aw": True, "err": False, "block": None,
                                "ms": [dict(chans, **m0), m1], "ss": [dict(chans, **s0)] + [dict(chans) for _ in range(S - 1)],
                                "Q": 2, "wait_valid": False, "w_needs_aw": False, "gm": None, "gs": None, "seed": 5 + L, "tag": tag}
                    # writes: AW->W gap g, gaps between beats, B latency at the slave, B back-pressure by master 0
                    for g in (0, 1, 2):
                        for gap in (one, ["per", [1, 0], 0]):
                            for d in (0, 2):
                                for lat in ((0, 2) if thorough else (0,)):
                                    out.append(mk(1, {"w": pre(g, gap), "b": pre(d + 4 + g + 2 * L)}, {"b": pre(lat + 4 + g + 2 * L) if lat else one},
                                                  "write"))
                    # reads: gaps between R beats at the slave, R back-pressure patterns by master 0
                    for rgap in (one, ["per", [1, 0], 0], ["per", [1, 0, 0], 1]):
                        for rrdy in (one, ["per", [0, 1], 0], ["per", [0, 0, 1], 0], pre(6)):
                            out.append(mk(0, {"r": rrdy}, {"r": rgap}, "read"))
    chans = {"aw": one, "w": one, "ar": one, "b": one, "r": one}

    def op(we, addr, length, i=0):
        d = {"we": we, "addr": addr, "len": length, "size": 2, "burst": INCR, "id": i, "prot": 0, "cache": 0, "qos": 0, "lock": 0, "region": 0}
        if we:
            d["strb"] = "full"
        return d

    def case(kind, M, S, progs, **kw):
        wins = [[0, 0x1000], [0x1000, 0x1000]][:S]
        c = {"kind": kind, "M": M, "S": S, "dw": 32, "idw": 1, "wins": wins, "areas": [w[0] for w in wins], "progs": progs, "K": 1,
             "one_target": True, "w_after_aw": True, "err": False, "block": None, "ms": [dict(chans) for _ in range(M)],
             "ss": [dict(chans) for _ in range(S)], "Q": 2, "wait_valid": False, "w_needs_aw": False, "gm": None, "gs": None, "seed": 9}
        c.update(kw)
        return c
    # one direction blocked for ever at the slave (on each of its channels): the other direction of BOTH masters completes
    for kind, S in (("arbiter", 1), ("shared", 2), ("crossbar", 2)):
        other = 0x1000 * (S - 1)
        for blk in ("aw", "w", "b", "ar", "r"):
            for off in (0, 2, 5):
                for first in (0, 1):
                    progs = [[op(first, 0x00, 2), op(1 - first, 0x20, 1), op(first, other + 0x40, 0), op(1 - first, other + 0x50, 0)],
                             [op(1 - first, BLOCK + 0x00, 1), op(first, BLOCK + 0x20, 2), op(1 - first, BLOCK + 0x40, 0)]]
                    ms = [dict(chans), dict(chans, aw=pre(off), ar=pre(off))]
                    out.append(case(kind, 2, S, progs, block=blk, ms=ms, tag="blocked"))
    # decoder alone: a burst at slave 0 answered late, the next request addressed to slave 1 (waits for the lock to drain)
    for we in (0, 1):
        for K in (1, 2):
            for late in (0, 3, 6, 9):
                progs = [[op(we, 0x10, 2), op(we, 0x1000 + 0x20, 1, 1), op(1 - we, 0x30, 1), op(we, 0x40, 0)]]
                ss = [dict(chans, b=pre(late), r=pre(late, ["per", [1, 0], 0])), dict(chans)]
                out.append(case("decoder", 1, 2, progs, K=K, ss=ss, tag="decoder"))
    return out


# ------------------------------------------------------------------------------------- registration

def subchecks():
    return [
        Sub("axi-interconnect", run_case, strategy=lambda tier: st_case(tier, kinds=("shared", "shared", "crossbar", "crossbar")),
            examples=(480, 7200), timeout=(900, 20000),
            rule="AXIInterconnectShared / AXICrossbar: generated topologies, maps, burst programs and five-channel schedules"),
        Sub("axi-arbiter", run_case, strategy=lambda tier: st_case(tier, kinds=("arbiter",)), examples=(240, 3600), timeout=(900, 20000),
            rule="AXIArbiter alone, 1..3 masters, up to 4 outstanding bursts per direction"),
        Sub("axi-lock-windows", run_case, enum=enum_windows, exhaustive=True, timeout=(600, 7200),
            rule="2 masters at one slave (arbiter 2x1, shared 2x2, crossbar 2x2): every offset 0..6 of the second master's burst x "
                 "(AW->W gap 0..2 x beat gaps x B back-pressure | R beat gaps x R ready patterns) of the first master's 3-beat burst; "
                 "each of the five channels blocked for ever at the slaves x offsets (other direction of both masters completes); decoder "
                 "1x2 with late responses and a following request for the other slave"),
        Sub("axi-decoder", run_case, strategy=lambda tier: st_case(tier, kinds=("decoder", "decoder", "p2p")), examples=(240, 3600),
            timeout=(900, 20000), rule="AXIDecoder alone (1..3 slaves) and AXIInterconnectPointToPoint"),
    ]

"""C16 - Packet framing: headers round-trip and packets are never interleaved or torn."""
from hypothesis import strategies as st

from vlib.runner import Sub, ok, bad, skip
from vlib import bench

RULE = ("generated header definitions (1..6 fields, widths 1..64, byte/offset placement without overlap, header length "
        "1..40 bytes aligned or not to the data width, byte swapping on/off), data widths 8..128, 1..6 back-to-back packets "
        "of 1..12 beats with different header values, generated valid/ready schedules, producers that drive garbage while "
        "idle; Packetizer vs independent byte-layout serialisation, Depacketizer vs reference byte streams, loop-back "
        "round trip, PacketFIFO whole-packet/param/causality oracle, Arbiter/Dispatcher atomicity oracle with selector "
        "changes at every beat; non-trivial = >=2 packets, an unaligned header or a back-pressured beat, and a producer "
        "pause inside a packet; distinct = canonical JSON")
ASSUMPTIONS = ["Migen's simulator (site-packages) defines FHDL semantics; migen.genlib.misc.reverse_bytes defines byte swapping",
               "header parameters are constant over a packet (LiteX convention)",
               "packets offered to a PacketFIFO fit its payload depth",
               "headers shorter than one data word are a known finding (nothing is ever transferred) - excluded by construction, witness replayed",
               "bytes of the final word beyond the packet's length are unconstrained (no last_be in the layouts used)"]


def _m(w):
    return (1 << w) - 1


def reverse_bytes_val(v, w):
    n = (w + 7) // 8
    chunks = [((v >> (8 * i)) & _m(min(8, w - 8 * i)), min(8, w - 8 * i)) for i in range(n)]
    out, sh = 0, 0
    for val, cw in reversed(chunks):
        out |= val << sh
        sh += cw
    return out


def header_bytes(hdr, values):
    """independent serialisation: field at bit byte*8+offset, optionally byte-swapped, low byte first"""
    sig = 0
    for (name, byte, offset, width) in hdr["fields"]:
        v = values[name] & _m(width)
        if hdr["swap"]:
            v = reverse_bytes_val(v, width)
        sig |= v << (byte * 8 + offset)
    return [(sig >> (8 * i)) & 0xff for i in range(hdr["length"])]


def decode_header(hdr, bytes_):
    sig = sum(b << (8 * i) for i, b in enumerate(bytes_))
    out = {}
    for (name, byte, offset, width) in hdr["fields"]:
        v = (sig >> (byte * 8 + offset)) & _m(width)
        if hdr["swap"]:
            v = reverse_bytes_val(v, width)
        out[name] = v
    return out


# ------------------------------------------------------------------------------------ strategies

def st_header(draw, dw, allow_short=False):
    B = dw // 8
    nf = draw(st.integers(1, 6))
    fields = []
    bit = 0
    # field names in an order unrelated to the fields' positions (the header code walks the fields by name)
    order = draw(st.permutations(list(range(nf))))
    for i in range(nf):
        bit += draw(st.sampled_from([0, 0, 0, 1, 3, 8]))
        width = draw(st.one_of(st.sampled_from([1, 4, 8, 16, 32, 48]), st.integers(1, 64)))
        fields.append(["f%d" % order[i], bit // 8, bit % 8, width])
        bit += width
    min_len = (bit + 7) // 8
    length = min_len + draw(st.sampled_from([0, 0, 1, 2, 5]))
    if draw(st.booleans()):
        # aligned to the data width
        length = ((length + B - 1) // B) * B
    if length < B and not allow_short:
        length = B + draw(st.integers(0, B))
    length = min(max(length, min_len), 80)
    swap = draw(st.booleans())
    if swap and any(f[3] > 8 and f[3] % 8 for f in fields):
        # known finding packet:header-swap-odd-width (excluded by construction; witness replayed): make the wide fields whole bytes
        bit = 0
        for f in fields:
            gap = (f[1] * 8 + f[2]) - bit
            if f[3] > 8 and f[3] % 8:
                f[3] = (f[3] // 8) * 8
        bit = 0
        for f in fields:
            f[1], f[2] = bit // 8, bit % 8
            bit += f[3]
        length = max(length, (bit + 7) // 8)
    return {"fields": fields, "length": length, "swap": swap}


def st_packets(draw, hdr, dw, npk_max=6, beats_max=12, min_beats=1):
    pk = []
    for _ in range(draw(st.integers(1, npk_max))):
        n = draw(st.integers(min_beats, beats_max))
        pk.append({"hv": {f[0]: draw(st.integers(0, _m(f[3]))) for f in hdr["fields"]},
                   "data": [draw(st.integers(0, _m(dw))) for _ in range(n)]})
    return pk


def st_case(kind):
    def strat(tier):
        @st.composite
        def case(draw):
            dw = draw(st.sampled_from([8, 16, 32, 32, 64, 128]))
            hdr = st_header(draw, dw)
            pk = st_packets(draw, hdr, dw, npk_max=4 if tier == "quick" else 6)
            if kind == "depacketizer" and hdr["length"] % (dw // 8):
                # a packet may end inside the residue word (its payload is shorter than one beat): only a Depacketizer
                # used alone can meet this, a Packetizer always emits a word after the residue word
                for p_ in pk:
                    p_["short"] = draw(st.integers(0, 2)) == 0
            return {"kind": kind, "dw": dw, "hdr": hdr, "pk": pk, "ps": draw(bench.st_schedule()), "cs": draw(bench.st_schedule()),
                    "g": draw(st.one_of(st.none(), st.integers(0, 2 ** 16))), "fifo_front": draw(st.booleans())}
        return case()
    return strat


def mk_header(hdr):
    from litex.soc.interconnect.packet import Header, HeaderField
    return Header({n: HeaderField(b, o, w) for n, b, o, w in hdr["fields"]}, hdr["length"], swap_field_bytes=hdr["swap"])


def _names(hdr):
    return sorted(f[0] for f in hdr["fields"])


def _widths(hdr):
    d = {f[0]: f[3] for f in hdr["fields"]}
    return [d[n] for n in _names(hdr)]


def _ptoks(case):
    """producer tokens for a packetizer sink: payload (data,), params sorted by name"""
    names = _names(case["hdr"])
    toks = []
    for p in case["pk"]:
        par = tuple(p["hv"][n] for n in names)
        for i, d in enumerate(p["data"]):
            toks.append(((d,), par, int(i == 0), int(i == len(p["data"]) - 1)))
    return toks


def _ref_words(case, p, junk=0):
    """reference word stream of one packet: list of (word, valid byte count)"""
    B = case["dw"] // 8
    bs = header_bytes(case["hdr"], p["hv"])
    if p.get("short"):
        L = case["hdr"]["length"] % B
        bs += [(p["data"][0] >> (8 * i)) & 0xff for i in range(B - L)]
    else:
        for d in p["data"]:
            bs += [(d >> (8 * i)) & 0xff for i in range(B)]
    words = []
    for i in range(0, len(bs), B):
        chunk = bs[i:i + B]
        w = sum(b << (8 * k) for k, b in enumerate(chunk))
        if len(chunk) < B:
            w |= (junk & _m(8 * (B - len(chunk)))) << (8 * len(chunk))
        words.append((w, len(chunk)))
    return words


def _run(dut, prod_ep, cons_ep, toks, case, extra_agents=(), limit_mul=1, hold_key=None):
    n = len(toks)
    main = 8 * n + 60
    prod = bench.Producer(prod_ep, toks, case["ps"], garbage_seed=case["g"], until=main)
    cons = bench.Consumer(cons_ep, case["cs"], until=main)
    cons.hold_key = hold_key
    quiet = {"n": 0, "g": 0, "s": 0}

    def stop(t):
        if t < main:
            return False
        if len(cons.got) != quiet["g"] or len(prod.sent) != quiet["s"]:
            quiet["g"], quiet["s"], quiet["n"] = len(cons.got), len(prod.sent), 0
        else:
            quiet["n"] += 1
        return prod.done() and quiet["n"] > 40
    hw = case["hdr"]["length"] * 8 // case["dw"] + 2 if "hdr" in case else 2
    limit = main + (n + len(case.get("pk", [])) * (hw + 2)) * 4 * limit_mul + 200
    cyc = bench.run(dut, [prod, cons] + list(extra_agents), limit, stop=stop)
    return prod, cons, cyc


def _cls(case, cons, prod):
    B = case["dw"] // 8
    c = ["dw%d" % case["dw"]]
    if "hdr" in case:
        c.append("aligned" if case["hdr"]["length"] % B == 0 else "unaligned")
    if cons.stalled:
        c.append("backpressure")
    if case.get("g") is not None:
        c.append("garbage-idle")
    sh = [bool(p.get("short")) for p in case.get("pk", [])]
    if any(sh):
        c.append("ends-in-residue")
    if any(sh[:-1]):
        c.append("packet-after-residue-end")
    return c


def _nt(case, cons, prod):
    pauses = sum(1 for (c0, t0), (c1, t1) in zip(prod.sent, prod.sent[1:]) if c1 > c0 + 1 and not t0[3])
    return len(case.get("pk", [])) >= 2 and pauses >= 1 and cons.stalled >= 1


# ------------------------------------------------------------------------------------ packetizer

def _descs(case):
    from litex.soc.interconnect.stream import EndpointDescription
    hdr = mk_header(case["hdr"])
    with_par = EndpointDescription([("data", case["dw"])], hdr.get_layout())
    plain = EndpointDescription([("data", case["dw"])])
    return hdr, with_par, plain


def run_packetizer(case):
    from litex.soc.interconnect.packet import Packetizer
    from migen import Module
    from litex.soc.interconnect import stream
    hdr, with_par, plain = _descs(case)
    try:
        pkt = Packetizer(with_par, plain, hdr)
    except (ValueError, AssertionError, TypeError, IndexError) as ex:
        return skip("constructor rejected the header: %s" % type(ex).__name__, detail=str(ex)[:200])
    top = Module()
    top.submodules.pkt = pkt
    sink = pkt.sink
    if case.get("fifo_front"):
        # a FIFO in front: runs empty mid-packet and presents stale words while idle, without any test-bench garbage
        top.submodules.fifo = f = stream.SyncFIFO(with_par, 4)
        top.comb += f.source.connect(pkt.sink)
        sink = f.sink
    toks = _ptoks(case)
    prod, cons, cyc = _run(top, sink, pkt.source, toks, case)
    cls = _cls(case, cons, prod) + (["fifo-front"] if case.get("fifo_front") else [])
    exp = []
    for p in case["pk"]:
        ws = _ref_words(case, p)
        for i, (w, nv) in enumerate(ws):
            exp.append((w, nv, int(i == len(ws) - 1)))
    got = [(t[0][0], t[3]) for _, t in cons.got]
    ctx = "Packetizer dw=%d header=%r" % (case["dw"], case["hdr"])
    if len(prod.sent) < len(toks):
        return bad("hang", "%s: only %d of %d beats accepted (%d words out, %d expected)" % (ctx, len(prod.sent), len(toks), len(got), len(exp)),
                   key=_pkey(case, "hang"), cls=cls, cycles=cyc)
    for i, ((w, nv, last), (gw, gl)) in enumerate(zip(exp, got)):
        mask = _m(8 * nv)
        if (gw & mask) != (w & mask) or gl != last:
            return bad("layout", "%s: output word %d = %#x last=%d, byte layout prescribes %#x (valid bytes %d) last=%d" %
                       (ctx, i, gw, gl, w & mask, nv, last), key=_pkey(case, "layout"), cls=cls, cycles=cyc)
    if len(got) != len(exp):
        return bad("count", "%s: %d words out, %d expected" % (ctx, len(got), len(exp)), key=_pkey(case, "count"), cls=cls, cycles=cyc)
    return ok(nt=_nt(case, cons, prod), cls=cls, cycles=cyc)


def _odd_swap(hdr):
    return hdr["swap"] and any(f[3] > 8 and f[3] % 8 for f in hdr["fields"])


def _pkey(case, what):
    B = case["dw"] // 8
    if "hdr" in case and case["hdr"]["length"] < B:
        return "packet:short-header"
    if "hdr" in case and what == "roundtrip" and _odd_swap(case["hdr"]):
        return "packet:header-swap-odd-width"
    return "packet:%s:%s" % (case["kind"], what)


# ------------------------------------------------------------------------------------ depacketizer / loopback

def run_depacketizer(case):
    from litex.soc.interconnect.packet import Depacketizer
    hdr, with_par, plain = _descs(case)
    try:
        dut = Depacketizer(plain, with_par, hdr)
    except (ValueError, AssertionError, TypeError, IndexError) as ex:
        return skip("constructor rejected the header: %s" % type(ex).__name__, detail=str(ex)[:200])
    toks = []
    for k, p in enumerate(case["pk"]):
        ws = _ref_words(case, p, junk=(case["g"] or 0) * 0x9e3779b97f4a7c15 + k)
        for i, (w, nv) in enumerate(ws):
            toks.append(((w,), (), int(i == 0), int(i == len(ws) - 1)))
    # the beat that flushes a packet ending inside the residue word carries bytes of no packet above the payload: the
    # framing property says nothing about them, so the hold rule is not demanded of them either
    masks = _beat_masks(case)

    def hold_key(tok, i):
        return ((tok[0][0] & (masks[i] if i < len(masks) else -1),),) + tuple(tok[1:])
    prod, cons, cyc = _run(dut, dut.sink, dut.source, toks, case, hold_key=hold_key if any(p.get("short") for p in case["pk"]) else None)
    return _judge_packets(case, prod, cons, cyc, len(toks), "Depacketizer")


def _beat_masks(case):
    B = case["dw"] // 8
    L = case["hdr"]["length"] % B
    out = []
    for p in case["pk"]:
        out += [_m(8 * (B - L))] if p.get("short") else [_m(case["dw"])] * len(p["data"])
    return out


def _judge_packets(case, prod, cons, cyc, ntoks, what):
    cls = _cls(case, cons, prod)
    names = _names(case["hdr"])
    ctx = "%s dw=%d header=%r" % (what, case["dw"], case["hdr"])
    exp = []
    masks = []
    B = case["dw"] // 8
    for p in case["pk"]:
        par = tuple(p["hv"][n] for n in names)
        if p.get("short"):
            L = case["hdr"]["length"] % B
            mk = _m(8 * (B - L))
            exp.append((p["data"][0] & mk, par, 1))
            masks.append(mk)
            continue
        for i, d in enumerate(p["data"]):
            exp.append((d, par, int(i == len(p["data"]) - 1)))
            masks.append(_m(case["dw"]))
    got = [(t[0][0] & (masks[i] if i < len(masks) else -1), t[1], t[3]) for i, (_, t) in enumerate(cons.got)]
    if len(prod.sent) < ntoks:
        return bad("hang", "%s: only %d of %d input beats accepted, %d of %d beats delivered" % (ctx, len(prod.sent), ntoks, len(got), len(exp)),
                   key=_pkey(case, "hang"), cls=cls, cycles=cyc)
    for i, (e, g) in enumerate(zip(exp, got)):
        if e != g:
            what_ = "payload" if e[0] != g[0] else ("header fields" if e[1] != g[1] else "last")
            return bad("roundtrip", "%s: beat %d %s: got data=%#x params=%r last=%d, expected data=%#x params=%r last=%d" %
                       (ctx, i, what_, g[0], g[1], g[2], e[0], e[1], e[2]), key=_pkey(case, "roundtrip"), cls=cls, cycles=cyc)
    if len(got) != len(exp):
        return bad("count", "%s: %d beats delivered, %d expected" % (ctx, len(got), len(exp)), key=_pkey(case, "count"), cls=cls, cycles=cyc)
    if cons.hold_violations:
        return bad("hold", "%s: %s" % (ctx, cons.hold_violations[0][1]), key=_pkey(case, "hold"), cls=cls)
    return ok(nt=_nt(case, cons, prod), cls=cls, cycles=cyc)


def run_loopback(case):
    from migen import Module
    from litex.soc.interconnect.packet import Packetizer, Depacketizer
    from litex.soc.interconnect import stream
    hdr, with_par, plain = _descs(case)
    try:
        pk = Packetizer(with_par, plain, hdr)
        dp = Depacketizer(plain, with_par, hdr)
    except (ValueError, AssertionError, TypeError, IndexError) as ex:
        return skip("constructor rejected the header: %s" % type(ex).__name__, detail=str(ex)[:200])
    top = Module()
    top.submodules += pk, dp
    mods = [pk]
    if case.get("fifo_front"):
        f = stream.SyncFIFO(plain, 2)
        top.submodules += f
        top.comb += [pk.source.connect(f.sink), f.source.connect(dp.sink)]
    else:
        top.comb += pk.source.connect(dp.sink)
    toks = _ptoks(case)
    prod, cons, cyc = _run(top, pk.sink, dp.source, toks, case, limit_mul=2)
    return _judge_packets(case, prod, cons, cyc, len(toks), "Packetizer->Depacketizer")


# ------------------------------------------------------------------------------------ PacketFIFO

def st_fifo(tier):
    @st.composite
    def case(draw):
        depth = draw(st.sampled_from([2, 3, 4, 8, 16]))
        pdepth = draw(st.sampled_from([None, 1, 2, 4]))
        npar = draw(st.integers(0, 2))
        pk = []
        for _ in range(draw(st.integers(1, 8))):
            n = draw(st.integers(1, depth))
            pk.append({"par": [draw(st.integers(0, 255)) for _ in range(npar)], "data": [draw(st.integers(0, 255)) for _ in range(n)]})
        return {"kind": "fifo", "dw": 8, "depth": depth, "pdepth": pdepth, "npar": npar, "buffered": draw(st.booleans()), "pk": pk,
                "ps": draw(bench.st_schedule()), "cs": draw(bench.st_schedule()), "g": draw(st.one_of(st.none(), st.integers(0, 2 ** 16)))}
    return case()


def run_fifo(case):
    from litex.soc.interconnect.packet import PacketFIFO
    from litex.soc.interconnect.stream import EndpointDescription
    desc = EndpointDescription([("data", 8)], [("p%d" % i, 8) for i in range(case["npar"])])
    dut = PacketFIFO(desc, case["depth"], case["pdepth"], buffered=case["buffered"])
    toks = []
    for p in case["pk"]:
        for i, d in enumerate(p["data"]):
            toks.append(((d,), tuple(p["par"]), int(i == 0), int(i == len(p["data"]) - 1)))
    prod, cons, cyc = _run(dut, dut.sink, dut.source, toks, case)
    cls = ["depth%d" % case["depth"], "buffered" if case["buffered"] else "plain"] + (["backpressure"] if cons.stalled else [])
    ctx = "PacketFIFO(depth=%d, param_depth=%r, buffered=%r)" % (case["depth"], case["pdepth"], case["buffered"])
    if len(prod.sent) < len(toks):
        return bad("hang", "%s: only %d of %d beats accepted" % (ctx, len(prod.sent), len(toks)), key="packet:fifo:hang", cls=cls, cycles=cyc)
    exp = [(t[0][0], t[1], t[3]) for t in toks]
    got = [(t[0][0], t[1], t[3]) for _, t in cons.got]
    for i, (e, g) in enumerate(zip(exp, got)):
        if e != g:
            return bad("fifo-data", "%s: output beat %d = data %#x params %r last %d, expected data %#x params %r last %d (%d beats written, %d read)" %
                       (ctx, i, g[0], g[1], g[2], e[0], e[1], e[2], len(exp), len(got)), key="packet:fifo:data", cls=cls, cycles=cyc)
    if len(got) != len(exp):
        return bad("fifo-count", "%s: %d beats out for %d beats in" % (ctx, len(got), len(exp)), key="packet:fifo:data", cls=cls, cycles=cyc)
    # causality: a packet is released only after its last beat was written
    idx = 0
    for p in case["pk"]:
        n = len(p["data"])
        last_in = prod.sent[idx + n - 1][0]
        first_out = cons.got[idx][0]
        if first_out <= last_in:
            return bad("fifo-early", "%s: packet starting at beat %d left the FIFO in cycle %d, its last beat was written in cycle %d" %
                       (ctx, idx, first_out, last_in), key="packet:fifo:early", cls=cls, cycles=cyc)
        idx += n
    if cons.hold_violations:
        return bad("hold", "%s: %s" % (ctx, cons.hold_violations[0][1]), key="packet:fifo:hold", cls=cls)
    return ok(nt=len(case["pk"]) >= 2 and cons.stalled >= 1, cls=cls, cycles=cyc)


# ------------------------------------------------------------------------------------ Arbiter / Dispatcher

def st_route(tier):
    @st.composite
    def case(draw):
        kind = draw(st.sampled_from(["arbiter", "dispatcher"]))
        n = draw(st.integers(1, 4))
        c = {"kind": kind, "n": n, "dw": 8, "g": draw(st.one_of(st.none(), st.integers(0, 2 ** 16)))}
        m = n if kind == "arbiter" else 1
        c["pk"] = [[[draw(st.integers(0, 255)) for _ in range(draw(st.integers(1, 6)))] for _ in range(draw(st.integers(1, 5)))] for _ in range(m)]
        c["ps"] = [draw(bench.st_schedule()) for _ in range(m)]
        c["cs"] = [draw(bench.st_schedule()) for _ in range(1 if kind == "arbiter" else n)]
        if kind == "dispatcher":
            c["one_hot"] = draw(st.booleans())
            # -1: a selector value that designates no slave (one-hot 0; binary n when the code space is larger than n): such a
            # packet is dropped (the dispatcher's default branch accepts and discards it), the following ones still flow
            none_ok = (c["one_hot"] and n >= 1) or (not c["one_hot"] and n == 3)
            c["sel"] = draw(st.lists(st.one_of(st.integers(0, n - 1 if n > 1 else 0), st.integers(0, n - 1 if n > 1 else 0),
                                               st.just(-1) if none_ok else st.just(0)), min_size=1, max_size=24))
        return c
    return case()


def run_route(case):
    from litex.soc.interconnect import packet, stream
    n, kind = case["n"], case["kind"]
    desc = stream.EndpointDescription([("data", 8), ("src", 4), ("seq", 8)])
    T = 80 + 12 * sum(len(p) for pl in case["pk"] for p in pl)
    if kind == "arbiter":
        masters = [stream.Endpoint(desc) for _ in range(n)]
        slave = stream.Endpoint(desc)
        dut = packet.Arbiter(list(masters), slave)
        prods = []
        for m in range(n):
            toks = []
            for s, p in enumerate(case["pk"][m]):
                for i, d in enumerate(p):
                    toks.append(((d, m, s), (), int(i == 0), int(i == len(p) - 1)))
            prods.append(bench.Producer(masters[m], toks, case["ps"][m], garbage_seed=None if case["g"] is None else case["g"] + m, until=T - 40))
        cons = bench.Consumer(slave, case["cs"][0], until=T - 40)
        cyc = bench.run(dut, prods + [cons], T + 200, stop=lambda t: t > T and all(p.done() for p in prods))
        cls = ["arbiter", "n=%d" % n]
        if not all(p.done() for p in prods):
            k = next(i for i, p in enumerate(prods) if not p.done())
            return bad("starved", "packet.Arbiter(%d masters): master %d still has %d beats after %d cooperative cycles" %
                       (n, k, len(prods[k].tokens) - prods[k].idx, cyc - (T - 40)), key="packet:arbiter:starved", cls=cls, cycles=cyc)
        got = [t[0] for _, t in cons.got]
        lasts = [t[3] for _, t in cons.got]
        # atomic: between first and last beat of a packet no beat of another packet
        cur = None
        seen = {}
        for (d, src, seq), last in zip(got, lasts):
            if cur is not None and (src, seq) != cur:
                return bad("interleave", "packet.Arbiter(%d): beat of packet %r mixed into packet %r" % (n, (src, seq), cur),
                           key="packet:arbiter:interleave", cls=cls, cycles=cyc)
            cur = None if last else (src, seq)
            seen.setdefault((src, seq), []).append(d)
        for m in range(n):
            for s, p in enumerate(case["pk"][m]):
                if seen.get((m, s)) != p:
                    return bad("delivery", "packet.Arbiter(%d): packet %d of master %d delivered as %r, sent %r" % (n, s, m, seen.get((m, s)), p),
                               key="packet:arbiter:data", cls=cls, cycles=cyc)
        order = {}
        for (d, src, seq) in got:
            if order.get(src, -1) > seq:
                return bad("order", "packet.Arbiter: master %d packets reordered" % src, key="packet:arbiter:data", cls=cls)
            order[src] = seq
        return ok(nt=n >= 2 and len(got) >= 4, cls=cls, cycles=cyc)
    # dispatcher
    master = stream.Endpoint(desc)
    slaves = [stream.Endpoint(desc) for _ in range(n)]
    dut = packet.Dispatcher(master, list(slaves), one_hot=case["one_hot"])
    toks = []
    for s, p in enumerate(case["pk"][0]):
        for i, d in enumerate(p):
            toks.append(((d, 0, s), (), int(i == 0), int(i == len(p) - 1)))
    prod = bench.Producer(master, toks, case["ps"][0], garbage_seed=case["g"], until=T - 40)
    conss = [bench.Consumer(s, cs, until=T - 40, check_hold=False) for s, cs in zip(slaves, case["cs"])]
    selseq = case["sel"]
    enc = (lambda v: 0 if v < 0 else 1 << v) if case["one_hot"] else (lambda v: n if v < 0 else v)
    drv = bench.Driver(lambda t: {dut.sel: enc(selseq[t % len(selseq)])})
    cyc = bench.run(dut, [prod, drv] + conss, T + 100, stop=lambda t: t > T and prod.done())
    cls = ["dispatcher", "n=%d" % n, "one-hot" if case["one_hot"] else "binary"]
    if not prod.done():
        return bad("hang", "packet.Dispatcher(%d): %d beats never accepted" % (n, len(toks) - prod.idx), key="packet:dispatcher:hang", cls=cls)
    sel_at = lambda c: selseq[c % len(selseq)] if c >= 0 else 0
    # destination of a packet = selector value in the cycle its first beat was handed over
    dest = {}
    for c, t in prod.sent:
        if t[2]:
            dest[t[0][2]] = sel_at(c) if n > 1 or case["one_hot"] else 0
            if dest[t[0][2]] < 0:
                cls.append("packet-for-no-slave")
    per = {}
    for j, co in enumerate(conss):
        for c, t in co.got:
            d, src, seq = t[0]
            if dest.get(seq) != j:
                return bad("dispatch", "packet.Dispatcher(%d slaves, one_hot=%r): beat of packet %d delivered to slave %d, selector at its first beat was %r" %
                           (n, case["one_hot"], seq, j, dest.get(seq)), key="packet:dispatcher:route", cls=cls, cycles=cyc)
            per.setdefault(seq, []).append((c, d, t[3]))
    for s, p in enumerate(case["pk"][0]):
        gotp = [d for _, d, _ in sorted(per.get(s, []))]
        if dest.get(s, 0) < 0:
            p = []                 # dropped
        if gotp != p:
            return bad("delivery", "packet.Dispatcher: packet %d delivered as %r, sent %r" % (s, gotp, p), key="packet:dispatcher:data", cls=cls, cycles=cyc)
    return ok(nt=n >= 2 and len(case["pk"][0]) >= 2, cls=cls, cycles=cyc)


def subchecks():
    return [
        Sub("packetizer", run_packetizer, strategy=st_case("packetizer"), examples=(700, 12000), rule="Packetizer vs byte-layout reference"),
        Sub("depacketizer", run_depacketizer, strategy=st_case("depacketizer"), examples=(700, 12000), rule="Depacketizer fed with reference byte streams"),
        Sub("loopback", run_loopback, strategy=st_case("loopback"), examples=(700, 12000), rule="Packetizer -> (FIFO) -> Depacketizer round trip"),
        Sub("fifo", run_fifo, strategy=st_fifo, examples=(900, 14000), rule="PacketFIFO: whole packets, own params, released after the last beat"),
        Sub("routing", run_route, strategy=st_route, examples=(900, 14000), rule="packet.Arbiter / Dispatcher atomic forwarding"),
    ]

"""C03 - Stream elements deliver each token exactly once, in order, rightly transformed."""
import itertools
import copy

from hypothesis import strategies as st

from vlib.runner import Sub, ok, bad, skip
from vlib import bench, streams, streamrun

RULE = ("element x parameters x token list x producer schedule x consumer schedule; the tokens handshaken at "
        "the sink are fed to a per-element token-sequence reference model and must equal the tokens handshaken "
        "at the source after a drain phase; non-trivial = >=3 tokens delivered, >=1 cycle with source valid&~ready "
        "and >=1 producer pause; distinct = canonical JSON of the case")
ASSUMPTIONS = ["Migen's simulator (site-packages) defines FHDL semantics",
               "producer holds valid/token until accepted; while idle it drives zeros or garbage (qualified by valid)",
               "params are constant inside a group of an up-converting element (which token's param is reported is unspecified)",
               "slots of an up-converted word beyond valid_token_count are unconstrained"]

GENERIC = ["PipeValid", "PipeReady", "Buffer", "SyncFIFO", "Delay", "CDCsame", "Bufferized", "Pipeline", "Converter",
           "StrideConverter", "Pack", "Unpack", "Cast", "Shifter0", "Chain"]


def _classes(case, r):
    cls = ["elem:" + case["elem"]]
    if case["g"] is not None:
        cls.append("garbage-idle")
    if r.cons.stalled:
        cls.append("backpressure")
    cls.append("ps:" + case["ps"][0])
    cls.append("cs:" + case["cs"][0])
    return cls


def _nontrivial(case, r):
    pauses = 0
    for (c0, _), (c1, _) in zip(r.sent, r.sent[1:]):
        if c1 > c0 + 1:
            pauses += 1
    return len(r.got) >= 3 and r.cons.stalled >= 1 and pauses >= 1


def run_generic(case):
    e = streams.ELEMS[case["elem"]]
    model = e.model(case["p"])
    try:
        r = streamrun.run_case(case)
    except streamrun.Rejected as ex:
        return skip("constructor rejected parameters", detail=str(ex))
    cls = _classes(case, r)
    if r.undelivered:
        return bad("accepted-all", "%d of %d tokens were never accepted (sink stalled forever), %d cycles" %
                   (r.undelivered, len(case["toks"]), r.cycles), key="stall:" + case["elem"], cls=cls, cycles=r.cycles)
    sink_toks = [list(t) for _, t in r.sent]
    got = [t for _, t in r.got]
    if case["elem"] == "Chain" and case["p"]["kind"] == "buf_gear_gear":
        v = _gear_chain(case, sink_toks, got)
    else:
        exp = model(case["p"], sink_toks)
        v = streamrun.compare(exp, got)
    if v is not None:
        return bad("sequence", "%s %r: %s" % (case["elem"], case["p"], v[1]), key="data:" + case["elem"], cls=cls, cycles=r.cycles)
    return ok(nt=_nontrivial(case, r), cls=cls, cycles=r.cycles)


def _gear_chain(case, sink_toks, got):
    p = case["p"]
    ib = streams.gearbox_bits([t[0][0] for t in sink_toks], p["i"], p["msb"])
    ob = streams.gearbox_bits([t[0][0] for t in got], p["i"], p["msb"])
    if ob != ib[:len(ob)]:
        k = next(i for i, (a, b) in enumerate(zip(ob, ib)) if a != b) if len(ob) <= len(ib) else len(ib)
        return k, "bit stream differs at bit %d" % k
    import math
    l = p["i"] * p["o"] // math.gcd(p["i"], p["o"])
    if len(ib) - len(ob) >= 4 * l + 2 * (p["i"] + p["o"]):
        return len(ob), "%d bits still inside after drain (capacity exceeded)" % (len(ib) - len(ob))
    return None


def st_generic(tier):
    return streamrun.st_case(GENERIC, tier, max_tokens=24 if tier == "quick" else 40, min_tokens=0)


# ------------------------------------------------------------------------------------ gearbox (bit stream)

def st_gear(tier):
    return streamrun.st_case(["Gearbox"], tier, max_tokens=40, min_tokens=4)


def run_gear(case):
    p = case["p"]
    r = streamrun.run_case(case)
    cls = _classes(case, r)
    if r.undelivered:
        return bad("accepted-all", "gearbox %r never accepted %d tokens" % (p, r.undelivered), key="stall:Gearbox", cls=cls)
    ib = streams.gearbox_bits([t[0][0] for _, t in r.sent], p["i"], p["msb"])
    ob = streams.gearbox_bits([t[0][0] for _, t in r.got], p["o"], p["msb"])
    if ob != ib[:len(ob)]:
        k = next((i for i, (a, b) in enumerate(zip(ob, ib)) if a != b), min(len(ob), len(ib)))
        return bad("bitstream", "Gearbox %r: output bit stream differs from input at bit %d (in %d bits, out %d bits)" %
                   (p, k, len(ib), len(ob)), key="data:Gearbox", cls=cls, cycles=r.cycles)
    if len(ib) - len(ob) >= p["o"]:
        # after the drain phase less than one output word may remain
        return bad("drain", "Gearbox %r: %d bits left inside after drain (>= one output word of %d)" %
                   (p, len(ib) - len(ob), p["o"]), key="drain:Gearbox", cls=cls, cycles=r.cycles)
    return ok(nt=_nontrivial(case, r), cls=cls, cycles=r.cycles)


# ------------------------------------------------------------------------------------ routing elements

def st_route(tier):
    @st.composite
    def case(draw):
        kind = draw(st.sampled_from(["gate", "mux", "demux"]))
        lay = draw(streams.st_layout(max_fields=2, max_w=6))
        pw = [w for _, w in lay["pl"]]
        qw = [w for _, w in lay["ql"]]
        c = {"kind": kind, "lay": lay, "g": draw(st.one_of(st.none(), st.integers(0, 2 ** 16)))}
        if kind == "gate":
            c["srwd"] = draw(st.booleans())
            c["ctl"] = draw(bench.st_schedule())
            c["toks"] = [draw(streams.st_tokens(pw, qw, min_size=3, max_size=20))]
            c["ps"] = [draw(bench.st_schedule())]
            c["cs"] = [draw(bench.st_schedule())]
        else:
            n = draw(st.integers(1, 4))
            c["n"] = n
            # sel waveform: list of (value, run) including out-of-range values
            selw = max(1, (max(n, 2) - 1).bit_length())
            c["sel"] = draw(st.lists(st.tuples(st.integers(0, (1 << selw) - 1), st.integers(1, 10)).map(list), min_size=1, max_size=10))
            m = n if kind == "mux" else 1
            k = 1 if kind == "mux" else n
            c["toks"] = [draw(streams.st_tokens(pw, qw, min_size=2, max_size=12)) for _ in range(m)]
            c["ps"] = [draw(bench.st_schedule()) for _ in range(m)]
            c["cs"] = [draw(bench.st_schedule()) for _ in range(k)]
        return c
    return case()


def run_route(case):
    from litex.soc.interconnect import stream as S
    desc = streams.mk_desc(case["lay"])
    kind = case["kind"]
    T = 40 + 8 * sum(len(t) for t in case["toks"])
    if kind == "gate":
        dut = S.Gate(desc, sink_ready_when_disabled=case["srwd"])
        ctl = bench.Schedule(case["ctl"])
        prods = [bench.Producer(dut.sink, [streamrun.tok_tuple(t) for t in case["toks"][0]], case["ps"][0], garbage_seed=case["g"])]
        conss = [bench.Consumer(dut.source, case["cs"][0], check_hold=False)]
        ctl_log = []

        def fn(t):
            # enable for the NEXT cycle (t+1)... the Driver writes at activation t, visible in cycle t+1
            ctl_log.append(ctl.bit(t))
            return {dut.enable: ctl.bit(t)}
        drv = bench.Driver(fn)
        bench.run(dut, prods + conss + [drv], T)
        # a value written at activation t is visible during cycle t (read back at activation t+1)
        en = lambda c: ctl.bit(c) if c >= 0 else 0
        sent, got = prods[0].sent, conss[0].got
        exp = [(c, t) for c, t in sent if en(c)]
        if exp != got:
            return bad("gate", "Gate(srwd=%r): source handshakes %r, expected (sink handshakes while enabled) %r" %
                       (case["srwd"], got[:6], exp[:6]), key="data:Gate")
        if not case["srwd"] and any(not en(c) for c, _ in sent):
            return bad("gate-ready", "sink handshake while disabled although sink_ready_when_disabled=False", key="data:Gate")
        nt = len(got) >= 2 and any(not en(c) for c in range(0, T)) and any(en(c) for c in range(0, T))
        return ok(nt=nt, cls=["gate", "dropped" if len(exp) < len(sent) else "no-drop"], cycles=T)

    n = case["n"]
    selseq = []
    for v, run in case["sel"]:
        selseq += [v] * run
    sel_at = lambda t: selseq[t % len(selseq)]
    if kind == "mux":
        dut = S.Multiplexer(desc, n)
        sinks = [getattr(dut, "sink%d" % i) for i in range(n)]
        sources = [dut.source]
    else:
        dut = S.Demultiplexer(desc, n)
        sinks = [dut.sink]
        sources = [getattr(dut, "source%d" % i) for i in range(n)]
    prods = [bench.Producer(ep, [streamrun.tok_tuple(t) for t in toks], ps, garbage_seed=None if case["g"] is None else case["g"] + i)
             for i, (ep, toks, ps) in enumerate(zip(sinks, case["toks"], case["ps"]))]
    conss = [bench.Consumer(ep, cs, check_hold=False) for ep, cs in zip(sources, case["cs"])]
    drv = bench.Driver(lambda t: {dut.sel: sel_at(t)})
    bench.run(dut, prods + conss + [drv], T)
    sel = lambda c: sel_at(c) if c >= 0 else 0            # value during cycle c
    for c in range(T):
        s = sel(c)
        ins = [(i, t) for i, pr in enumerate(prods) for cc, t in pr.sent if cc == c]
        outs = [(i, t) for i, co in enumerate(conss) for cc, t in co.got if cc == c]
        if kind == "mux":
            bad_in = [i for i, _ in ins if i != s]
            exp_out = [(0, t) for i, t in ins if i == s]
        else:
            bad_in = []
            exp_out = [(s, t) for _, t in ins] if s < n else []
            if s >= n and ins:
                bad_in = [0]
        if bad_in:
            return bad("route", "%s n=%d: cycle %d sel=%d but sink(s) %r completed a handshake" % (kind, n, c, s, bad_in), key="data:" + kind)
        if outs != exp_out:
            return bad("route", "%s n=%d: cycle %d sel=%d: source handshakes %r, expected %r" % (kind, n, c, s, outs, exp_out), key="data:" + kind)
    for i, pr in enumerate(prods):
        if [t for _, t in pr.sent] != [streamrun.tok_tuple(t) for t in case["toks"][i]][:len(pr.sent)]:
            return bad("route-order", "%s: sink %d tokens out of order" % (kind, i), key="data:" + kind)
    total = sum(len(co.got) for co in conss)
    return ok(nt=total >= 3 and len(set(selseq)) > 1, cls=[kind, "n=%d" % n], cycles=T)


# ------------------------------------------------------------------------------------ exhaustive schedules

EXH_ELEMS = [
    ("PipeValid", {"lay": {"pl": [["a", 4]], "ql": [["p", 2]]}}),
    ("PipeReady", {"lay": {"pl": [["a", 4]], "ql": [["p", 2]]}}),
    ("Buffer", {"lay": {"pl": [["a", 4]], "ql": []}, "pv": True, "pr": True}),
    ("SyncFIFO", {"lay": {"pl": [["a", 4]], "ql": []}, "depth": 2, "buffered": False}),
    ("SyncFIFO", {"lay": {"pl": [["a", 4]], "ql": []}, "depth": 2, "buffered": True}),
    ("SyncFIFO", {"lay": {"pl": [["a", 4]], "ql": []}, "depth": 1, "buffered": False}),
    ("Converter", {"from": 2, "to": 4, "ratio": 2, "up": True, "reverse": False, "count": True}),
    ("Converter", {"from": 2, "to": 6, "ratio": 3, "up": True, "reverse": True, "count": False}),
    ("Converter", {"from": 4, "to": 2, "ratio": 2, "up": False, "reverse": False, "count": False}),
    ("StrideConverter", {"base": [["a", 2]], "ql": [["p", 3]], "ratio": 2, "up": True, "reverse": False}),
    ("StrideConverter", {"base": [["a", 2]], "ql": [["p", 3]], "ratio": 2, "up": False, "reverse": False}),
    ("Pack", {"lay": {"pl": [["a", 3]], "ql": [["p", 3]]}, "n": 2, "reverse": False}),
    ("Unpack", {"lay": {"pl": [["a", 3]], "ql": [["p", 3]]}, "n": 2, "reverse": False}),
    ("Gearbox", {"i": 2, "o": 3, "msb": True}),
    ("Gearbox", {"i": 3, "o": 2, "msb": False}),
    ("Shifter0", {"dw": 4}),
]


def enum_exh(tier):
    L = 5 if tier == "quick" else 7
    cases = []
    for name, p in EXH_ELEMS:
        e = streams.ELEMS[name]
        pw, qw = e.sink_widths(p)
        kw = e.token_kw(p)
        lasts = (2,) if "last_p" in kw else ()
        toks = streams.numbered_tokens(pw, qw, 5, lasts=lasts)
        if kw.get("with_first_last") is False:
            toks = [[t[0], t[1], 0, 0] for t in toks]
        toks = streams.fix_group_params(toks, kw.get("group_param", 0))
        for bits in range(1 << (2 * L)):
            ps = [(bits >> i) & 1 for i in range(L)]
            cs = [(bits >> (L + i)) & 1 for i in range(L)]
            cases.append({"elem": name, "p": p, "toks": toks, "ps": ["fin", ps], "cs": ["fin", cs], "g": 7})
    return cases


def run_exh(case):
    if case["elem"] == "Gearbox":
        return run_gear(case)
    return run_generic(case)


# ------------------------------------------------------------------------------------ constructor purity

def enum_ctor(tier):
    out = []
    for kind in ["Pack", "Unpack", "SyncFIFO", "PipeValid", "Buffer", "StrideConverter", "Mux", "Gate", "CDC"]:
        for lay in [{"pl": [["a", 5], ["b", 3]], "ql": [["p", 4]]}, {"pl": [["a", 8]], "ql": []}]:
            out.append({"kind": kind, "lay": lay})
    return out


def run_ctor(case):
    """Constructors must not modify the EndpointDescription they are given (metamorphic: a second
    element built from the same description object equals one built from a fresh description)."""
    from litex.soc.interconnect import stream as S
    d = streams.mk_desc(case["lay"])
    before = (copy.deepcopy(d.payload_layout), copy.deepcopy(d.param_layout))
    k = case["kind"]
    try:
        if k == "Pack":
            S.Pack(d, 2)
        elif k == "Unpack":
            S.Unpack(2, d)
        elif k == "SyncFIFO":
            S.SyncFIFO(d, 4)
        elif k == "PipeValid":
            S.PipeValid(d)
        elif k == "Buffer":
            S.Buffer(d)
        elif k == "StrideConverter":
            S.StrideConverter(d, S.EndpointDescription([(n, 2 * w) for n, w in case["lay"]["pl"]], [(n, w) for n, w in case["lay"]["ql"]]))
        elif k == "Mux":
            S.Multiplexer(d, 2)
        elif k == "Gate":
            S.Gate(d)
        elif k == "CDC":
            S.ClockDomainCrossing(d, "sys", "sys", buffered=True)
    except Exception as ex:
        return bad("ctor", "%s raised %r" % (k, ex), key="ctor-raise:" + k)
    after = (d.payload_layout, d.param_layout)
    if after != before:
        return bad("ctor-purity", "%s changed the caller's EndpointDescription: %r -> %r" % (k, before, after), key="ctor-mutates:" + k)
    return ok(nt=True, cls=[k])


def subchecks():
    return [
        Sub("generic", run_generic, strategy=st_generic, examples=(5000, 150000),
            rule="15 element kinds incl. compositions; tokens 0..24 (thorough 40)"),
        Sub("gearbox", run_gear, strategy=st_gear, examples=(700, 20000),
            rule="Gearbox width pairs with lcm<=400, msb/lsb first; bit-stream prefix oracle"),
        Sub("routing", run_route, strategy=st_route, examples=(1500, 40000),
            rule="Gate / Multiplexer / Demultiplexer with generated enable / sel waveforms; per-cycle routing oracle"),
        Sub("exhaustive", run_exh, enum=enum_exh, exhaustive=True,
            rule="16 element configurations x ALL producer x consumer schedules of length 5 (thorough 7) with 5 numbered tokens"),
        Sub("ctor", run_ctor, enum=enum_ctor, exhaustive=True, shards=(2, 2),
            rule="constructors leave the caller's EndpointDescription unchanged"),
    ]

"""C13 - SoC resource allocation never hands out overlapping or out-of-range resources."""
import sys

from hypothesis import strategies as st

from vlib.runner import Sub, ok, bad, skip
from vlib import env

RULE = ("model-based histories of API calls against the real handler objects (bus regions / CSR+IRQ "
        "locations / platform resources); a rejected request ends that design and the successful prefix "
        "is replayed on fresh handlers; invariants are checked after every successful step; non-trivial "
        "= history with at least one rejection and one later success, or a boundary request; distinct = "
        "canonical JSON of the history")
ASSUMPTIONS = ["SoCError / ConstraintError / ValueError / AssertionError raised by a request is a legal rejection",
               "platform descriptions have unique (name, number) pairs (what every board file satisfies)",
               "decoders are evaluated with Migen's expression Evaluator on boundary and generated word addresses, not on all 2^30"]

REJECT = None


def _rejections():
    global REJECT
    if REJECT is None:
        from litex.soc.integration.soc import SoCError
        from litex.build.generic_platform import ConstraintError
        REJECT = (SoCError, ConstraintError, ValueError, AssertionError, KeyError, TypeError, IndexError)
    return REJECT


# ================================================================================ bus regions

NAMES = ["rom", "sram", "main_ram", "csr", "io0", "io1", "p0", "p1", "p2", "p3"]


def st_bus(tier):
    sizes = st.one_of(
        st.sampled_from([0x4, 0x10, 0x100, 0x1000, 0x2000, 0x10000, 0x100000, 0x1000000, 0x10000000, 0x20000000,
                         0x40000000, 0x80000000]),
        st.integers(1, 0x3000),
        st.integers(0x1000, 0x2000000),
        st.builds(lambda k, d: max(1, (1 << k) + d), st.integers(2, 31), st.integers(-2, 2)),
    )

    @st.composite
    def origin(draw, aw):
        kind = draw(st.integers(0, 5))
        if kind == 0:
            return draw(st.sampled_from([0, 0x10000000, 0x20000000, 0x40000000, 0x80000000, 0xf0000000, 0xe0000000]))
        if kind == 1:   # aligned on some power of two
            k = draw(st.integers(2, aw - 1))
            return (draw(st.integers(0, (1 << (aw - k)) - 1)) << k) & ((1 << aw) - 1)
        if kind == 2:   # ends exactly at the top
            k = draw(st.integers(2, 30))
            return (1 << aw) - (1 << k)
        if kind == 3:   # unaligned
            return draw(st.integers(0, (1 << min(aw, 33)) - 1))
        if kind == 4:
            return draw(st.integers(0, 0x20000)) * 0x1000
        return draw(st.integers(0, 0xff)) << 24

    @st.composite
    def hist(draw):
        std = draw(st.sampled_from(["wishbone", "wishbone", "axi-lite", "axi"]))
        dw = draw(st.sampled_from([32, 32, 64]))
        aw = draw(st.sampled_from([32, 32, 32, 64]))
        nops = draw(st.integers(2, 14 if tier == "quick" else 30))
        ops = []
        ios = []
        fixed = []
        for _ in range(nops):
            k = draw(st.integers(0, 9))
            name = draw(st.sampled_from(NAMES))
            if k == 0:
                ops.append(["io", name, draw(origin(aw)), draw(sizes)])
                ios.append(ops[-1][2:4])
            elif k in (1, 2, 3):
                sz = draw(sizes)
                if ios and draw(st.integers(0, 2)) == 0:
                    # around the ends of an IO region declared before: inside, straddling either end, covering it
                    io_o, io_s = draw(st.sampled_from(ios))
                    og = max(0, draw(st.sampled_from([io_o, io_o - sz // 2, io_o + io_s - sz, io_o + io_s - sz // 2, io_o + io_s, io_o - sz])))
                    og &= (1 << aw) - 1
                elif fixed and draw(st.integers(0, 2)) == 0:
                    # inside an earlier region (nested / overlapping requests, linker-only regions lying inside ordinary ones)
                    fo, fs = draw(st.sampled_from(fixed))
                    og = (fo + draw(st.sampled_from([fs // 2, fs // 4, 3 * fs // 4, 0]))) & ((1 << aw) - 1)
                    sz = max(4, draw(st.sampled_from([fs // 4, fs // 8, fs // 2, sz])))
                else:
                    og = draw(origin(aw))
                linker = draw(st.integers(0, 7 if not fixed else 3)) == 0
                ops.append(["fix", name, og, sz, draw(st.booleans()), linker])
                fixed.append([og, sz])
            elif k in (4, 5):
                ops.append(["alloc", name, draw(sizes), draw(st.booleans())])
            elif k in (6, 7):
                how = draw(st.sampled_from(["named", "fixed", "alloc", "anon"]))
                ops.append(["slave", None if how == "anon" else name, how, draw(origin(aw)), draw(sizes), draw(st.booleans()),
                            # a region without address decoding (decode=False: its slave answers every address) - legal only alone
                            how == "fixed" and draw(st.integers(0, 7)) == 0])
            elif k == 8:
                ops.append(["master", draw(st.one_of(st.none(), st.none(), st.sampled_from(["cpu", "dma", "m0", "master0", "master1", "master2", "master3"])))])
            else:
                ops.append(["finalize", draw(st.lists(st.integers(0, (1 << 34) - 1), max_size=4))])
        if draw(st.booleans()):
            ops.append(["finalize", draw(st.lists(st.integers(0, (1 << 34) - 1), max_size=4))])
        return {"std": std, "dw": dw, "aw": aw, "ops": ops}
    return hist()


def _new_bus(case):
    from litex.soc.integration.soc import SoCBusHandler
    b = SoCBusHandler(standard=case["std"], data_width=case["dw"], address_width=case["aw"], timeout=None)
    b.io_regions_check = True
    return b


def _iface(bus):
    from litex.soc.interconnect import wishbone, axi
    if bus.standard == "wishbone":
        return wishbone.Interface(data_width=bus.data_width, address_width=bus.address_width, addressing="word")
    if bus.standard == "axi-lite":
        return axi.AXILiteInterface(data_width=bus.data_width, address_width=bus.address_width)
    return axi.AXIInterface(data_width=bus.data_width, address_width=bus.address_width)


def _apply_bus(bus, op, log):
    """Apply one op; returns a dict describing what a success means (for the invariants)."""
    from litex.soc.integration.soc import SoCRegion, SoCIORegion
    kind = op[0]
    if kind == "io":
        _, name, origin, size = op
        dup = name in bus.regions or name in bus.io_regions
        bus.add_region(name, SoCIORegion(origin=origin, size=size, cached=False))
        return {"dup_name": dup}
    if kind == "fix":
        _, name, origin, size, cached, linker = op
        dup = name in bus.regions or name in bus.io_regions
        bus.add_region(name, SoCRegion(origin=origin, size=size, cached=cached, linker=linker))
        return {"dup_name": dup, "fixed": name, "cached": cached}
    if kind == "alloc":
        _, name, size, cached = op
        dup = name in bus.regions or name in bus.io_regions
        bus.add_region(name, SoCRegion(origin=None, size=size, cached=cached))
        return {"dup_name": dup, "allocated": name, "cached": cached}
    if kind == "slave":
        _, name, how, origin, size, cached = op[:6]
        nodecode = len(op) > 6 and bool(op[6])
        dupslave = name is not None and name in bus.slaves
        if how == "named":
            region = None
        elif how == "alloc":
            region = SoCRegion(origin=None, size=size, cached=cached)
        else:
            region = SoCRegion(origin=origin, size=size, cached=cached, decode=not nodecode)
        dup = region is not None and name is not None and (name in bus.regions or name in bus.io_regions)
        nbefore = len(bus.slaves)
        bus.add_slave(name=name, slave=_iface(bus), region=region)
        r = {"dup_name": dup, "dup_slave": dupslave}
        if how == "alloc":
            r["allocated"] = name if name is not None else "slave%d" % nbefore
            r["cached"] = cached
        elif region is not None:
            r["fixed"] = name if name is not None else "slave%d" % nbefore
            r["cached"] = cached
        return r
    if kind == "master":
        name = op[1]
        eff = name if name is not None else "master%d" % len(bus.masters)     # the name an unnamed master is given
        dup = eff in bus.masters
        nb = len(bus.masters)
        bus.add_master(name=name, master=_iface(bus))
        return {"dup_master": dup or len(bus.masters) != nb + 1}
    raise AssertionError(kind)


def _window(r):
    return r.origin, r.origin + r.size_pow2


def _bus_invariants(bus, info, case):
    aw = case["aw"]
    if info.get("dup_name"):
        return "names", "a region name that was already in use was accepted"
    if info.get("dup_slave"):
        return "names", "a slave name that was already in use was accepted"
    if info.get("dup_master"):
        return "names", "a master name that was already in use was accepted"
    regs = [(n, r) for n, r in bus.regions.items() if not r.linker]
    for i in range(len(regs)):
        for j in range(i + 1, len(regs)):
            a0, a1 = _window(regs[i][1])
            b0, b1 = _window(regs[j][1])
            if a0 < b1 and b0 < a1:
                return "disjoint", "regions %s [%#x,%#x) and %s [%#x,%#x) overlap" % (regs[i][0], a0, a1, regs[j][0], b0, b1)
    ios = list(bus.io_regions.items())
    for i in range(len(ios)):
        for j in range(i + 1, len(ios)):
            a0, a1 = _window(ios[i][1])
            b0, b1 = _window(ios[j][1])
            if a0 < b1 and b0 < a1:
                return "disjoint-io", "IO regions %s and %s overlap" % (ios[i][0], ios[j][0])
    an = info.get("allocated")
    if an is not None:
        r = bus.regions[an]
        if r.origin < 0 or r.origin + r.size > (1 << aw):
            return "alloc-range", "allocated region %s [%#x,+%#x) outside the %d-bit space" % (an, r.origin, r.size, aw)
        if r.origin % r.size_pow2:
            return "alloc-aligned", "allocated region %s origin %#x not aligned on %#x" % (an, r.origin, r.size_pow2)
        if not info["cached"]:
            inside = any(r.origin >= io.origin and r.origin + r.size <= io.origin + io.size for _, io in ios)
            if not inside:
                return "alloc-io", "uncached allocated region %s [%#x,+%#x) is in no IO region" % (an, r.origin, r.size)
    fn = info.get("fixed")
    if fn is not None and fn in bus.regions and not info["cached"] and bus.io_regions_check:
        # IO / cached consistency: a region declared uncached at a fixed origin is accepted only inside an IO region
        r = bus.regions[fn]
        if not any(r.origin >= io.origin and r.origin + r.size <= io.origin + io.size for _, io in ios):
            return "fixed-io", "uncached region %s [%#x,+%#x) declared at a fixed origin was accepted although it lies in no IO region" % (fn, r.origin, r.size)
    return None


def _eval_decoder(pred, adr_w, value):
    from migen.fhdl.structure import Signal
    from migen.sim.core import Evaluator
    a = Signal(adr_w)
    e = pred(a)
    if e is True:
        return 1
    if e is False:
        return 0
    ev = Evaluator({}, {})
    ev.signal_values[a] = value & ((1 << adr_w) - 1)
    return int(bool(ev.eval(e)))


def _finalize_check(bus, case, extra_addrs, good=()):
    """Decoders of all slave regions: exact accept set on boundary + generated addresses."""
    B = case["dw"] // 8
    adr_w = case["aw"] - (B.bit_length() - 1)
    preds = {}
    for n in bus.slaves:
        r = bus.regions[n]
        try:
            preds[n] = r.decoder(bus)
        except _rejections():
            env.restore_stderr()
            if r.origin % r.size_pow2 == 0 and r.size_pow2 >= B and r.origin % B == 0:
                return "decoder-reject", "decoder of aligned region %s (%#x,+%#x) raised" % (n, r.origin, r.size)
            return "rejected"          # unaligned / sub-word region rejected at finalize: legal
        if r.origin % r.size_pow2:
            return "unaligned-built", "region %s origin %#x not aligned on %#x but a decoder was built" % (n, r.origin, r.size_pow2)
    if any(not bus.regions[n].decode for n in bus.slaves):
        if len(bus.slaves) == 1:
            return None                # a single slave without decoding: answers everything by design
        # several slaves, one of them without decoding: the bus itself decides at finalisation (on a replayed copy, which
        # gets a master if it has none - the check sits on the path that builds the interconnect)
        b2 = _new_bus(case)
        try:
            for g in good:
                _apply_bus(b2, g, [])
            if not b2.masters:
                b2.add_master(name="probe", master=_iface(b2))
            b2.do_finalize()
        except _rejections():
            env.restore_stderr()
            return "rejected"
        finally:
            env.restore_stderr()
    words = set()
    for n in bus.slaves:
        r = bus.regions[n]
        o, s = r.origin // B, max(1, r.size_pow2 // B)
        for w in (o - 1, o, o + 1, o + s // 2, o + s - 1, o + s, o + s + 1, o ^ (1 << (adr_w - 1)), (o + s - 1) | 1):
            if 0 <= w < (1 << adr_w):
                words.add(w)
    for a in extra_addrs:
        words.add((a // B) & ((1 << adr_w) - 1))
    words.update([0, (1 << adr_w) - 1])
    for w in sorted(words):
        hits = []
        for n in bus.slaves:
            r = bus.regions[n]
            got = _eval_decoder(preds[n], adr_w, w)
            lo, hi = r.origin // B, (r.origin + r.size_pow2 + B - 1) // B
            exp = int(lo <= w < hi)
            if r.origin == 0 and r.size_pow2 == (1 << case["aw"]):
                exp = 1
            if got != exp:
                return "decoder-window", "slave %s (%#x,+%#x): decoder(word %#x)=%d, window says %d" % (n, r.origin, r.size_pow2, w, got, exp)
            if got:
                hits.append(n)
        if len(hits) > 1:
            return "decoder-double", "word address %#x selects %s" % (w, hits)
    return None


def run_bus(case):
    _rejections()
    bus = _new_bus(case)
    good = []
    rejections = 0
    successes_after_reject = 0
    allocs = 0
    finalized = 0
    cls = set()
    for op in case["ops"]:
        if op[0] == "finalize":
            if not bus.slaves:
                continue
            res = _finalize_check(bus, case, op[1], good)
            if res == "rejected":
                cls.add("finalize-rejected")
                rejections += 1
                continue
            if res is not None:
                key = "bus-linker-slave-overlap" if (case.get("allow_linker_slave") and res[0] == "decoder-double") else "bus-" + res[0]
                Bw = case["dw"] // 8
                if res[0] in ("decoder-double", "decoder-window") and any(bus.regions[n_].size_pow2 < Bw for n_ in bus.slaves):
                    # known finding: a region smaller than one bus word is accepted and decodes the whole word
                    key = "bus-subword-region"
                return bad(res[0], res[1] + " | history=%r" % (good,), key=key, cls=sorted(cls))
            finalized += 1
            continue
        # alloc_region() scans in steps of the requested size: bound the scan (DESIGN C13) - an op that
        # would need more than 2^17 steps is not executed (counted), never judged
        asz = None
        if op[0] == "alloc":
            asz = op[2]
        elif op[0] == "slave" and op[2] == "alloc":
            asz = op[4]
        if asz is not None:
            span = sum(r.size_pow2 for r in bus.regions.values()) + sum(r.size_pow2 for r in bus.io_regions.values())
            if span // max(1, asz) > (1 << 17):
                cls.add("alloc-scan-too-long-not-run")
                continue
        if op[0] == "slave" and op[2] == "named" and op[1] in bus.regions and bus.regions[op[1]].linker and not case.get("allow_linker_slave"):
            # known finding bus-linker-slave-overlap (first seen by the thorough tier): regions flagged linker=True are exempt
            # from the overlap test, yet a slave can be bound to one (add_ethernet does) and is then decoded: on top of
            # another slave both decoders select the same addresses.  Excluded by construction, witness replayed.
            cls.add("slave-on-linker-region-not-run")
            continue
        try:
            info = _apply_bus(bus, op, good)
        except _rejections() as e:
            env.restore_stderr()
            rejections += 1
            cls.add("reject:" + op[0])
            # handlers are not transactional: rebuild from the successful prefix
            bus = _new_bus(case)
            for g in good:
                _apply_bus(bus, g, None)
            continue
        inv = _bus_invariants(bus, info, case)
        if inv is not None:
            return bad(inv[0], inv[1] + " | history=%r op=%r" % (good, op), key="bus-" + inv[0], cls=sorted(cls))
        good.append(op)
        if rejections:
            successes_after_reject += 1
        if "allocated" in info:
            allocs += 1
            cls.add("alloc-cached" if info["cached"] else "alloc-io")
    nt = (rejections >= 1 and successes_after_reject >= 1) or (allocs >= 1 and len(good) >= 3) or finalized >= 1
    if finalized:
        cls.add("finalized")
    return ok(nt=nt, cls=sorted(cls))


# ================================================================================ locations

LNAMES = ["uart", "timer0", "ctrl", "a", "b", "c", "d", "e"]


def st_locs(tier):
    @st.composite
    def hist(draw):
        kind = draw(st.sampled_from(["irq", "csr", "irq"]))
        if kind == "irq":
            n_locs = draw(st.integers(1, 8))
            cfg = {"n": n_locs}
        else:
            aw = draw(st.sampled_from([14, 15]))
            paging = draw(st.sampled_from([0x800, 0x1000, 0x2000, 0x4000]))
            cfg = {"aw": aw, "paging": paging}
            n_locs = 4 * (2 ** aw) // paging
        ops = []
        for _ in range(draw(st.integers(2, 16 if tier == "quick" else 40))):
            name = draw(st.sampled_from(LNAMES))
            n = draw(st.one_of(st.none(), st.none(), st.sampled_from([-1, 0, 1, n_locs - 1, n_locs, n_locs + 1]),
                               st.integers(0, n_locs + 1)))
            k = draw(st.integers(0, 5))
            if k <= 3:
                ops.append(["add", name, n, draw(st.booleans())])
            else:
                ops.append(["map", name])
        # locations reserved when the handler is created (csr_map / reserved_csrs): they go through the same checks as requests
        if kind == "csr" and draw(st.integers(0, 2)) == 0:
            cfg["reserved"] = [[draw(st.sampled_from(LNAMES)), draw(st.one_of(st.integers(0, 6), st.sampled_from([-1, n_locs - 1, n_locs, n_locs + 1])))]
                               for _ in range(draw(st.integers(1, 4)))]
        return {"kind": kind, "cfg": cfg, "ops": ops}
    return hist()


def _new_loc(case):
    from litex.soc.integration.soc import SoCIRQHandler, SoCCSRHandler
    if case["kind"] == "irq":
        h = SoCIRQHandler(n_irqs=case["cfg"]["n"])
        h.enable()
        return h
    res = case["cfg"].get("reserved")
    if res:
        # a dict, as the SoC passes it: a name listed twice keeps its last number
        return SoCCSRHandler(data_width=32, address_width=case["cfg"]["aw"], paging=case["cfg"]["paging"], reserved_csrs={k: v for k, v in res})
    return SoCCSRHandler(data_width=32, address_width=case["cfg"]["aw"], paging=case["cfg"]["paging"])


def _apply_loc(h, op):
    if op[0] == "add":
        _, name, n, reuse = op
        existed = name in h.locs
        h.add(name, n=n, use_loc_if_exists=reuse)
        return {"name": name, "existed": existed, "reuse": reuse, "n": n}
    _, name = op
    if not hasattr(h, "address_map"):
        h.add(name, use_loc_if_exists=True)
        return {"name": name, "existed": False, "reuse": True, "n": None}
    existed = name in h.locs
    got = h.address_map(name, None)
    if got != h.locs[name]:
        raise RuntimeError("address_map returned %r but locs say %r" % (got, h.locs[name]))
    return {"name": name, "existed": existed, "reuse": True, "n": None}


def run_locs(case):
    _rejections()
    try:
        h = _new_loc(case)
    except _rejections():
        env.restore_stderr()
        return ok(nt=True, cls=["reserved-map-rejected"])
    if case["cfg"].get("reserved"):
        vals = list(h.locs.values())
        if len(set(vals)) != len(vals) or any(not isinstance(n, int) or not (0 <= n < h.n_locs) for n in vals):
            return bad("loc-reserved", "handler created with reserved locations %r holds %r (legal range 0..%d, each number once)" %
                       (case["cfg"]["reserved"], h.locs, h.n_locs - 1), key="loc-reserved")
    good = []
    rejections = 0
    after = 0
    boundary = False
    for op in case["ops"]:
        before = dict(h.locs)
        try:
            info = _apply_loc(h, op)
        except _rejections():
            env.restore_stderr()
            rejections += 1
            h = _new_loc(case)
            for g in good:
                _apply_loc(h, g)
            continue
        good.append(op)
        if rejections:
            after += 1
        n_locs = h.n_locs
        vals = list(h.locs.values())
        hist = " | history=%r" % (good,)
        if len(set(vals)) != len(vals):
            return bad("loc-unique", "locations %r: a number was granted twice" % (h.locs,) + hist, key="loc-unique")
        for name, n in h.locs.items():
            if not isinstance(n, int) or not (0 <= n < n_locs):
                return bad("loc-range", "%s got location %r, legal range is 0..%d" % (name, n, n_locs - 1) + hist,
                           key="loc-range")
        if info["existed"] and not info["reuse"]:
            return bad("loc-name", "name %s granted a second time" % info["name"] + hist, key="loc-name")
        for name, n in before.items():
            if h.locs.get(name) != n:
                return bad("loc-stable", "location of %s changed from %r to %r" % (name, n, h.locs.get(name)) + hist,
                           key="loc-stable")
        if info["n"] is not None and not info["existed"] and h.locs[info["name"]] != info["n"]:
            return bad("loc-fixed", "requested %r, got %r" % (info["n"], h.locs[info["name"]]) + hist, key="loc-fixed")
        if info["n"] in (0, n_locs - 1):
            boundary = True
    nt = (rejections >= 1 and after >= 1) or boundary
    return ok(nt=nt, cls=["rejections" if rejections else "no-rejection"])


# ================================================================================ platform resources

RNAMES = ["clk", "led", "uart", "btn", "spi"]


def st_platform(tier):
    @st.composite
    def desc_entry(draw, name, number, pinbase):
        kind = draw(st.integers(0, 2))
        if kind == 0:
            npins = draw(st.integers(1, 3))
            return [name, number, ["pins", ["%s%d_%d" % (pinbase, number, i) for i in range(npins)]]]
        subs = []
        for sn in draw(st.lists(st.sampled_from(["tx", "rx", "cs_n", "clk"]), min_size=1, max_size=3, unique=True)):
            subs.append(["sub", sn, ["%s%d_%s" % (pinbase, number, sn)]])
        return [name, number] + subs

    @st.composite
    def hist(draw):
        desc = []
        for name in draw(st.lists(st.sampled_from(RNAMES), min_size=1, max_size=4, unique=True)):
            for number in range(draw(st.integers(1, 3))):
                desc.append(draw(desc_entry(name, number, name.upper())))
        ext = []
        for name in draw(st.lists(st.sampled_from(["ext", "led", "pmod"]), max_size=2, unique=True)):
            # extensions with fresh (name, number) pairs: numbers continue after the base description
            base = sum(1 for d in desc if d[0] == name)
            for number in range(base, base + draw(st.integers(1, 2))):
                ext.append(draw(desc_entry(name, number, "X" + name.upper())))
        ops = []
        for _ in range(draw(st.integers(2, 14 if tier == "quick" else 30))):
            k = draw(st.integers(0, 9))
            name = draw(st.sampled_from(RNAMES + ["ext", "pmod", "nope"]))
            number = draw(st.one_of(st.none(), st.integers(0, 3)))
            if k <= 3:
                ops.append(["request", name, number, draw(st.booleans())])
            elif k == 4:
                ops.append(["request_all", name])
            elif k == 5:
                ops.append(["request_remaining", name])
            elif k <= 7:
                sub = draw(st.one_of(st.none(), st.sampled_from(["tx", "rx"])))
                ops.append(["lookup", name, number, draw(st.booleans()), sub])
            elif k == 8:
                ops.append(["extend", draw(st.booleans())])
            else:
                ops.append(["constraints"])
        return {"desc": desc, "ext": ext, "ops": ops}
    return hist()


def _mk_desc(entries):
    from litex.build.generic_platform import Pins, Subsignal, IOStandard
    out = []
    for e in entries:
        items = []
        for it in e[2:]:
            if it[0] == "pins":
                items.append(Pins(" ".join(it[1])))
            else:
                items.append(Subsignal(it[1], Pins(" ".join(it[2]))))
        items.append(IOStandard("LVCMOS33"))
        out.append(tuple([e[0], e[1]] + items))
    return out


def run_platform(case):
    from litex.build.generic_platform import ConstraintManager
    from migen.fhdl.structure import Signal, _Value
    from migen.genlib.record import Record
    _rejections()
    desc = _mk_desc(case["desc"])
    ext = _mk_desc(case["ext"])
    cm = ConstraintManager(desc, [])
    universe = {id(r): r for r in desc}
    extended = False
    rejections = 0
    granted = 0
    hist = []
    for op in case["ops"]:
        hist.append(op)
        try:
            if op[0] == "request":
                before = len(cm.matched)
                obj = cm.request(op[1], op[2], loose=op[3])
                if obj is not None:
                    granted += 1
                    if len(cm.matched) != before + 1 or cm.matched[-1][1] is not obj:
                        return bad("platform-twice", "request(%r,%r) returned an object that this call did not take from the pool | %r" %
                                   (op[1], op[2], hist), key="platform-regrant")
                    res = cm.matched[-1][0]
                    if res[0] != op[1] or (op[2] is not None and res[1] != op[2]):
                        return bad("platform-match", "request(%r,%r) granted resource %r:%r | %r" % (op[1], op[2], res[0], res[1], hist),
                                   key="platform-match")
                elif len(cm.matched) != before:
                    return bad("platform-none", "request returned None but matched grew", key="platform-none")
            elif op[0] in ("request_all", "request_remaining"):
                before = len(cm.matched)
                got = cm.request_all(op[1]) if op[0] == "request_all" else cm.request_remaining(op[1])
                # what the caller receives must be exactly what this call took from the pool: a signal that was
                # granted earlier (to someone else) must not be handed out again
                new = set()
                for _, o in cm.matched[before:]:
                    new |= {id(f) for f in (o.flatten() if isinstance(o, Record) else [o])}
                ret = set()
                for o in getattr(got, "l", [got]):
                    ret |= {id(f) for f in (o.flatten() if isinstance(o, Record) else [o])}
                if ret != new:
                    return bad("platform-twice", "%s(%r) returned %d signal(s), %d of them not taken from the pool by this call (granted "
                               "before) | %r" % (op[0], op[1], len(ret), len(ret - new), hist), key="platform-regrant")
                if any(r[0] != op[1] for r, _ in cm.matched[before:]):
                    return bad("platform-match", "%s(%r) granted %r | %r" % (op[0], op[1], [(r[0], r[1]) for r, _ in cm.matched[before:]], hist),
                               key="platform-match")
                granted += len(cm.matched) - before
            elif op[0] == "lookup":
                name = op[1] + (":" + op[4] if op[4] else "")
                obj = cm.lookup_request(name, op[2], loose=op[3])
                if obj is not None:
                    owners = [(r, o) for r, o in cm.matched
                              if o is obj or (isinstance(o, Record) and any(obj is f for f in o.flatten()))]
                    if not owners:
                        return bad("platform-lookup", "lookup_request(%r,%r) returned an object that was never granted | %r" % (name, op[2], hist),
                                   key="platform-lookup")
                    r = owners[0][0]
                    if r[0] != op[1] or (op[2] is not None and r[1] != op[2]):
                        return bad("platform-lookup", "lookup_request(%r,%r) returned resource %r:%r" % (name, op[2], r[0], r[1]),
                                   key="platform-lookup")
            elif op[0] == "extend":
                if not extended:
                    cm.add_extension(ext, prepend=op[1])
                    universe.update({id(r): r for r in ext})
                    extended = True
            elif op[0] == "constraints":
                pass
        except _rejections() + (AttributeError,):
            rejections += 1
        # invariants after every step
        ids = [id(r) for r, _ in cm.matched]
        if len(set(ids)) != len(ids):
            return bad("platform-twice", "a resource was granted twice | %r" % (hist,), key="platform-twice")
        keys = [(r[0], r[1]) for r, _ in cm.matched]
        if len(set(keys)) != len(keys):
            return bad("platform-twice", "resource %r granted twice | %r" % (keys, hist), key="platform-twice")
        av = [id(r) for r in cm.available]
        if set(av) & set(ids):
            return bad("platform-available", "a granted resource is still available | %r" % (hist,), key="platform-available")
        if len(set(av)) != len(av):
            return bad("platform-available", "available list holds a resource twice", key="platform-available")
        if set(av) | set(ids) != set(universe):
            return bad("platform-conserve", "resources lost or invented: %d available + %d matched != %d described | %r" %
                       (len(av), len(ids), len(universe), hist), key="platform-conserve")
        sc = cm.get_sig_constraints()
        pins = [p for _, ps, _, _ in sc for p in ps]
        exp = []
        for r, _ in cm.matched:
            for el in r[2:]:
                if hasattr(el, "identifiers"):
                    exp += el.identifiers
                elif hasattr(el, "constraints"):
                    for c in el.constraints:
                        if hasattr(c, "identifiers"):
                            exp += c.identifiers
        if sorted(pins) != sorted(exp):
            return bad("platform-pins", "get_sig_constraints lists %r, granted pins are %r | %r" % (sorted(pins), sorted(exp), hist),
                       key="platform-pins")
        if len(set(pins)) != len(pins):
            return bad("platform-pins", "a pin is constrained twice: %r" % (sorted(pins),), key="platform-pins")
        sigs = cm.get_io_signals()
        if len(sigs) != len(sc):
            return bad("platform-ios", "%d io signals vs %d constraint entries" % (len(sigs), len(sc)), key="platform-ios")
    return ok(nt=(granted >= 2), cls=(["extended"] if extended else []) + (["rejections"] if rejections else []))


def subchecks():
    return [
        Sub("bus", run_bus, strategy=st_bus, examples=(4000, 120000),
            rule="add_region/alloc/add_slave/add_master/finalize histories on SoCBusHandler"),
        Sub("locs", run_locs, strategy=st_locs, examples=(6000, 150000), isolate=False,
            rule="add/address_map histories on SoCIRQHandler/SoCCSRHandler with boundary numbers"),
        Sub("platform", run_platform, strategy=st_platform, examples=(3000, 80000),
            rule="request/request_all/request_remaining/lookup_request/add_extension histories on ConstraintManager"),
    ]

"""C17 - 8b/10b coding is invertible, DC-balanced and comma-safe."""
import itertools

from hypothesis import strategies as st

import migen.sim.core as msim

from vlib.runner import Sub, ok, bad, skip
from vlib import bench

RULE = ("transfer tables (rd, symbol) -> (code, rd') and code -> (d, k, invalid) are EXTRACTED from the real SingleEncoder / "
        "Decoder by simulation (all 268 symbols x 2 disparities, all 1024 code words, msb and lsb first) and judged in plain "
        "Python: round trip, disparity rule, invalid flag, run length and comma freedom over ALL symbol pairs from both "
        "disparities (a window of <=10 bits never spans three symbols, so pairs decide triples too); generated part: "
        "Encoder(nwords 1..4) and the stream wrappers under generated ce / valid / ready schedules must follow the table "
        "model chained through the disparity; non-trivial (generated) = sequence with >=1 ce/ready stall between two symbols; "
        "distinct = canonical JSON of the case")
ASSUMPTIONS = ["Migen's simulator (site-packages) defines FHDL semantics",
               "serial order: bit 'a' first, i.e. msb-first words bit 9..0 (lsb_first=True reverses the word, same serial stream)",
               "the 12 control symbols are K.28.0-7, K.23.7, K.27.7, K.29.7, K.30.7"]

KSYMS = [(28 | (y << 5)) for y in range(8)] + [(23 | (7 << 5)), (27 | (7 << 5)), (29 | (7 << 5)), (30 | (7 << 5))]
SYMS = [(d, 0) for d in range(256)] + [(d, 1) for d in KSYMS]        # 268 symbols
COMMAS = ((0, 0, 1, 1, 1, 1, 1), (1, 1, 0, 0, 0, 0, 0))


def _rev10(x):
    return int("{:010b}".format(x)[::-1], 2)


def extract_encoder(lsb_first, syms=SYMS):
    """{(rd, d, k): (code_msb_first, rd')} from the real SingleEncoder."""
    from litex.soc.cores.code_8b10b import SingleEncoder
    dut = SingleEncoder(lsb_first)
    table = {}

    def gen():
        yield dut.ce.eq(1)
        for d, k in syms:
            yield dut.d.eq(d)
            yield dut.k.eq(k)
            yield dut.disp_in.eq(0)
            yield
            yield                      # stage-1 registers now hold (d, k)
            out, dp = (yield dut.output), (yield dut.disp_out)
            table[(0, d, k)] = (_rev10(out) if lsb_first else out, dp)
            yield dut.disp_in.eq(1)
            yield
            out, dp = (yield dut.output), (yield dut.disp_out)
            table[(1, d, k)] = (_rev10(out) if lsb_first else out, dp)
    msim.run_simulation(dut, [gen()])
    return table


def extract_decoder(lsb_first, codes=None):
    """{code_msb_first: (d, k, invalid)} from the real Decoder (all 1024 words)."""
    from litex.soc.cores.code_8b10b import Decoder
    dut = Decoder(lsb_first)
    table = {}
    codes = list(range(1024)) if codes is None else codes

    def gen():
        for c in codes:
            yield dut.input.eq(_rev10(c) if lsb_first else c)
            yield
            yield
            table[c] = ((yield dut.d), (yield dut.k), (yield dut.invalid))
    msim.run_simulation(dut, [gen()])
    return table


_cache = {}


def tables(lsb_first):
    if lsb_first not in _cache:
        _cache[lsb_first] = (extract_encoder(lsb_first), extract_decoder(lsb_first))
    return _cache[lsb_first]


def bits10(code):
    return tuple((code >> (9 - i)) & 1 for i in range(10))


def _b(code):
    return format(code, "010b")


def _name(d, k):
    return "%s.%d.%d" % ("K" if k else "D", d & 31, d >> 5)


# ------------------------------------------------------------------------------------ table properties

def enum_table(tier):
    return [{"lsb_first": l, "part": p} for l in (False, True) for p in ("symbols", "invalid")] + \
           [{"lsb_first": l, "part": "pairs", "lo": lo, "hi": min(268, lo + 17)} for l in (False, True) for lo in range(0, 268, 17)]


def run_table(case):
    enc, dec = tables(case["lsb_first"])
    part = case["part"]
    if part == "symbols":
        codes_seen = {}
        for (rd, d, k), (code, rd2) in sorted(enc.items()):
            dd, dk, inv = dec[code]
            if (dd, dk) != (d, k):
                return bad("roundtrip", "%s rd=%d encodes to %s which decodes to %s" % (_name(d, k), rd, _b(code), _name(dd, dk)),
                           key="8b10b:roundtrip")
            if inv:
                return bad("roundtrip-invalid", "%s rd=%d encodes to %s which the decoder flags invalid" % (_name(d, k), rd, _b(code)),
                           key="8b10b:roundtrip")
            disp = 2 * bin(code).count("1") - 10
            if disp == 0:
                good = rd2 == rd
            elif disp == 2:
                good = rd == 0 and rd2 == 1
            elif disp == -2:
                good = rd == 1 and rd2 == 0
            else:
                good = False
            if not good:
                return bad("disparity", "%s rd=%d -> code %s (disparity %+d) rd'=%d" % (_name(d, k), rd, _b(code), disp, rd2),
                           key="8b10b:disparity")
            other = codes_seen.setdefault(code, (d, k))
            if other != (d, k):
                return bad("injective", "code %s is produced for %s and %s" % (_b(code), _name(*other), _name(d, k)), key="8b10b:injective")
        return ok(nt=True, cls=["symbols"], counts={"table_entries": len(enc)})
    if part == "invalid":
        for code in range(1024):
            ones = bin(code).count("1")
            if (ones < 4 or ones > 6) and not dec[code][2]:
                return bad("invalid", "code %s has %d ones and is not flagged invalid" % (_b(code), ones), key="8b10b:invalid")
            if 4 <= ones <= 6 and dec[code][2] and any(c == code for c, _ in enc.values()):
                return bad("invalid", "legal code %s flagged invalid" % _b(code), key="8b10b:invalid")
        return ok(nt=True, cls=["invalid"], counts={"codes": 1024})
    # pairs
    n = 0
    for i in range(case["lo"], case["hi"]):
        d1, k1 = SYMS[i]
        for rd in (0, 1):
            c1, r1 = enc[(rd, d1, k1)]
            b1 = bits10(c1)
            for d2, k2 in SYMS:
                c2, r2 = enc[(r1, d2, k2)]
                s = b1 + bits10(c2)
                n += 1
                run, best = 1, 1
                for a, b in zip(s, s[1:]):
                    run = run + 1 if a == b else 1
                    if run > best:
                        best = run
                if best > 5:
                    return bad("runlength", "%s then %s from rd=%d: %d equal bits in a row (%s)" %
                               (_name(d1, k1), _name(d2, k2), rd, best, "".join(map(str, s))), key="8b10b:runlength")
                if not k1 and not k2:
                    for o in range(14):
                        if s[o:o + 7] in COMMAS:
                            return bad("comma", "data symbols %s, %s from rd=%d contain a comma at bit %d (%s)" %
                                       (_name(d1, k1), _name(d2, k2), rd, o, "".join(map(str, s))), key="8b10b:comma")
    return ok(nt=True, cls=["pairs"], counts={"pairs": n})


# ------------------------------------------------------------------------------------ Encoder(nwords) under ce schedules

def st_seq(tier):
    sym = st.one_of(st.tuples(st.integers(0, 255), st.just(0)), st.tuples(st.integers(0, 255), st.just(0)),
                    st.tuples(st.sampled_from(KSYMS), st.just(1))).map(list)

    @st.composite
    def case(draw):
        nwords = draw(st.integers(1, 4))
        n = draw(st.integers(3, 24))
        return {"nwords": nwords, "lsb_first": draw(st.booleans()),
                "syms": [[draw(sym) for _ in range(nwords)] for _ in range(n)],
                "ce": draw(bench.st_schedule())}
    return case()


def run_seq(case):
    from litex.soc.cores.code_8b10b import Encoder
    enc_t, _ = tables(case["lsb_first"])
    nw = case["nwords"]
    dut = Encoder(nw, case["lsb_first"])
    ce = bench.Schedule(case["ce"])
    syms = case["syms"]
    fed = []           # symbol groups actually clocked in (ce=1)
    outs = []          # outputs sampled after each ce=1 edge
    state = {"i": 0, "ce_prev": 1}

    class Agent:
        def signals(self):
            return [dut.ce] + dut.output + dut.disparity

        def step(self, t, vals):
            ce_now = vals[0]
            w = []
            if t >= 1 and ce_now:
                # the edge that just happened had ce=1: the group presented was clocked into stage 1
                if state.get("presented") is not None:
                    fed.append(state["presented"])
                outs.append((t, tuple(vals[1:1 + nw]), tuple(vals[1 + nw:])))
            nxt = ce.bit(t)
            i = state["i"]
            if ce_now or t == 0:
                if i < len(syms):
                    g = syms[i]
                    state["i"] += 1
                else:
                    g = [[0, 0]] * nw
                state["presented"] = g
                for k in range(nw):
                    w += [dut.d[k].eq(g[k][0]), dut.k[k].eq(g[k][1])]
            w.append(dut.ce.eq(nxt))
            return w

    n_cyc = 4 * len(syms) + 40
    bench.run(dut, [Agent()], n_cyc)
    # model: outputs lag the clocked-in groups by two ce-edges; chain disparity across words and cycles
    # outs[j] sampled after the j-th ce edge (j>=0) shows the outputs *before* that edge's update... align by search
    # simple alignment: the k-th fed group appears in outs at index k+2
    rd = 0
    stalls = sum(1 for t in range(n_cyc) if not ce.bit(t))
    for gi, g in enumerate(fed):
        if gi + 2 >= len(outs):
            break
        t, words, disps = outs[gi + 2]
        for k in range(nw):
            d, kk = g[k]
            code, rd2 = enc_t[(rd, d, kk)]
            got = words[k]
            got_msb = _rev10(got) if case["lsb_first"] else got
            if got_msb != code or disps[k] != rd2:
                return bad("sequence", "Encoder(nwords=%d, lsb_first=%r): group %d word %d %s with rd=%d: output %s disparity %d, "
                           "table model %s disparity %d (cycle %d)" % (nw, case["lsb_first"], gi, k, _name(d, kk), rd, _b(got_msb),
                                                                        disps[k], _b(code), rd2, t), key="8b10b:chain")
            rd = rd2
    return ok(nt=(stalls >= 1 and len(fed) >= 4), cls=["nwords=%d" % nw, "ce:" + case["ce"][0]], cycles=n_cyc)


# ------------------------------------------------------------------------------------ stream wrappers

def st_stream(tier):
    sym = st.one_of(st.tuples(st.integers(0, 255), st.just(0)), st.tuples(st.sampled_from(KSYMS), st.just(1))).map(list)

    @st.composite
    def case(draw):
        nwords = draw(st.integers(1, 4))
        n = draw(st.integers(3, 20))
        return {"nwords": nwords, "syms": [[draw(sym) for _ in range(nwords)] for _ in range(n)],
                "ps": draw(st.one_of(st.just(["const", 1]), bench.st_schedule())), "cs": draw(bench.st_schedule()),
                "g": draw(st.one_of(st.none(), st.integers(0, 1000))), "loop": draw(st.booleans())}
    return case()


def run_stream(case):
    from migen import Module
    from litex.soc.cores.code_8b10b import StreamEncoder, StreamDecoder
    from litex.soc.interconnect import stream as S
    enc_t, dec_t = tables(True)
    nw = case["nwords"]

    class Top(Module):
        def __init__(self):
            self.submodules.enc = StreamEncoder(nw)
            self.sink = self.enc.sink
            if case["loop"]:
                self.submodules.dec = StreamDecoder(nw)
                self.comb += self.enc.source.connect(self.dec.sink)
                self.source = self.dec.source
            else:
                self.source = self.enc.source
    dut = Top()
    toks = []
    for g in case["syms"]:
        d = sum(s[0] << (8 * i) for i, s in enumerate(g))
        k = sum(s[1] << i for i, s in enumerate(g))
        toks.append(((d, k), (), 0, 0))
    main = 6 * len(toks) + 30
    prod = bench.Producer(dut.sink, toks, case["ps"], garbage_seed=case["g"], until=main)
    cons = bench.Consumer(dut.source, case["cs"], until=main)
    cyc = bench.run(dut, [prod, cons], main + 4 * len(toks) + 40)
    cls = ["nwords=%d" % nw, "loop" if case["loop"] else "enc-only"]
    if cons.hold_violations:
        return bad("hold", "stream wrapper: %s" % (cons.hold_violations[0],), key="8b10b:stream-hold", cls=cls)
    if len(prod.sent) != len(toks) or len(cons.got) != len(toks):
        return bad("count", "%d symbols groups in, %d accepted, %d delivered" % (len(toks), len(prod.sent), len(cons.got)),
                   key="8b10b:stream-count", cls=cls)
    continuous = case["ps"] == ["const", 1]
    rd = None
    for gi, ((_, tin), (_, tout)) in enumerate(zip(prod.sent, cons.got)):
        if case["loop"]:
            if tout[0] != tin[0]:
                return bad("stream-roundtrip", "group %d: in d=%#x k=%#x, out d=%#x k=%#x" % (gi, tin[0][0], tin[0][1], tout[0][0], tout[0][1]),
                           key="8b10b:stream-roundtrip", cls=cls)
            continue
        data = tout[0][0]
        for i in range(nw):
            code = _rev10((data >> (10 * i)) & 0x3ff)
            d, k = case["syms"][gi][i]
            cands = {r: enc_t[(r, d, k)] for r in (0, 1)}
            if rd is None or not continuous:
                ok_r = [r for r in (0, 1) if cands[r][0] == code]
                if not ok_r:
                    return bad("stream-code", "group %d word %d %s: code %s is neither disparity's encoding" % (gi, i, _name(d, k), _b(code)),
                               key="8b10b:stream-code", cls=cls)
                # with both encodings equal (balanced symbol) disparity stays unknown until an unbalanced one
                if len(ok_r) == 1:
                    rd = cands[ok_r[0]][1]
                elif rd is not None:
                    rd = cands[rd][1]
            else:
                if cands[rd][0] != code:
                    return bad("stream-chain", "continuous stream, group %d word %d %s with rd=%d: code %s, table %s" %
                               (gi, i, _name(d, k), rd, _b(code), _b(cands[rd][0])), key="8b10b:stream-chain", cls=cls)
                rd = cands[rd][1]
    return ok(nt=(cons.stalled >= 1 and len(toks) >= 4), cls=cls + (["continuous"] if continuous else ["gaps"]), cycles=cyc)


def subchecks():
    return [
        Sub("tables", run_table, enum=enum_table, exhaustive=True, isolate=True,
            rule="extracted tables: 536 encoder entries + 1024 decoder entries per bit order; all 2*268*268 ordered pairs"),
        Sub("encoder-seq", run_seq, strategy=st_seq, examples=(600, 20000),
            rule="Encoder(nwords 1..4, msb/lsb) with generated symbol sequences and ce schedules vs table model chained through disparity"),
        Sub("stream", run_stream, strategy=st_stream, examples=(600, 20000),
            rule="StreamEncoder (and StreamEncoder->StreamDecoder loop) under generated valid/ready schedules"),
    ]

"""C20 - computed PLL/clock configurations meet the request and the device limits.

One adapter per helper family.  An adapter states the primitive's output-frequency formula once (in
`fractions.Fraction`), reads the declared ranges from the freshly built helper object, maps the returned
configuration to the parameters of the emitted `Instance`, and owns an independent search (interval
arithmetic over the declared ranges, every claimed solution re-verified exactly) used when the helper refuses.
"""
import io
import math
import contextlib
import importlib
import traceback
from fractions import Fraction as Fr

from hypothesis import strategies as st

from vlib.runner import Sub, ok, bad, skip

RULE = ("case = (helper class, device/speed-grade variant, vco_margin, input frequency, 1..max outputs (frequency, phase, "
        "margin), generation mode); modes: 'rand' (input log-uniform/rounded/common/bounds in the declared input range, outputs "
        "log-uniform/rounded/common in the reachable output range), 'byc' (dividers/multipliers drawn inside the declared "
        "ranges first with bias to the range ends, the exactly resulting frequencies requested; witness kept in the case), "
        "'near' (as byc, each frequency then moved by +-{0.5,0.9,0.999,1.001,1.1} x margin), 'edge' (as byc with one divider/multiplier on the first value past the end of its declared range, margin 1e-4, no witness); the real helper is built, "
        "finalized and its compute_config() result captured; non-trivial = a configuration was returned and fully "
        "checked (formula, ranges, windows, Instance parameters) or a refusal was cross-checked by the independent search; "
        "distinct = canonical JSON of the case")

ASSUMPTIONS = [
    "output/VCO/PFD frequencies are recomputed in fractions.Fraction from the returned integers (binary fractions for the "
    "1/8-step MMCM dividers) and the exact value of the double-precision input frequency; a relative slack of 1e-12 is "
    "granted to the helper on every comparison of a returned configuration, and taken away from the independent search "
    "(a solution is only claimed when it is inside margin and windows by more than 1e-12, and float screening drops "
    "candidates closer than 1e-9), so a last-ulp difference produces no verdict either way; consequently a refusal at "
    "margin 0 is never judged",
    "declared ranges: tuples consumed by range(*t)/clkdiv_range(*t) are half-open; (lo, hi) frequency windows are inclusive; "
    "where a helper has no range attribute the ranges written in its own code/comments are used: USPMMCM "
    "CLKFBOUT_MULT_F/CLKOUT0_DIVIDE_F 2.0..128.0 step 0.125 (its compute_config; the inherited clkfbout_mult_frange "
    "(2, 65) is stale for this class and not applied), Gowin rPLL IDIV/FBDIV 1..64, ODIV in {2,4,8,16,32,48,64,80,96,112,128}, "
    "SDIV even 2..128, GW5A IDIV/FBDIV 1..64, MDIV 2..128, ODIV 1..128; the independent search uses the helper's own "
    "(smaller) loop bounds 1..63 / 2..127 so that it never claims a solution outside what the helper states",
    "realised output frequencies are not tested against clko_freq_range (the property lists dividers, multipliers, PFD and "
    "VCO only); requests are drawn inside the declared input/output ranges, requests outside are skipped as outside the premise",
    "phase is only checked as 'emitted parameter equals configuration' (verbatim for Xilinx, decoded CPHASE/FPHASE within "
    "half a step for ECP5, picoseconds within 1 ps for Intel); phase accuracy is not part of the property",
    "Intel: clkN_divide = c*n is emitted as one number; the adapter accepts the configuration when some n inside n_div_range "
    "divides every clkN_divide with c inside c_div_range, f_in/n inside the PFD window and f_in*m/n inside the VCO window",
    "Gowin rPLL model of the independent search: each request on its own port, CLKOUT (phase 0), CLKOUTP (phase k*22.5), "
    "CLKOUTD = CLKOUT/SDIV (phase 0), CLKOUTD3 = CLKOUT/3 (phase 0); requests with a phase on a divided output are not judged "
    "on refusal; GW5A search only claims solutions whose phases are exact multiples of one output-divider step",
    "Efinix Trion: EfinixPlatform needs an Efinity installation, so TRIONPLL is driven through a minimal stand-in platform "
    "(real InterfaceWriter, no device database); compute_config() is the real code, the 'emitted parameters' are the "
    "M/N/O/CLKOUTn_DIV properties written by InterfaceWriter.generate_pll(); TITANIUMPLL performs no computation in LiteX "
    "(do_finalize returns early) and is not covered",
    "CologneChip GateMate: no search in LiteX; acceptance must coincide with the relations CLK0/CLK90 = f_out, "
    "CLK180/CLK270 in {f_out, 2 f_out} and the CC_PLL parameters must equal the request",
]

SLACK = Fr(1, 10 ** 12)
FSLACK = 1e-9
PHASES = [0, 0, 0, 45, 90, 135, 180, 270]
MARGINS = [0.0, 1e-4, 1e-2, 5e-2]
NICE = [1e6, 2e6, 3e6, 4e6, 5e6, 6e6, 8e6, 10e6, 12e6, 12.288e6, 16e6, 20e6, 24e6, 25e6, 26e6, 27e6, 30e6, 32e6,
        33.333e6, 40e6, 48e6, 50e6, 60e6, 64e6, 66.666e6, 74.25e6, 75e6, 80e6, 96e6, 100e6, 120e6, 125e6,
        133.333e6, 148.5e6, 150e6, 156.25e6, 160e6, 166.666e6, 200e6, 250e6, 300e6, 400e6, 500e6, 600e6, 800e6, 1000e6]


# ------------------------------------------------------------------------------------ exact comparisons

def fr(x):
    return x if isinstance(x, Fr) else Fr(x)


def met(f, f_req, m, robust=False):
    """|f - f_req| <= m * f_req; slack in the helper's favour, or against the independent search (robust)."""
    tol = (fr(m) - SLACK) if robust else (fr(m) + SLACK)
    return abs(f - fr(f_req)) <= tol * fr(f_req)


def in_win(x, win, vm=0, robust=False):
    lo = fr(win[0]) * (1 + fr(vm))
    hi = fr(win[1]) * (1 - fr(vm))
    if robust:
        return lo * (1 + SLACK) <= x <= hi * (1 - SLACK)
    return lo * (1 - SLACK) <= x <= hi * (1 + SLACK)


def fwin(win, vm=0.0):
    """float window shrunk by FSLACK for screening in the independent search"""
    return win[0] * (1 + vm) * (1 + FSLACK), win[1] * (1 - vm) * (1 - FSLACK)


def mhz(x):
    return "%.9g MHz" % (float(x) / 1e6)


# ------------------------------------------------------------------------------------ half-open grids (lo, hi, step)

def _grid(t):
    t = tuple(t)
    return (t[0], t[1], t[2] if len(t) > 2 else 1)


def _gn(g):
    lo, hi, step = g
    if hi <= lo:
        return 0
    n = max(0, int(round((hi - lo) / step)))
    while n > 0 and lo + (n - 1) * step >= hi:
        n -= 1
    while lo + n * step < hi:
        n += 1
    return n


def _gv(g, k):
    v = g[0] + k * g[2]
    return int(v) if float(v).is_integer() else v


def _glast(g):
    return _gv(g, _gn(g) - 1)


def on_grid(v, g):
    try:
        v = fr(v)
    except (TypeError, ValueError):
        return False
    if not (fr(g[0]) <= v < fr(g[1])):
        return False
    return ((v - fr(g[0])) / fr(g[2])).denominator == 1


def on_any(v, grids):
    return any(on_grid(v, g) for g in grids)


def _near(g, x):
    """the grid points just below and just above x (clipped to the grid)"""
    n = _gn(g)
    if n <= 0 or x != x or x in (float("inf"), float("-inf")):
        return []
    k0 = int(math.floor((x - g[0]) / g[2]))
    out = []
    for kk in (k0, k0 + 1):
        kk = min(max(kk, 0), n - 1)
        v = _gv(g, kk)
        if v not in out:
            out.append(v)
    return out


def _pick_div(vco, f, m, grids):
    """float screening: a divider d on one of the grids with vco/d clearly inside the margin around f.
    If any grid point satisfies the margin, one of the two grid neighbours of vco/f does."""
    if m <= 2 * FSLACK:
        return None
    tol = (m - FSLACK) * f
    for g in grids:
        for d in _near(g, vco / f):
            if d > 0 and abs(vco / d - f) <= tol:
                return d
    return None


def _div_interval(vco, f, m, g):
    """all integer grid points d of g (step 1) with vco/d clearly inside the margin (float screening)"""
    if m <= 2 * FSLACK:
        return []
    lo = int(math.ceil(vco / (f * (1 + (m - FSLACK)))))
    hi = int(math.floor(vco / (f * (1 - (m - FSLACK))))) if m - FSLACK < 1 else g[1] - 1
    lo = max(lo, g[0])
    hi = min(hi, _glast(g))
    return [d for d in range(lo, hi + 1) if abs(vco / d - f) <= (m - FSLACK) * f]


# ------------------------------------------------------------------------------------ driving a helper

def _imp(mod, name):
    return getattr(importlib.import_module("litex.soc.cores.clock." + mod), name)


def exc_text(e):
    where = ""
    for fs in reversed(traceback.extract_tb(e.__traceback__)):
        if "/litex/" in fs.filename:
            where = " at litex/%s:%d" % (fs.filename.split("/litex/", 1)[-1], fs.lineno)
            break
    return "%s(%s)%s" % (type(e).__name__, str(e)[:300], where)


def drive(pll):
    """finalize the helper, capturing what its compute_config() returned.
    -> {"status": "config" | "refused" | "crash", "cfg", "exc", "stage", "calls"}"""
    box = {"cfg": None, "exc": None, "calls": 0}
    orig = pll.compute_config

    def wrapped(*a, **k):
        box["calls"] += 1
        try:
            cfg = orig(*a, **k)
        except BaseException as e:
            box["exc"] = e
            raise
        box["cfg"] = dict(cfg) if isinstance(cfg, dict) else cfg
        return cfg

    object.__setattr__(pll, "compute_config", wrapped)
    try:
        with contextlib.redirect_stdout(io.StringIO()):
            pll.finalize()
    except (Exception, SystemExit) as e:
        if box["exc"] is e:
            if isinstance(e, (ValueError, AssertionError)):
                return {"status": "refused", "exc": e, "stage": "compute", "cfg": None, "calls": box["calls"]}
            return {"status": "crash", "exc": e, "stage": "compute", "cfg": None, "calls": box["calls"]}
        return {"status": "crash", "exc": e, "stage": "finalize", "cfg": box["cfg"], "calls": box["calls"]}
    return {"status": "config", "cfg": box["cfg"], "exc": None, "stage": None, "calls": box["calls"]}


def unwrap(v):
    return getattr(v, "value", v) if not isinstance(v, (str, int, float)) else v


def instances(pll, names):
    from migen.fhdl.specials import Instance
    frag = pll.get_fragment()
    return [s for s in frag.specials if isinstance(s, Instance) and s.of in names]


def inst_params(inst):
    from migen.fhdl.specials import Instance
    return {it.name: unwrap(it.value) for it in inst.items if isinstance(it, Instance.Parameter)}


def inst_ports(inst):
    from migen.fhdl.specials import Instance
    return {it.name: it.expr for it in inst.items if isinstance(it, (Instance.Input, Instance.Output, Instance.InOut))}


def same(a, b):
    if isinstance(a, str) or isinstance(b, str):
        return a == b
    try:
        return Fr(a) == Fr(b)
    except (TypeError, ValueError):
        return a == b


def close(a, b, rel=1e-9, abs_=0.0):
    try:
        return abs(float(a) - float(b)) <= rel * abs(float(b)) + abs_
    except (TypeError, ValueError):
        return False


def cmp_params(actual, expected, approx=None, stray_rx=None):
    """-> None or text.  expected: name -> value (exact); approx: name -> (value, rel, abs)."""
    import re
    for k, want in expected.items():
        if k not in actual:
            return "parameter %s missing (configuration says %r)" % (k, want)
        if not same(actual[k], want):
            return "parameter %s = %r, configuration says %r" % (k, actual[k], want)
    for k, (want, rel, ab) in (approx or {}).items():
        if k not in actual:
            return "parameter %s missing (expected about %r)" % (k, want)
        if not close(actual[k], want, rel, ab):
            return "parameter %s = %r, expected about %r" % (k, actual[k], want)
    if stray_rx:
        rx = re.compile(stray_rx)
        for k in sorted(actual):
            if rx.match(k) and k not in expected and k not in (approx or {}):
                return "parameter %s = %r is on the instance but the configuration has no such setting" % (k, actual[k])
    return None


def labels(case, outcome):
    c = case["cls"]
    return [c, "%s:%s" % (c, outcome), "%s:%s:%s" % (c, case.get("how", "rand"), outcome),
            "nout=%d" % len(case["outs"]), "how=%s" % case.get("how", "rand")]


KEYFAM = {"GW1NPLL": "gowin", "GW2APLL": "gowin"}     # one code base: one key family


def key(case, *parts):
    return "c20:" + ":".join([KEYFAM.get(case["cls"], case["cls"])] + [str(p) for p in parts])


def margin_kind(f, f_req, m):
    """narrow the root cause of a missed margin: consistent with 'margin measured on the realised frequency'?"""
    if abs(f - fr(f_req)) <= (fr(m) + SLACK) * max(f, fr(f_req)):
        return "margin-on-realised-base"
    return "margin"


# ------------------------------------------------------------------------------------ strategies: shared parts

def _clamp(lo, hi):
    return lambda x: min(max(x, lo), hi)


def _r3(x):
    if x <= 0:
        return x
    e = int(math.floor(math.log10(x))) - 2
    return float(round(x / 10 ** e) * 10 ** e)


def st_freq(lo, hi):
    lo, hi = float(lo), float(hi)
    cl = _clamp(lo, hi)
    raw = st.floats(math.log(lo), math.log(hi), allow_nan=False).map(math.exp).map(cl)
    alts = [raw, raw.map(_r3).map(cl), st.sampled_from([lo, hi])]
    nice = [x for x in NICE if lo <= x <= hi]
    if nice:
        alts.insert(0, st.sampled_from(nice))
    return st.one_of(*alts)


def st_gridval(g):
    n = _gn(g)
    idx = st.one_of(st.integers(0, n - 1), st.sampled_from([0, n - 1]), st.integers(0, min(n - 1, 15)))
    return idx.map(lambda k: _gv(g, k))


def st_between(lo, hi):
    """integer in [lo, hi] with bias to the ends (lo <= hi)"""
    return st.one_of(st.integers(lo, hi), st.sampled_from([lo, hi]))


NEAR = [-1.1, -1.001, -0.999, -0.9, -0.5, 0.5, 0.9, 0.999, 1.001, 1.1]

_LIMITS = {}


def cached_limits(fam, cls, kw):
    import json
    k = (fam.name, cls, json.dumps(kw, sort_keys=True))
    if k not in _LIMITS:
        _LIMITS[k] = fam.limits(fam.make(cls, kw), cls)
    return _LIMITS[k]


def st_case(fam, tier, classes=None):
    """generic case strategy; fam supplies variants, limits, construct() and the random output range"""
    @st.composite
    def case(draw):
        vs = fam.variants(tier, classes)
        cls = draw(st.sampled_from(sorted({c for c, _ in vs})))
        kw = draw(st.sampled_from([k for c, k in vs if c == cls]))
        L = cached_limits(fam, cls, kw)
        vm = draw(st.sampled_from(fam.vms))
        fin = draw(fam.st_fin(L, tier))
        nout = draw(fam.st_nout(L))
        how = draw(st.sampled_from(["rand", "byc", "byc", "near"] + (["edge"] if getattr(fam, "edges", None) else [])))
        margins = MARGINS if draw(st.sampled_from([False, False, False, True])) else MARGINS[1:]
        wit = exact = None
        if how != "rand":
            Lc = L
            if how == "edge":
                # one parameter is forced to (shared grids) or allowed to reach (per-output grids) the first value past the
                # end of its declared range, requested with a tight margin: a healthy helper refuses or answers in range
                Lc = dict(L)
                k = draw(st.sampled_from(fam.edges))
                if k == "outs":
                    Lc[k] = [[(g[0], g[1] + g[2], g[2]) for g in gs] for gs in L[k]]
                elif k in getattr(fam, "edges_per_output", ()):
                    Lc[k] = (L[k][0], L[k][1] + L[k][2], L[k][2])
                else:
                    Lc[k] = (L[k][1], L[k][1] + L[k][2], L[k][2])
                margins = [1e-4]
            r = fam.construct(draw, Lc, fin, nout, vm)
            if r is None:
                how = "rand"
                margins = MARGINS[1:] if margins == [1e-4] else margins
            else:
                wit, exact = r
                if how == "edge":
                    wit = {k_: v for k_, v in wit.items() if k_ == "phases"}
        outs = []
        if how == "rand":
            lo, hi = fam.out_range(L, fin)
            for _ in range(nout):
                outs.append([draw(st_freq(lo, hi)), draw(fam.st_phase()), draw(st.sampled_from(margins))])
        else:
            for i, fx in enumerate(exact):
                m = draw(st.sampled_from(margins))
                f = float(fx)
                if how == "near" and m > 0:
                    f = f * (1 + draw(st.sampled_from(NEAR)) * m)
                ph = wit["phases"][i] if "phases" in wit else draw(fam.st_phase())
                outs.append([f, ph, m])
        c = {"fam": fam.name, "cls": cls, "kw": kw, "vm": vm, "fin": fin, "outs": outs, "how": how}
        if wit is not None and how != "edge":
            c["wit"] = {k: v for k, v in wit.items() if k != "phases"}
        return c
    return case()


def finish(case, fam, L, pll, res, check_config, brute, refusal_key=None):
    """shared verdict logic once the helper has been driven.
    check_config(cfg) -> None | (clause, keyparts, detail); brute() -> None | "unmodelled" | (keyparts, solution)."""
    fin, outs, vm = case["fin"], case["outs"], case["vm"]
    if res["status"] == "crash":
        e = res["exc"]
        kp = fam.crash_key(case, res) if hasattr(fam, "crash_key") else None
        return bad("crash", "%s escaped from %s for %s" % (exc_text(e), "compute_config" if res["stage"] == "compute"
                                                          else "do_finalize", describe(case)),
                   key=key(case, *(kp or ("crash-" + res["stage"], type(e).__name__))), cls=labels(case, "crash"))
    if res["status"] == "config":
        v = check_config(res["cfg"])
        if v is not None:
            clause, kp, detail = v
            return bad(clause, "%s: %s; configuration %s" % (describe(case), detail, show_cfg(res["cfg"])),
                       key=key(case, *kp), cls=labels(case, "bad-config"))
        return ok(nt=True, cls=labels(case, "sat"))
    # refused
    wit = case.get("wit")
    if wit is not None:
        problem = fam.evaluate(L, fin, outs, vm, wit, True)
        if problem is None:
            kp = refusal_key(wit) if refusal_key else ("refused-satisfiable",)
            return bad("completeness", "%s refused with %s, but the construction witness %r satisfies every request and "
                       "limit" % (describe(case), exc_text(res["exc"]), wit), key=key(case, *kp),
                       cls=labels(case, "refused-bad"))
    if any(o[2] <= 2 * FSLACK for o in outs):
        return ok(nt=False, cls=labels(case, "refused-m0-unjudged"))
    b = brute()
    if b == "unmodelled":
        return ok(nt=False, cls=labels(case, "refused-unmodelled"))
    if b is not None:
        kp, sol = b
        return bad("completeness", "%s refused with %s, but %r satisfies every request and limit"
                   % (describe(case), exc_text(res["exc"]), sol), key=key(case, *kp), cls=labels(case, "refused-bad"))
    return ok(nt=True, cls=labels(case, "refused-confirmed"))


def describe(case):
    return "%s(%s) vco_margin=%g f_in=%s outs=[%s]" % (
        case["cls"], ", ".join("%s=%r" % kv for kv in sorted(case["kw"].items())), case["vm"], mhz(case["fin"]),
        ", ".join("%s/%g deg/+-%g" % (mhz(f), p, m) for f, p, m in case["outs"]))


def show_cfg(cfg):
    if not isinstance(cfg, dict):
        return repr(cfg)
    return "{" + ", ".join("%s: %r" % (k, v) for k, v in cfg.items()
                           if isinstance(v, (int, float, str)) or v is None) + "}"


def premise_fail(case, L):
    """request outside the declared input/output ranges -> reason, else None"""
    fin = case["fin"]
    if "fin" in L and not (L["fin"][0] <= fin <= L["fin"][1]):
        return "input-frequency-outside-declared-range"
    if not (1 <= len(case["outs"]) <= L["nmax"]):
        return "number-of-outputs"
    for f, p, m in case["outs"]:
        if not (f > 0 and 0 <= m < 0.5):
            return "request"
        if "fout" in L and not (L["fout"][0] <= f <= L["fout"][1]):
            return "output-frequency-outside-declared-range"
    return None


# ==================================================================================== Xilinx
# f_vco = f_in * CLKFBOUT_MULT / DIVCLK_DIVIDE;  f_out[n] = f_vco / CLKOUTn_DIVIDE
# S6DCM (DCM_CLKGEN): f_out = f_in * CLKFX_MULTIPLY / CLKFX_DIVIDE with CLKFX_DIVIDE = clkout0_divide * divclk_divide

class Xilinx:
    name = "xilinx"
    edges = ["div", "mult", "outs"]
    vms = [0.0, 0.0, 0.0, 0.05]
    TABLE = {  # class -> (module, primitive, is MMCM)
        "S6PLL": ("xilinx_s6", "PLL_ADV", False), "S6DCM": ("xilinx_s6", "DCM_CLKGEN", False),
        "S7PLL": ("xilinx_s7", "PLLE2_ADV", False), "S7MMCM": ("xilinx_s7", "MMCME2_ADV", True),
        "USPLL": ("xilinx_us", "PLLE2_ADV", False), "USMMCM": ("xilinx_us", "MMCME2_ADV", True),
        "USPPLL": ("xilinx_usp", "PLLE2_ADV", False), "USPMMCM": ("xilinx_usp", "MMCME4_ADV", True),
    }

    def variants(self, tier, classes):
        return [(c, {"speedgrade": sg}) for c in classes for sg in (-1, -2, -3)]

    def make(self, cls, kw):
        return _imp(self.TABLE[cls][0], cls)(**kw)

    def limits(self, pll, cls):
        L = {"nmax": pll.nclkouts_max, "fin": tuple(pll.clkin_freq_range), "vco": tuple(pll.vco_freq_range),
             "div": _grid(pll.divclk_divide_range)}
        if cls == "USPMMCM":
            L["mult"] = (2, 128.125, 0.125)     # stated in USPMMCM.compute_config (UG572)
        else:
            L["mult"] = _grid(pll.clkfbout_mult_frange)
        L["outs"] = []
        for n in range(L["nmax"]):
            gs = [_grid(pll.clkout_divide_range)]
            sp = getattr(pll, "clkout%d_divide_range" % n, None)
            if sp is not None:
                gs.append(_grid(sp))
            if cls == "USPMMCM" and n == 0:
                gs = [(2, 128.125, 0.125)]      # stated in USPMMCM.compute_config
            L["outs"].append(gs)
        return L

    # -- strategy parts
    def st_fin(self, L, tier):
        return st_freq(*L["fin"])

    def st_nout(self, L):
        return st.integers(1, L["nmax"])

    def st_phase(self):
        return st.sampled_from(PHASES)

    def out_range(self, L, fin):
        dmax = max(_glast(g) for gs in L["outs"] for g in gs)
        if L["vco"][1] > 1e12:          # S6DCM: no VCO limit, f_out = f_in * M / D
            return max(fin * L["mult"][0] / dmax, 1e5), min(fin * _glast(L["mult"]), 1.5e9)
        return L["vco"][0] / dmax, L["vco"][1]

    def construct(self, draw, L, fin, nout, vm):
        lo, hi = fwin(L["vco"], vm)
        gm = L["mult"]

        def mwin(div):
            a = max(0, int(math.ceil((lo * div / fin - gm[0]) / gm[2])))
            b = min(_gn(gm) - 1, int(math.floor((hi * div / fin - gm[0]) / gm[2])))
            return a, b
        div = draw(st_gridval(L["div"]))
        a, b = mwin(div)
        if a > b:
            for k in range(_gn(L["div"])):
                div = _gv(L["div"], k)
                a, b = mwin(div)
                if a <= b:
                    break
            else:
                return None
        mult = _gv(gm, draw(st_between(a, b)))
        vco = fr(fin) * fr(mult) / div
        ds, exact = [], []
        for n in range(nout):
            g = draw(st.sampled_from(L["outs"][n]))
            d = draw(st_gridval(g))
            ds.append(d)
            exact.append(vco / fr(d))
        return {"div": div, "mult": mult, "d": ds}, exact

    # -- oracle
    def evaluate(self, L, fin, outs, vm, sol, robust):
        """-> None or (clause, keyparts, detail)"""
        div, mult, ds = sol["div"], sol["mult"], sol["d"]
        if not on_grid(div, L["div"]):
            return "range", ("divclk-divide-range",), "divclk_divide %r outside declared %r (half-open)" % (div, L["div"][:2])
        if not on_grid(mult, L["mult"]):
            return "range", ("clkfbout-mult-range",), "clkfbout_mult %r outside declared %r (half-open, step %r)" % (
                mult, L["mult"][:2], L["mult"][2])
        vco = fr(fin) * fr(mult) / fr(div)
        if not in_win(vco, L["vco"], vm, robust):
            return "vco-window", ("vco-window",), "VCO %s outside declared %s..%s (vco_margin %g)" % (
                mhz(vco), mhz(L["vco"][0]), mhz(L["vco"][1]), vm)
        if len(ds) != len(outs):
            return "config", ("config-shape",), "%d dividers for %d requests" % (len(ds), len(outs))
        for n, ((f, p, m), d) in enumerate(zip(outs, ds)):
            if not on_any(d, L["outs"][n]):
                return "range", ("clkout-divide-range",), "clkout%d_divide %r outside declared %r" % (n, d, L["outs"][n])
            fo = vco / fr(d)
            if not met(fo, f, m, robust):
                return "margin", (margin_kind(fo, f, m),), "output %d: %s from the returned settings, requested %s +-%g " \
                    "(relative error %.6g)" % (n, mhz(fo), mhz(f), m, float(abs(fo - fr(f)) / fr(f)))
        return None

    def brute(self, L, fin, outs, vm):
        lo, hi = fwin(L["vco"], vm)
        gm = L["mult"]
        nm = _gn(gm)
        for kd in range(_gn(L["div"])):
            div = _gv(L["div"], kd)
            a = max(0, int(math.ceil((lo * div / fin - gm[0]) / gm[2])))
            b = min(nm - 1, int(math.floor((hi * div / fin - gm[0]) / gm[2])))
            for km in range(b, a - 1, -1):
                mult = _gv(gm, km)
                vco = fin * mult / div
                if not (lo <= vco <= hi):
                    continue
                ds = []
                for n, (f, p, m) in enumerate(outs):
                    d = _pick_div(vco, f, m, L["outs"][n])
                    if d is None:
                        break
                    ds.append(d)
                else:
                    sol = {"div": div, "mult": mult, "d": ds}
                    if self.evaluate(L, fin, outs, vm, sol, True) is None:
                        return ("refused-satisfiable",), sol
        return None

    def run(self, case):
        from migen import ClockDomain, Signal
        cls = case["cls"]
        mod, prim, mmcm = self.TABLE[cls]
        pll = self.make(cls, case["kw"])
        L = self.limits(pll, cls)
        why = premise_fail(case, L)
        if why:
            return skip(why)
        fin, outs, vm = case["fin"], case["outs"], case["vm"]
        pll.vco_margin = vm
        pll.register_clkin(Signal(), fin)
        for i, (f, p, m) in enumerate(outs):
            pll.create_clkout(ClockDomain("cd%d" % i), f, phase=p, margin=m)
        res = drive(pll)

        def check_config(cfg):
            try:
                sol = {"div": cfg["divclk_divide"], "mult": cfg["clkfbout_mult"],
                       "d": [cfg["clkout%d_divide" % n] for n in range(len(outs))]}
                phases = [cfg["clkout%d_phase" % n] for n in range(len(outs))]
            except (KeyError, TypeError) as e:
                return "config", ("config-shape",), "configuration lacks %s" % e
            v = self.evaluate(L, fin, outs, vm, sol, False)
            if v:
                return v
            vco = fr(fin) * fr(sol["mult"]) / fr(sol["div"])
            if "vco" in cfg and not close(cfg["vco"], vco):
                return "config", ("reported-vco",), "reported vco %r, dividers give %s" % (cfg["vco"], mhz(vco))
            for n, (f, p, m) in enumerate(outs):
                if not same(phases[n], p):
                    return "config", ("phase",), "clkout%d_phase %r, requested %r" % (n, phases[n], p)
                if not close(cfg.get("clkout%d_freq" % n), vco / fr(sol["d"][n])):
                    return "config", ("reported-freq",), "reported clkout%d_freq %r, dividers give %s" % (
                        n, cfg.get("clkout%d_freq" % n), mhz(vco / fr(sol["d"][n])))
            insts = instances(pll, {"PLL_ADV", "DCM_CLKGEN", "PLLE2_ADV", "MMCME2_ADV", "MMCME4_ADV", "PLLE3_ADV",
                                    "PLLE4_ADV", "MMCME3_ADV"})
            if len(insts) != 1 or insts[0].of != prim:
                return "instance", ("instance",), "expected one %s instance, found %r" % (prim, [i.of for i in insts])
            P, ports = inst_params(insts[0]), inst_ports(insts[0])
            if cls == "S6DCM":
                exp = {"CLKFX_MULTIPLY": sol["mult"], "CLKFX_DIVIDE": sol["d"][0] * sol["div"]}
                apx = {"CLKIN_PERIOD": (1e9 / fin, 1e-9, 0)}
                if not on_grid(exp["CLKFX_DIVIDE"], L["outs"][0][0]):
                    return "range", ("clkfx-divide-range",), "CLKFX_DIVIDE %r outside %r" % (exp["CLKFX_DIVIDE"], L["outs"][0][0])
                pmap = {0: "CLKFX"}
            else:
                exp = {"DIVCLK_DIVIDE": sol["div"], ("CLKFBOUT_MULT_F" if mmcm else "CLKFBOUT_MULT"): sol["mult"]}
                for n, (f, p, m) in enumerate(outs):
                    exp["CLKOUT%d_DIVIDE_F" % n if (mmcm and n == 0) else "CLKOUT%d_DIVIDE" % n] = sol["d"][n]
                    exp["CLKOUT%d_PHASE" % n] = p
                apx = {"CLKIN1_PERIOD": (1e9 / fin, 1e-9, 0)}
                pmap = {n: "CLKOUT%d" % n for n in range(len(outs))}
            t = cmp_params(P, exp, apx, r"^(CLKOUT\d+_(DIVIDE|DIVIDE_F|PHASE)|CLKFBOUT_MULT(_F)?|DIVCLK_DIVIDE|CLKFX_(MULTIPLY|DIVIDE))$")
            if t:
                return "instance-params", ("instance-params",), "%s: %s" % (prim, t)
            for n, pn in pmap.items():
                if ports.get(pn) is not pll.clkouts[n][0]:
                    return "instance-params", ("instance-port",), "%s port %s is not the clock of request %d" % (prim, pn, n)
            return None

        return finish(case, self, L, pll, res, check_config, lambda: self.brute(L, fin, outs, vm))


XILINX = Xilinx()


# ==================================================================================== Lattice ECP5
# f_pfd = f_in / CLKI_DIV;  f_vco = f_pfd * CLKFB_DIV * (divider of the output selected by FEEDBK_PATH);
# f_out[n] = f_vco / CLKOn_DIV.  The feedback output is one of the requested outputs or a spare one.

class ECP5:
    name = "ecp5"
    edges = ["clkfb", "clko"]
    edges_per_output = ("clko",)
    vms = [0.0]
    LET = {0: "P", 1: "S", 2: "S2", 3: "S3"}

    def variants(self, tier, classes):
        return [("ECP5PLL", {})]

    def make(self, cls, kw):
        return _imp("lattice_ecp5", "ECP5PLL")(**kw)

    def limits(self, pll, cls):
        return {"nmax": pll.nclkouts_max, "fin": tuple(pll.clki_freq_range), "fout": tuple(pll.clko_freq_range),
                "vco": tuple(pll.vco_freq_range), "pfd": tuple(pll.pfd_freq_range), "clki": _grid(pll.clki_div_range),
                "clkfb": _grid(pll.clkfb_div_range), "clko": _grid(pll.clko_div_range)}

    def st_fin(self, L, tier):
        return st_freq(*L["fin"])

    def st_nout(self, L):
        return st.one_of(st.integers(1, L["nmax"]), st.just(L["nmax"]))

    def st_phase(self):
        return st.sampled_from(PHASES)

    def out_range(self, L, fin):
        return L["fout"]

    def construct(self, draw, L, fin, nout, vm):
        plo, phi = fwin(L["pfd"])
        vlo, vhi = fwin(L["vco"])
        a = max(L["clki"][0], int(math.ceil(fin / phi)))
        b = min(_glast(L["clki"]), int(math.floor(fin / plo)))
        if a > b:
            return None
        clki = draw(st_between(a, b))
        pfd = fin / clki
        ka, kb = int(math.ceil(vlo / pfd)), int(math.floor(vhi / pfd))
        cmax, fmax = _glast(L["clko"]), _glast(L["clkfb"])
        ks = [k for k in range(max(ka, 1), kb + 1) if any(k % d == 0 and k // d <= fmax for d in range(1, min(k, cmax) + 1))]
        if not ks:
            return None
        K = draw(st.sampled_from(ks))
        vco = fr(fin) / clki * K
        fbds = [d for d in range(1, min(K, cmax) + 1) if K % d == 0 and K // d <= fmax]
        dfb = draw(st.sampled_from(fbds))
        # dividers keeping the output inside the declared output range
        dlo = max(L["clko"][0], int(math.ceil(float(vco) / (L["fout"][1] * (1 - 1e-9)))))
        dhi = min(cmax, int(math.floor(float(vco) / (L["fout"][0] * (1 + 1e-9)))))
        if dlo > dhi:
            return None
        ds = [draw(st_between(dlo, dhi)) for _ in range(nout)]
        spare = nout < L["nmax"] and draw(st.booleans())
        if spare:
            fbi = nout
            ds.append(dfb)
        else:
            if not (dlo <= dfb <= dhi):
                fbi = nout if nout < L["nmax"] else None
                if fbi is None:
                    return None
                ds.append(dfb)
            else:
                fbi = draw(st.integers(0, nout - 1))
                ds[fbi] = dfb
        return {"clki": clki, "clkfb": K // dfb, "fbi": fbi, "d": ds}, [vco / d for d in ds[:nout]]

    def evaluate(self, L, fin, outs, vm, sol, robust):
        clki, clkfb, fbi, ds = sol["clki"], sol["clkfb"], sol["fbi"], sol["d"]
        if not on_grid(clki, L["clki"]):
            return "range", ("clki-div-range",), "clki_div %r outside declared %r (half-open)" % (clki, L["clki"][:2])
        if not on_grid(clkfb, L["clkfb"]):
            return "range", ("clkfb-div-range",), "clkfb_div %r outside declared %r (half-open)" % (clkfb, L["clkfb"][:2])
        if not (isinstance(fbi, int) and 0 <= fbi < L["nmax"] and fbi < len(ds)):
            return "config", ("feedback-output",), "feedback output %r has no divider (dividers %r)" % (fbi, ds)
        if len(ds) < len(outs):
            return "config", ("config-shape",), "%d dividers for %d requests" % (len(ds), len(outs))
        for n, d in enumerate(ds):
            if not on_grid(d, L["clko"]):
                return "range", ("clko-div-range", "feedback" if n >= len(outs) else "output"), \
                    "clko%d_div %r outside declared %r (half-open)%s" % (n, d, L["clko"][:2],
                                                                       " [feedback-only output]" if n >= len(outs) else "")
        pfd = fr(fin) / clki
        if not in_win(pfd, L["pfd"], 0, robust):
            return "pfd-window", ("pfd-window",), "PFD %s outside declared %s..%s" % (mhz(pfd), mhz(L["pfd"][0]), mhz(L["pfd"][1]))
        vco = pfd * clkfb * ds[fbi]
        if not in_win(vco, L["vco"], 0, robust):
            return "vco-window", ("vco-window", "feedback" if fbi >= len(outs) else "output"), \
                "VCO %s = f_in/%d*%d*%d (feedback through output %d) outside declared %s..%s" % (
                    mhz(vco), clki, clkfb, ds[fbi], fbi, mhz(L["vco"][0]), mhz(L["vco"][1]))
        for n, (f, p, m) in enumerate(outs):
            fo = vco / ds[n]
            if not met(fo, f, m, robust):
                return "margin", (margin_kind(fo, f, m), "feedback" if fbi >= len(outs) else "output"), \
                    "output %d: %s from the returned settings (VCO %s via feedback output %d), requested %s +-%g" % (
                        n, mhz(fo), mhz(vco), fbi, mhz(f), m)
        return None

    def brute(self, L, fin, outs, vm):
        """classified search: 'findable' (the helper's own shape: first valid divider of an output >= 1, or a spare
        output, as feedback), 'clkfb0' (same but only through output 0), 'other-divider' (a later valid divider)."""
        plo, phi = fwin(L["pfd"])
        vlo, vhi = fwin(L["vco"])
        cmax, fmax = _glast(L["clko"]), _glast(L["clkfb"])
        nout = len(outs)
        best = {}
        for clki in range(L["clki"][0], _glast(L["clki"]) + 1):
            pfd = fin / clki
            if not (plo <= pfd <= phi):
                continue
            for K in range(max(1, int(math.ceil(vlo / pfd))), int(math.floor(vhi / pfd)) + 1):
                vco = pfd * K
                if not (vlo <= vco <= vhi):
                    continue
                ivs = [_div_interval(vco, f, m, L["clko"]) for f, p, m in outs]
                if any(not iv for iv in ivs):
                    continue

                def fb_ok(d):
                    return K % d == 0 and 1 <= K // d <= fmax
                first = [iv[0] for iv in ivs]
                # the helper takes the first divider its own (boundary-inclusive, double precision) test accepts; when that
                # could be one below the first clearly valid divider, the helper's choice is not predictable: not 'findable'
                loose = [max(L["clko"][0], int(math.ceil(vco / (f * (1 + m + FSLACK))))) for f, p, m in outs]
                predictable = loose == first
                cand = []
                if nout < L["nmax"]:
                    for d in range(1, min(K, cmax) + 1):
                        if fb_ok(d):
                            cand.append(("findable", {"clki": clki, "clkfb": K // d, "fbi": nout, "d": first + [d]}))
                            break
                for n in range(nout if predictable else 0):
                    if fb_ok(first[n]):
                        cand.append(("findable" if (n >= 1 or nout < L["nmax"]) else "clkfb0",
                                     {"clki": clki, "clkfb": K // first[n], "fbi": n, "d": list(first)}))
                if not cand:
                    for n in range(nout):
                        for d in ivs[n]:
                            if fb_ok(d):
                                ds = list(first)
                                ds[n] = d
                                cand.append(("other-divider", {"clki": clki, "clkfb": K // d, "fbi": n, "d": ds}))
                                break
                for kind, sol in cand:
                    if kind not in best and self.evaluate(L, fin, outs, vm, sol, True) is None:
                        best[kind] = sol
                if "findable" in best:
                    return ("refused-findable",), best["findable"]
        if "clkfb0" in best:
            return ("refused-feedback-through-output0",), best["clkfb0"]
        if "other-divider" in best:
            return ("refused-feedback-needs-later-divider",), best["other-divider"]
        return None


    def run(self, case):
        from migen import ClockDomain, Signal
        pll = self.make(case["cls"], case["kw"])
        L = self.limits(pll, case["cls"])
        why = premise_fail(case, L)
        if why:
            return skip(why)
        fin, outs, vm = case["fin"], case["outs"], case["vm"]
        pll.register_clkin(Signal(), fin)
        for i, (f, p, m) in enumerate(outs):
            pll.create_clkout(ClockDomain("cd%d" % i), f, phase=p, margin=m)
        req_sigs = [pll.clkouts[i][0] for i in range(len(outs))]
        res = drive(pll)

        def check_config(cfg):
            try:
                fbi = cfg["clkfb"]
                nd = len(outs) + (1 if isinstance(fbi, int) and fbi >= len(outs) else 0)
                sol = {"clki": cfg["clki_div"], "clkfb": cfg["clkfb_div"], "fbi": fbi,
                       "d": [cfg["clko%d_div" % n] for n in range(nd)]}
            except (KeyError, TypeError) as e:
                return "config", ("config-shape",), "configuration lacks %s" % e
            if isinstance(fbi, int) and len(outs) <= fbi < len(sol["d"]) and "vco" in cfg:
                try:
                    vco_d = fr(fin) / sol["clki"] * sol["clkfb"] * sol["d"][fbi]
                    consistent = close(cfg["vco"], vco_d)
                except (TypeError, ValueError, ZeroDivisionError):
                    consistent = False
                if not consistent:
                    return "config", ("spare-feedback-divider",), "feedback-only output %d got divider %r, but the VCO %s the " \
                        "outputs were computed for needs f_vco*clki_div/(f_in*clkfb_div) = %.6f" % (
                            fbi, sol["d"][fbi], mhz(cfg["vco"]), cfg["vco"] * sol["clki"] / (fin * sol["clkfb"]))
            v = self.evaluate(L, fin, outs, vm, sol, False)
            if v:
                return v
            vco = fr(fin) / sol["clki"] * sol["clkfb"] * sol["d"][fbi]
            if "vco" in cfg and not close(cfg["vco"], vco):
                return "config", ("reported-vco",), "reported vco %r, dividers give %s" % (cfg["vco"], mhz(vco))
            insts = instances(pll, {"EHXPLLL"})
            if len(insts) != 1:
                return "instance", ("instance",), "expected one EHXPLLL instance, found %d" % len(insts)
            P, ports = inst_params(insts[0]), inst_ports(insts[0])
            exp = {"CLKI_DIV": sol["clki"], "CLKFB_DIV": sol["clkfb"], "FEEDBK_PATH": "INT_O" + self.LET[fbi]}
            for n, d in enumerate(sol["d"]):
                exp["CLKO%s_DIV" % self.LET[n]] = d
                exp["CLKO%s_ENABLE" % self.LET[n]] = "ENABLED"
            t = cmp_params(P, exp, None, r"^(CLKO(P|S|S2|S3)_(DIV|ENABLE)|CLKI_DIV|CLKFB_DIV|FEEDBK_PATH)$")
            if t:
                return "instance-params", ("instance-params",), "EHXPLLL: " + t
            for n, (f, p, m) in enumerate(outs):
                l = self.LET[n]
                if ports.get("CLKO" + l) is not req_sigs[n]:
                    return "instance-params", ("instance-port",), "EHXPLLL port CLKO%s is not the clock of request %d" % (l, n)
                d = sol["d"][n]
                try:
                    steps = (int(P["CLKO%s_CPHASE" % l]) - (d - 1)) * 8 + int(P["CLKO%s_FPHASE" % l])
                    fph = int(P["CLKO%s_FPHASE" % l])
                except (KeyError, TypeError, ValueError) as e:
                    return "instance-params", ("instance-phase",), "EHXPLLL phase parameters of output %d unusable: %s" % (n, e)
                if not (0 <= fph <= 7) or abs(fr(steps) - fr(p) * d / 45) > Fr(1, 2):
                    return "instance-params", ("instance-phase",), "EHXPLLL CLKO%s CPHASE/FPHASE encode %s VCO/8 steps, " \
                        "phase %g deg at divider %d needs %s" % (l, steps, p, d, float(fr(p) * d / 45))
            return None

        return finish(case, self, L, pll, res, check_config, lambda: self.brute(L, fin, outs, vm),
                      refusal_key=lambda wit: (self.brute(L, fin, outs, vm) or (("refused-satisfiable",), None))[0])


ECP5F = ECP5()


# ==================================================================================== Lattice iCE40
# f_vco = f_in / (DIVR + 1) * (DIVF + 1);  f_out = f_vco / 2**DIVQ   (FEEDBACK_PATH = SIMPLE)

class ICE40:
    name = "ice40"
    edges = ["divr", "divf", "divq"]
    vms = [0.0]

    def variants(self, tier, classes):
        return [("iCE40PLL", {"primitive": p}) for p in ("SB_PLL40_CORE", "SB_PLL40_PAD")]

    def make(self, cls, kw):
        return _imp("lattice_ice40", "iCE40PLL")(**kw)

    def limits(self, pll, cls):
        return {"nmax": pll.nclkouts_max, "fin": tuple(pll.clki_freq_range), "fout": tuple(pll.clko_freq_range),
                "vco": tuple(pll.vco_freq_range), "divr": _grid(pll.divr_range), "divf": _grid(pll.divf_range),
                "divq": _grid(pll.divq_range)}

    def st_fin(self, L, tier):
        lo, hi = L["fin"]
        real = min(hi, max(lo, 133e6))   # the declared bound (133e9) is far above any real device: keep most cases realistic
        return st.one_of(st_freq(lo, real), st_freq(lo, real), st_freq(lo, real), st_freq(lo, hi))

    def st_nout(self, L):
        return st.just(1)

    def st_phase(self):
        return st.just(0)

    def out_range(self, L, fin):
        return max(L["fout"][0], L["vco"][0] / 2 ** _glast(L["divq"]) * 0.9), min(L["fout"][1], L["vco"][1])

    def construct(self, draw, L, fin, nout, vm):
        vlo, vhi = fwin(L["vco"])
        pairs = []
        for r in range(L["divr"][0], _glast(L["divr"]) + 1):
            a = max(L["divf"][0], int(math.ceil(vlo * (r + 1) / fin)) - 1)
            b = min(_glast(L["divf"]), int(math.floor(vhi * (r + 1) / fin)) - 1)
            if a <= b:
                pairs.append((r, a, b))
        if not pairs:
            return None
        r, a, b = draw(st.sampled_from(pairs))
        f_ = draw(st_between(a, b))
        vco = fr(fin) / (r + 1) * (f_ + 1)
        qs = [q for q in range(L["divq"][0], _glast(L["divq"]) + 1) if L["fout"][0] <= float(vco) / 2 ** q <= L["fout"][1]]
        if not qs:
            return None
        q = draw(st.sampled_from(qs))
        return {"divr": r, "divf": f_, "divq": q}, [vco / 2 ** q]

    def evaluate(self, L, fin, outs, vm, sol, robust):
        for k in ("divr", "divf", "divq"):
            if not on_grid(sol[k], L[k]):
                return "range", (k + "-range",), "%s %r outside declared %r (half-open)" % (k, sol[k], L[k][:2])
        vco = fr(fin) / (sol["divr"] + 1) * (sol["divf"] + 1)
        if not in_win(vco, L["vco"], 0, robust):
            return "vco-window", ("vco-window",), "VCO %s outside declared %s..%s" % (mhz(vco), mhz(L["vco"][0]), mhz(L["vco"][1]))
        f, p, m = outs[0]
        fo = vco / 2 ** sol["divq"]
        if not met(fo, f, m, robust):
            return "margin", (margin_kind(fo, f, m),), "output: %s from the returned settings, requested %s +-%g" % (mhz(fo), mhz(f), m)
        return None

    def brute(self, L, fin, outs, vm):
        vlo, vhi = fwin(L["vco"])
        f, p, m = outs[0]
        if m <= 2 * FSLACK:
            return None
        for r in range(L["divr"][0], _glast(L["divr"]) + 1):
            for f_ in range(L["divf"][0], _glast(L["divf"]) + 1):
                vco = fin / (r + 1) * (f_ + 1)
                if not (vlo <= vco <= vhi):
                    continue
                for q in range(L["divq"][0], _glast(L["divq"]) + 1):
                    if abs(vco / 2 ** q - f) <= (m - FSLACK) * f:
                        sol = {"divr": r, "divf": f_, "divq": q}
                        if self.evaluate(L, fin, outs, vm, sol, True) is None:
                            return ("refused-satisfiable",), sol
        return None

    def run(self, case):
        from migen import ClockDomain, Signal
        pll = self.make(case["cls"], case["kw"])
        L = self.limits(pll, case["cls"])
        why = premise_fail(case, L)
        if why:
            return skip(why)
        fin, outs, vm = case["fin"], case["outs"], case["vm"]
        pll.register_clkin(Signal(), fin)
        pll.create_clkout(ClockDomain("cd0"), outs[0][0], margin=outs[0][2])
        sig = pll.clkouts[0][0]
        res = drive(pll)
        prim = case["kw"]["primitive"]

        def check_config(cfg):
            try:
                sol = {k: cfg[k] for k in ("divr", "divf", "divq")}
            except (KeyError, TypeError) as e:
                return "config", ("config-shape",), "configuration lacks %s" % e
            v = self.evaluate(L, fin, outs, vm, sol, False)
            if v:
                return v
            insts = instances(pll, {"SB_PLL40_CORE", "SB_PLL40_PAD"})
            if len(insts) != 1 or insts[0].of != prim:
                return "instance", ("instance",), "expected one %s instance, found %r" % (prim, [i.of for i in insts])
            P, ports = inst_params(insts[0]), inst_ports(insts[0])
            t = cmp_params(P, {"DIVR": sol["divr"], "DIVF": sol["divf"], "DIVQ": sol["divq"]}, None, r"^DIV[RFQ]$")
            if t:
                return "instance-params", ("instance-params",), prim + ": " + t
            if ports.get("PLLOUTGLOBAL") is not sig:
                return "instance-params", ("instance-port",), prim + " port PLLOUTGLOBAL is not the requested clock"
            return None

        return finish(case, self, L, pll, res, check_config, lambda: self.brute(L, fin, outs, vm))

    def crash_key(self, case, res):
        e = res["exc"]
        if res["stage"] == "finalize" and isinstance(e, UnboundLocalError) and "filter_range" in str(e):
            return ("finalize-filter-range-unbound",)
        return None


ICE40F = ICE40()


# ==================================================================================== Lattice NX
# as emitted by the helper: f_pfd = f_in / REF_MMD_DIG;  f_vco = f_pfd * (DIVF + 1) (feedback through CLKOS5, FBK_MMD_DIG = 1);
# f_out[n] = f_vco / (DIV{A..E} + 1).  Configuration: clki_div <-> REF_MMD_DIG, clkfb_div <-> DIVF + 1, clkoN_div <-> DIVx + 1.

class NX:
    name = "nx"
    edges = ["clkfb", "clko"]
    edges_per_output = ("clko",)
    vms = [0.0]
    LET = {0: "P", 1: "S", 2: "S2", 3: "S3", 4: "S4"}

    def variants(self, tier, classes):
        return [("NXPLL", {})]

    def make(self, cls, kw):
        return _imp("lattice_nx", "NXPLL")(**kw)

    def limits(self, pll, cls):
        return {"nmax": pll.nclkouts_max, "fin": tuple(pll.clki_freq_range), "fout": tuple(pll.clko_freq_range),
                "vco": tuple(pll.vco_out_freq_range), "pfd": tuple(pll.vco_in_freq_range), "clki": _grid(pll.clki_div_range),
                "clkfb": _grid(pll.clkfb_div_range), "clko": _grid(pll.clko_div_range)}

    def st_fin(self, L, tier):
        return st_freq(*L["fin"])

    def st_nout(self, L):
        return st.integers(1, L["nmax"])

    def st_phase(self):
        return st.sampled_from(PHASES)

    def out_range(self, L, fin):
        return L["fout"]

    def construct(self, draw, L, fin, nout, vm):
        plo, phi = fwin(L["pfd"])
        vlo, vhi = fwin(L["vco"])
        a = max(L["clki"][0], int(math.ceil(fin / phi)))
        b = min(_glast(L["clki"]), int(math.floor(fin / plo)))
        if a > b:
            return None
        clki = draw(st.one_of(st.just(a), st_between(a, b)))
        pfd = fin / clki
        ka = max(L["clkfb"][0], int(math.ceil(vlo / pfd)))
        kb = min(_glast(L["clkfb"]), int(math.floor(vhi / pfd)))
        if ka > kb:
            for clki in range(a, b + 1):
                pfd = fin / clki
                ka = max(L["clkfb"][0], int(math.ceil(vlo / pfd)))
                kb = min(_glast(L["clkfb"]), int(math.floor(vhi / pfd)))
                if ka <= kb:
                    break
            else:
                return None
        fb = draw(st_between(ka, kb))
        vco = fr(fin) / clki * fb
        dlo = max(L["clko"][0], int(math.ceil(float(vco) / (L["fout"][1] * (1 - 1e-9)))))
        dhi = min(_glast(L["clko"]), int(math.floor(float(vco) / (L["fout"][0] * (1 + 1e-9)))))
        if dlo > dhi:
            return None
        ds = [draw(st_between(dlo, dhi)) for _ in range(nout)]
        return {"clki": clki, "clkfb": fb, "d": ds}, [vco / d for d in ds]

    def evaluate(self, L, fin, outs, vm, sol, robust):
        clki, fb, ds = sol["clki"], sol["clkfb"], sol["d"]
        if not on_grid(clki, L["clki"]):
            return "range", ("clki-div-range",), "clki_div %r outside declared %r (half-open)" % (clki, L["clki"][:2])
        if not on_grid(fb, L["clkfb"]):
            return "range", ("clkfb-div-range",), "clkfb_div %r outside declared %r (half-open)" % (fb, L["clkfb"][:2])
        if len(ds) != len(outs):
            return "config", ("config-shape",), "%d dividers for %d requests" % (len(ds), len(outs))
        for n, d in enumerate(ds):
            if not on_grid(d, L["clko"]):
                return "range", ("clko-div-range",), "clko%d_div %r outside declared %r (half-open)" % (n, d, L["clko"][:2])
        pfd = fr(fin) / clki
        if not in_win(pfd, L["pfd"], 0, robust):
            return "pfd-window", ("pfd-window",), "phase-detector input %s = f_in/%d outside declared vco_in_freq_range %s..%s" % (
                mhz(pfd), clki, mhz(L["pfd"][0]), mhz(L["pfd"][1]))
        vco = pfd * fb
        if not in_win(vco, L["vco"], 0, robust):
            return "vco-window", ("vco-window",), "VCO %s outside declared %s..%s" % (mhz(vco), mhz(L["vco"][0]), mhz(L["vco"][1]))
        for n, (f, p, m) in enumerate(outs):
            fo = vco / ds[n]
            if not met(fo, f, m, robust):
                return "margin", (margin_kind(fo, f, m),), "output %d: %s from the returned settings, requested %s +-%g" % (
                    n, mhz(fo), mhz(f), m)
        return None

    def brute(self, L, fin, outs, vm):
        plo, phi = fwin(L["pfd"])
        vlo, vhi = fwin(L["vco"])
        for clki in range(L["clki"][0], _glast(L["clki"]) + 1):
            pfd = fin / clki
            if not (plo <= pfd <= phi):
                continue
            ka = max(L["clkfb"][0], int(math.ceil(vlo / pfd)))
            kb = min(_glast(L["clkfb"]), int(math.floor(vhi / pfd)))
            for fb in range(ka, kb + 1):
                vco = pfd * fb
                if not (vlo <= vco <= vhi):
                    continue
                ds = []
                for f, p, m in outs:
                    d = _pick_div(vco, f, m, [L["clko"]])
                    if d is None:
                        break
                    ds.append(d)
                else:
                    sol = {"clki": clki, "clkfb": fb, "d": ds}
                    if self.evaluate(L, fin, outs, vm, sol, True) is None:
                        return ("refused-satisfiable",), sol
        return None

    def run(self, case):
        from migen import ClockDomain, Signal
        pll = self.make(case["cls"], case["kw"])
        L = self.limits(pll, case["cls"])
        why = premise_fail(case, L)
        if why:
            return skip(why)
        fin, outs, vm = case["fin"], case["outs"], case["vm"]
        pll.register_clkin(Signal(), fin)
        cds = [ClockDomain("cd%d" % i) for i in range(len(outs))]
        for cd, (f, p, m) in zip(cds, outs):
            pll.create_clkout(cd, f, phase=p, margin=m)
        res = drive(pll)

        def check_config(cfg):
            try:
                sol = {"clki": cfg["clki_div"], "clkfb": cfg["clkfb_div"], "d": [cfg["clko%d_div" % n] for n in range(len(outs))]}
            except (KeyError, TypeError) as e:
                return "config", ("config-shape",), "configuration lacks %s" % e
            v = self.evaluate(L, fin, outs, vm, sol, False)
            if v:
                return v
            insts = instances(pll, {"PLL"})
            if len(insts) != 1:
                return "instance", ("instance",), "expected one PLL instance, found %d" % len(insts)
            P, ports = inst_params(insts[0]), inst_ports(insts[0])
            if str(P.get("REF_MMD_DIG")) != str(sol["clki"]):
                fo = fr(fin) / fr(int(P.get("REF_MMD_DIG", "0") or 0) or 1) * sol["clkfb"] / sol["d"][0]
                return "instance-params", ("ref-divider-not-emitted",), "PLL: REF_MMD_DIG (input clock divider) = %r but " \
                    "clki_div = %r: the instance as emitted produces %s on output 0 (requested %s)" % (
                        P.get("REF_MMD_DIG"), sol["clki"], mhz(fo), mhz(outs[0][0]))
            exp = {"DIVF": str(sol["clkfb"] - 1), "FBK_MMD_DIG": "1", "SEL_FBK": "FBKCLK5", "CLKMUX_FB": "CMUX_CLKOS5"}
            for n, d in enumerate(sol["d"]):
                exp["DIV" + chr(65 + n)] = str(d - 1)
                exp["ENCLK_CLKO" + self.LET[n]] = "ENABLED"
            t = cmp_params(P, exp, None, r"^(DIV[A-F]|ENCLK_CLKO(P|S|S2|S3|S4)|REF_MMD_DIG|FBK_MMD_DIG)$")
            if t and not t.startswith("parameter REF_MMD_DIG"):
                return "instance-params", ("instance-params",), "PLL: " + t
            for n, cd in enumerate(cds):
                if ports.get("CLKO" + self.LET[n]) is not cd.clk:
                    return "instance-params", ("instance-port",), "PLL port CLKO%s is not the clock of request %d" % (self.LET[n], n)
            return None

        return finish(case, self, L, pll, res, check_config, lambda: self.brute(L, fin, outs, vm))


NXF = NX()


# ==================================================================================== Intel (ALTPLL)
# f_out[k] = f_in * CLKk_MULTIPLY_BY / CLKk_DIVIDE_BY with MULTIPLY_BY = m and DIVIDE_BY = c_k * n (one number): the
# configuration is valid when some n in n_div_range divides every DIVIDE_BY with c_k in c_div_range,
# f_pfd = f_in / n inside clkin_pfd_freq_range and f_vco = f_in * m / n inside vco_freq_range.

class Intel:
    name = "intel"
    edges = ["n", "m", "c"]
    edges_per_output = ("c",)
    vms = [0.0, 0.0, 0.0, 0.05]
    TABLE = {"CycloneIVPLL": ("intel_cyclone4", ["-6", "-7", "-8", "-8L", "-9L"]),
             "CycloneVPLL": ("intel_cyclone5", ["-C6", "-C7", "-I7", "-C8", "-A7"]),
             "Cyclone10LPPLL": ("intel_cyclone10", ["-C6", "-C8", "-I7", "-A7", "-I8"]),
             "Max10PLL": ("intel_max10", ["-6", "-7", "-8"]),
             "StratixVPLL": ("intel_stratix5", ["-C1", "-C2", "-C2L", "-I2", "-I2L", "-C3", "-I3", "-I3L", "-C4", "-I4"])}

    def variants(self, tier, classes):
        return [(c, {"speedgrade": sg}) for c in (classes or sorted(self.TABLE)) for sg in self.TABLE[c][1]]

    def make(self, cls, kw):
        return _imp(self.TABLE[cls][0], cls)(**kw)

    def limits(self, pll, cls):
        return {"nmax": pll.nclkouts_max, "fin": tuple(pll.clkin_freq_range), "fout": tuple(pll.clko_freq_range),
                "vco": tuple(pll.vco_freq_range), "pfd": tuple(pll.clkin_pfd_freq_range), "n": _grid(pll.n_div_range),
                "m": _grid(pll.m_div_range), "c": _grid(pll.c_div_range)}

    def st_fin(self, L, tier):
        # the helper's search costs about (f_in / PFD_min)^2 * outputs: keep most inputs below 120 MHz
        lo, hi = L["fin"]
        cap = min(hi, 100e6 if tier == "quick" else 250e6)
        return st.one_of(st_freq(lo, cap), st_freq(lo, cap), st_freq(lo, cap), st_freq(lo, cap), st_freq(lo, cap), st_freq(lo, hi))

    def st_nout(self, L):
        return st.one_of(st.integers(1, min(5, L["nmax"])), st.integers(1, min(5, L["nmax"])), st.integers(1, L["nmax"]))

    def st_phase(self):
        return st.sampled_from(PHASES)

    def out_range(self, L, fin):
        return max(L["fout"][0], L["vco"][0] / _glast(L["c"])), L["fout"][1]

    def _nwin(self, L, fin):
        plo, phi = fwin(L["pfd"])
        return max(L["n"][0], int(math.ceil(fin / phi))), min(_glast(L["n"]), int(math.floor(fin / plo)))

    def construct(self, draw, L, fin, nout, vm):
        a, b = self._nwin(L, fin)
        if a > b:
            return None
        vlo, vhi = fwin(L["vco"], vm)
        n = draw(st.one_of(st.just(a), st_between(a, b)))
        ma = max(L["m"][0], int(math.ceil(vlo * n / fin)))
        mb = min(_glast(L["m"]), int(math.floor(vhi * n / fin)))
        if ma > mb:
            for n in range(a, b + 1):
                ma = max(L["m"][0], int(math.ceil(vlo * n / fin)))
                mb = min(_glast(L["m"]), int(math.floor(vhi * n / fin)))
                if ma <= mb:
                    break
            else:
                return None
        m = draw(st_between(ma, mb))
        vco = fr(fin) * m / n
        lo, hi = self.out_range(L, fin)
        clo = max(L["c"][0], int(math.ceil(float(vco) / (hi * (1 - 1e-9)))))
        chi = min(_glast(L["c"]), int(math.floor(float(vco) / (lo * (1 + 1e-9)))))
        if clo > chi:
            return None
        cs = [draw(st_between(clo, chi)) for _ in range(nout)]
        return {"n": n, "m": m, "c": cs}, [vco / c for c in cs]

    def evaluate(self, L, fin, outs, vm, sol, robust):
        n, m, cs = sol["n"], sol["m"], sol["c"]
        if not on_grid(n, L["n"]):
            return "range", ("n-div-range",), "n %r outside declared %r (half-open)" % (n, L["n"][:2])
        if not on_grid(m, L["m"]):
            return "range", ("m-div-range",), "m %r outside declared %r (half-open)" % (m, L["m"][:2])
        if len(cs) != len(outs):
            return "config", ("config-shape",), "%d dividers for %d requests" % (len(cs), len(outs))
        for k, c in enumerate(cs):
            if not on_grid(c, L["c"]):
                return "range", ("c-div-range",), "c%d %r outside declared %r (half-open)" % (k, c, L["c"][:2])
        pfd = fr(fin) / n
        if not in_win(pfd, L["pfd"], 0, robust):
            return "pfd-window", ("pfd-window",), "PFD %s outside declared %s..%s" % (mhz(pfd), mhz(L["pfd"][0]), mhz(L["pfd"][1]))
        vco = pfd * m
        if not in_win(vco, L["vco"], vm, robust):
            return "vco-window", ("vco-window",), "VCO %s outside declared %s..%s (vco_margin %g)" % (
                mhz(vco), mhz(L["vco"][0]), mhz(L["vco"][1]), vm)
        for k, (f, p, mg) in enumerate(outs):
            fo = vco / cs[k]
            if not met(fo, f, mg, robust):
                return "margin", (margin_kind(fo, f, mg),), "output %d: %s from the returned settings, requested %s +-%g" % (
                    k, mhz(fo), mhz(f), mg)
        return None

    def brute(self, L, fin, outs, vm):
        a, b = self._nwin(L, fin)
        vlo, vhi = fwin(L["vco"], vm)
        for n in range(a, b + 1):
            ma = max(L["m"][0], int(math.ceil(vlo * n / fin)))
            mb = min(_glast(L["m"]), int(math.floor(vhi * n / fin)))
            for m in range(ma, mb + 1):
                vco = fin * m / n
                if not (vlo <= vco <= vhi):
                    continue
                cs = []
                for f, p, mg in outs:
                    c = _pick_div(vco, f, mg, [L["c"]])
                    if c is None:
                        break
                    cs.append(c)
                else:
                    sol = {"n": n, "m": m, "c": cs}
                    if self.evaluate(L, fin, outs, vm, sol, True) is None:
                        return ("refused-satisfiable",), sol
        return None

    def run(self, case):
        from migen import ClockDomain, Signal
        cls = case["cls"]
        pll = self.make(cls, case["kw"])
        L = self.limits(pll, cls)
        why = premise_fail(case, L)
        if why:
            return skip(why)
        fin, outs, vm = case["fin"], case["outs"], case["vm"]
        pll.vco_margin = vm
        pll.register_clkin(Signal(), fin)
        for i, (f, p, m) in enumerate(outs):
            pll.create_clkout(ClockDomain("cd%d" % i), f, phase=p, margin=m)
        res = drive(pll)

        def check_config(cfg):
            try:
                m = cfg["m"]
                Ds = [cfg["clk%d_divide" % k] for k in range(len(outs))]
                phases = [cfg["clk%d_phase" % k] for k in range(len(outs))]
            except (KeyError, TypeError) as e:
                return "config", ("config-shape",), "configuration lacks %s" % e
            if not all(isinstance(D, int) and D > 0 for D in Ds) or not isinstance(m, int):
                return "config", ("config-shape",), "m %r / divides %r are not positive integers" % (m, Ds)
            # the emitted ratio itself first: whatever the factorisation, the outputs must meet the request
            for k, (f, p, mg) in enumerate(outs):
                fo = fr(fin) * m / Ds[k]
                if not met(fo, f, mg):
                    return "margin", (margin_kind(fo, f, mg),), "output %d: f_in*%d/%d = %s, requested %s +-%g" % (
                        k, m, Ds[k], mhz(fo), mhz(f), mg)
            g = 0
            for D in Ds:
                g = math.gcd(g, D)
            first = None
            for n in range(1, g + 1):
                if g % n:
                    continue
                v = self.evaluate(L, fin, outs, vm, {"n": n, "m": m, "c": [D // n for D in Ds]}, False)
                if v is None:
                    first = None
                    nsel = n
                    break
                if first is None or (v[0] != "range" and first[0] == "range"):
                    first = v
            else:
                nsel = None
            if nsel is None:
                clause, kp, detail = first
                return clause, kp, "m=%d, clkN_divide=%r: no n inside the declared ranges factors the dividers into " \
                    "legal (n, c) with PFD and VCO inside their windows; closest attempt: %s" % (m, Ds, detail)
            vco = fr(fin) * m / nsel
            if "vco" in cfg and not any(close(cfg["vco"], fr(fin) * m / n) for n in range(1, g + 1) if g % n == 0):
                return "config", ("reported-vco",), "reported vco %r is f_in*m/n for no divisor n of the dividers" % cfg["vco"]
            insts = instances(pll, {"ALTPLL"})
            if len(insts) != 1:
                return "instance", ("instance",), "expected one ALTPLL instance, found %d" % len(insts)
            P = inst_params(insts[0])
            exp, apx = {}, {"INCLK0_INPUT_FREQUENCY": (1e12 / fin, 0, 1.0)}
            for k, (f, p, mg) in enumerate(outs):
                if not same(phases[k], p):
                    return "config", ("phase",), "clk%d_phase %r, requested %r" % (k, phases[k], p)
                exp["CLK%d_DIVIDE_BY" % k] = Ds[k]
                exp["CLK%d_MULTIPLY_BY" % k] = m
                apx["CLK%d_PHASE_SHIFT" % k] = (float(Fr(10 ** 12) / (fr(fin) * m / Ds[k]) * fr(p) / 360), 1e-9, 1.0)
            t = cmp_params(P, exp, apx, r"^CLK\d+_(DIVIDE_BY|MULTIPLY_BY|PHASE_SHIFT)$")
            if t:
                return "instance-params", ("instance-params",), "ALTPLL: " + t
            return None

        return finish(case, self, L, pll, res, check_config, lambda: self.brute(L, fin, outs, vm))


INTEL = Intel()


# ==================================================================================== Gowin GW1N / GW2A (rPLL / PLLVR)
# f_pfd = f_in / (IDIV_SEL + 1);  CLKOUT = CLKOUTP = f_in * (FBDIV_SEL + 1) / (IDIV_SEL + 1);  f_vco = CLKOUT * ODIV_SEL;
# CLKOUTD = CLKOUT / DYN_SDIV_SEL;  CLKOUTD3 = CLKOUT / 3.   Configuration: idiv = IDIV_SEL + 1, fdiv = FBDIV_SEL + 1.

class Gowin1:
    name = "gowin"
    PORTS = ["CLKOUT", "CLKOUTP", "CLKOUTD", "CLKOUTD3"]
    ODIVS = [2, 4, 8, 16, 32, 48, 64, 80, 96, 112, 128]
    VARIANTS = [
        ("GW1NPLL", {"devicename": "GW1N-9C", "device": "GW1NR-LV9QN88PC6/I5"}),
        ("GW1NPLL", {"devicename": "GW1N-1", "device": "GW1N-LV1QN48C6/I5"}),
        ("GW1NPLL", {"devicename": "GW1NS-4C", "device": "GW1NSR-LV4CQN48PC7/I6"}),
        ("GW1NPLL", {"devicename": "GW1NS-4", "device": "GW1NS-LV4CQN48C5/I4"}),
        ("GW1NPLL", {"devicename": "GW1N-1S", "device": "GW1N-1S-LV1CS30C6/I5"}),
        ("GW2APLL", {"devicename": "GW2A-18C", "device": "GW2A-LV18PG256C8/I7"}),
        ("GW2APLL", {"devicename": "GW2AR-18C", "device": "GW2AR-LV18QN88C8/I7"}),
    ]

    def make(self, cls, kw, vm=0):
        mod = "gowin_gw1n" if cls == "GW1NPLL" else "gowin_gw2a"
        return _imp(mod, cls)(kw["devicename"], kw["device"], vco_margin=vm)

    def limits(self, pll, cls):
        return {"nmax": pll.nclkouts_max, "vco": tuple(pll.vco_freq_range), "pfd": tuple(pll.pfd_freq_range),
                "idiv": (1, 65, 1), "fdiv": (1, 65, 1),          # "Static IDIV/FBDIV value (1-64)" in do_finalize
                "idiv_s": (1, 64, 1), "fdiv_s": (1, 64, 1),      # the helper's own loops: range(1, 64)
                "sdiv": (2, 130, 2)}                               # "an even value [2-128]"

    def strategy(self, tier):
        @st.composite
        def case(draw):
            cls, kw = draw(st.sampled_from(self.VARIANTS))
            k = (self.name, cls, kw["device"])
            if k not in _LIMITS:
                _LIMITS[k] = self.limits(self.make(cls, kw), cls)
            L = _LIMITS[k]
            vm = draw(st.sampled_from([0.0, 0.0, 0.0, 0.05]))
            fin = draw(st_freq(L["pfd"][0], min(L["pfd"][1], 400e6)))
            how = draw(st.sampled_from(["rand", "byc", "byc", "near"]))
            margins = MARGINS if draw(st.sampled_from([False, False, False, True])) else MARGINS[1:]
            wit = None
            if how != "rand":
                wit = self.construct(draw, L, fin, vm)
                if wit is None:
                    how = "rand"
            outs = []
            if how == "rand":
                f0 = draw(st_freq(L["vco"][0] / 128, L["vco"][1] / 2))
                nout = draw(st.integers(1, 4))
                ratios = [1] + [draw(st.sampled_from([1, 2, 3, 4, 6, 8, 16, 1.5, 2.5, 5, 7, 128, 130, 2.02, 3.02]))
                                for _ in range(nout - 1)]
                outs = [[f0 / r, draw(st.sampled_from([0] * 13 + [90, 180, 45])), draw(st.sampled_from(margins))]
                        for r in ratios]
                outs = draw(st.permutations(outs))
            else:
                out = fr(fin) * wit["fdiv"] / wit["idiv"]
                for port, ph in zip(wit["ports"], wit.pop("phases")):
                    fx = {"CLKOUT": out, "CLKOUTP": out, "CLKOUTD": out / wit["sdiv"], "CLKOUTD3": out / 3}[port]
                    m = draw(st.sampled_from(margins))
                    f = float(fx)
                    if how == "near" and m > 0:
                        f = f * (1 + draw(st.sampled_from(NEAR)) * m)
                    outs.append([f, ph, m])
            c = {"fam": self.name, "cls": cls, "kw": kw, "vm": vm, "fin": fin, "outs": [list(o) for o in outs], "how": how}
            if wit is not None:
                c["wit"] = wit
            return c
        return case()

    def construct(self, draw, L, fin, vm):
        plo, phi = fwin(L["pfd"])
        vlo, vhi = fwin(L["vco"], vm)
        a = max(1, int(math.ceil(fin / phi)))
        b = min(63, int(math.floor(fin / plo)))
        if a > b:
            return None
        idiv = draw(st.one_of(st.just(a), st_between(a, b)))
        ok_f = [f_ for f_ in range(1, 64) if any(vlo <= fin * f_ / idiv * o <= vhi for o in self.ODIVS)]
        if not ok_f:
            return None
        fdiv = draw(st.sampled_from(ok_f))
        odiv = draw(st.sampled_from([o for o in self.ODIVS if vlo <= fin * fdiv / idiv * o <= vhi]))
        sdiv = 2 * draw(st_between(1, 64))
        shape = draw(st.sampled_from(["C", "C", "CD", "CD", "CD3", "CDD3", "CP", "CPD", "CPDD3", "P", "PD", "D", "DD3", "D3"]))
        ports = []
        if "C" in shape:
            ports.append("CLKOUT")
        if "P" in shape:
            ports.append("CLKOUTP")
        if "D3" in shape:
            ports.append("CLKOUTD3")
        if shape.replace("D3", "").count("D"):
            ports.append("CLKOUTD")
        ports = list(draw(st.permutations(ports)))
        pph = draw(st.sampled_from([0, 45, 90, 180, 270, 22.5]))
        phases = [pph if p == "CLKOUTP" else 0 for p in ports]
        return {"idiv": idiv, "fdiv": fdiv, "odiv": odiv, "sdiv": sdiv, "ports": ports, "phases": phases}

    def port_freq(self, out, sol, port):
        return {"CLKOUT": out, "CLKOUTP": out, "CLKOUTD": out / fr(sol["sdiv"]) if sol["sdiv"] else None,
                "CLKOUTD3": out / 3}[port]

    def evaluate(self, L, fin, outs, vm, sol, robust):
        idiv, fdiv, odiv, sdiv, ports = sol["idiv"], sol["fdiv"], sol["odiv"], sol["sdiv"], sol["ports"]
        if not on_grid(idiv, L["idiv_s"] if robust else L["idiv"]):
            return "range", ("idiv-range",), "idiv %r outside 1..64" % (idiv,)
        if not on_grid(fdiv, L["fdiv_s"] if robust else L["fdiv"]):
            return "range", ("fdiv-range",), "fdiv %r outside 1..64" % (fdiv,)
        if odiv not in self.ODIVS:
            return "range", ("odiv-range",), "odiv %r not in %r" % (odiv, self.ODIVS)
        if "CLKOUTD" in ports and not on_grid(sdiv, L["sdiv"]):
            return "range", ("sdiv-range",), "SDIV_SEL %r (divider of CLKOUTD) is not an even value in 2..128" % (sdiv,)
        if len(ports) != len(outs):
            return "config", ("config-shape",), "%d ports for %d requests" % (len(ports), len(outs))
        if len(set(ports)) != len(ports):
            return "output-dropped", ("port-collision",), "two requests on one port: %r" % (ports,)
        pfd = fr(fin) / idiv
        if not in_win(pfd, L["pfd"], 0, robust):
            return "pfd-window", ("pfd-window",), "PFD %s outside declared %s..%s" % (mhz(pfd), mhz(L["pfd"][0]), mhz(L["pfd"][1]))
        out = fr(fin) * fdiv / idiv
        vco = out * odiv
        if not in_win(vco, L["vco"], vm, robust):
            return "vco-window", ("vco-window",), "VCO %s outside declared %s..%s (vco_margin %g)" % (
                mhz(vco), mhz(L["vco"][0]), mhz(L["vco"][1]), vm)
        for i, ((f, p, m), port) in enumerate(zip(outs, ports)):
            fo = self.port_freq(out, sol, port)
            if not met(fo, f, m, robust):
                return "margin", (margin_kind(fo, f, m),), "output %d on %s: %s from the returned settings, requested %s +-%g" % (
                    i, port, mhz(fo), mhz(f), m)
            if robust:
                if port == "CLKOUTP":
                    if not (0 <= p < 360 and (fr(p) / Fr(45, 2)).denominator == 1):
                        return "phase", ("phase",), "phase %r not a PSDA step" % p
                elif p != 0:
                    return "phase", ("phase",), "phase on %s not modelled" % port
        return None

    def helper_pick(self, outs):
        """the helper's 'highest frequency': the first output with the largest margin"""
        pick = max(range(len(outs)), key=lambda i: outs[i][2])
        return pick, outs[pick][0] < max(o[0] for o in outs)

    def brute(self, L, fin, outs, vm, kind="other"):
        phased = [i for i, o in enumerate(outs) if o[1] != 0]
        if len(phased) > 1 or any((fr(outs[i][1]) / Fr(45, 2)).denominator != 1 or not 0 <= outs[i][1] < 360 for i in phased):
            return "unmodelled"
        plo, phi = fwin(L["pfd"])
        vlo, vhi = fwin(L["vco"], vm)
        n = len(outs)
        fastest = max(range(n), key=lambda i: outs[i][0])
        other = None
        for idiv in range(1, 64):
            pfd = fin / idiv
            if not (plo <= pfd <= phi):
                continue
            for fdiv in range(1, 64):
                out = fin * fdiv / idiv
                od = [o for o in self.ODIVS if vlo <= out * o <= vhi]
                if not od:
                    continue
                opts = []
                for i, (f, p, m) in enumerate(outs):
                    tol = (m - FSLACK) * f
                    o_i = []
                    if abs(out - f) <= tol:
                        o_i += [("CLKOUTP", 0)] if p != 0 else [("CLKOUT", 0), ("CLKOUTP", 0)]
                    if p == 0:
                        if abs(out / 3 - f) <= tol:
                            o_i.append(("CLKOUTD3", 0))
                        for s in _near(L["sdiv"], out / f):
                            if abs(out / s - f) <= tol:
                                o_i.append(("CLKOUTD", s))
                                break
                    opts.append(o_i)
                if any(not o for o in opts):
                    continue
                for assign in self._assign(opts, 0, []):
                    sd = [s for p_, s in assign if p_ == "CLKOUTD"]
                    sol = {"idiv": idiv, "fdiv": fdiv, "odiv": od[0], "sdiv": sd[0] if sd else 2, "ports": [p_ for p_, s in assign]}
                    if self.evaluate(L, fin, outs, vm, sol, True) is None:
                        if sol["ports"][fastest] in ("CLKOUT", "CLKOUTP"):
                            return self._kp(outs, True, kind), sol
                        if other is None:
                            other = sol
                    break
        if other is not None:
            return self._kp(outs, False, kind), other
        return "unmodelled" if phased else None

    def _kp(self, outs, fastest_on_clkout, kind):
        if self.helper_pick(outs)[1]:
            return ("freqmax-by-margin",)
        return ("refused-satisfiable", kind) if fastest_on_clkout else ("refused-fastest-not-on-clkout",)

    @staticmethod
    def refusal_kind(e):
        t = str(e)
        if isinstance(e, AssertionError):
            return "assert"
        for pat, k in (("No PLL config found", "no-config"), ("Can't obtain", "cant-obtain"), ("two divisor", "divisor-shape"),
                       ("Only one clock", "phase-shape")):
            if pat in t:
                return k
        return "other"

    def _assign(self, opts, i, used):
        if i == len(opts):
            yield list(used)
            return
        for port, s in opts[i]:
            if port in [u[0] for u in used]:
                continue
            used.append((port, s))
            yield from self._assign(opts, i + 1, used)
            used.pop()

    def crash_key(self, case, res):
        if isinstance(res["exc"], ZeroDivisionError) and self.helper_pick(case["outs"])[1]:
            return ("freqmax-by-margin",)
        return None

    def run(self, case):
        from migen import ClockDomain, Signal
        cls = case["cls"]
        fin, outs, vm = case["fin"], case["outs"], case["vm"]
        try:
            pll = self.make(cls, case["kw"], vm)
        except ValueError:
            return skip("unsupported-device")
        L = self.limits(pll, cls)
        if not (1 <= len(outs) <= L["nmax"]) or any(not (f > 0 and 0 <= m < 0.5) for f, p, m in outs) or fin <= 0:
            return skip("request")
        pll.register_clkin(Signal(), fin)
        for i, (f, p, m) in enumerate(outs):
            pll.create_clkout(ClockDomain("cd%d" % i), f, phase=p, margin=m)
        sigs = [pll.clkouts[i][0] for i in range(len(outs))]
        res = drive(pll)
        prim = "PLLVR" if case["kw"]["device"].startswith("GW1NS") else "rPLL"

        def check_config(cfg):
            try:
                sol = {"idiv": cfg["idiv"], "fdiv": cfg["fdiv"], "odiv": cfg["odiv"], "sdiv": cfg["SDIV_SEL"]}
            except (KeyError, TypeError) as e:
                return "config", ("config-shape",), "configuration lacks %s" % e
            ports = []
            for i, sg in enumerate(sigs):
                on = [p_ for p_ in self.PORTS if cfg.get(p_) is sg]
                if not on:
                    same_port = [j for j in range(len(outs)) if j != i and any(cfg.get(p_) is sigs[j] for p_ in self.PORTS)]
                    return "output-dropped", ("port-collision",), "the clock of request %d (%s) is on no port of the " \
                        "configuration (ports carry requests %r): the clock domain is left undriven" % (i, mhz(outs[i][0]), same_port)
                ports.append(on[0])
            sol["ports"] = ports
            v = self.evaluate(L, fin, outs, vm, sol, False)
            if v:
                return v
            insts = instances(pll, {"rPLL", "PLLVR"})
            if len(insts) != 1 or insts[0].of != prim:
                return "instance", ("instance",), "expected one %s instance, found %r" % (prim, [i.of for i in insts])
            P, io = inst_params(insts[0]), inst_ports(insts[0])
            exp = {"IDIV_SEL": sol["idiv"] - 1, "FBDIV_SEL": sol["fdiv"] - 1, "ODIV_SEL": sol["odiv"],
                   "DYN_SDIV_SEL": sol["sdiv"], "PSDA_SEL": cfg.get("PSDA_SEL"), "DEVICE": case["kw"]["devicename"],
                   "FCLKIN": str(fin / 1e6)}
            t = cmp_params(P, exp, None, r"^(IDIV_SEL|FBDIV_SEL|ODIV_SEL|DYN_SDIV_SEL)$")
            if t:
                return "instance-params", ("instance-params",), prim + ": " + t
            for i, port in enumerate(ports):
                if io.get(port) is not sigs[i]:
                    return "instance-params", ("instance-port",), "%s port %s is not the clock of request %d" % (prim, port, i)
            for port in self.PORTS:
                if port not in ports and any(io.get(port) is sg for sg in sigs):
                    return "instance-params", ("instance-port",), "%s port %s carries a request the configuration put elsewhere" % (prim, port)
            return None

        kind = self.refusal_kind(res["exc"]) if res["status"] == "refused" else "other"
        return finish(case, self, L, pll, res, check_config, lambda: self.brute(L, fin, outs, vm, kind),
                      refusal_key=lambda wit: self._kp(outs, wit["ports"][max(range(len(outs)), key=lambda i: outs[i][0])]
                                                       in ("CLKOUT", "CLKOUTP"), kind))


GOWIN1 = Gowin1()


# ==================================================================================== Gowin GW5A (PLLA / PLL)
# as computed by the helper: f_pfd = f_in / IDIV_SEL;  f_vco = f_pfd * FBDIV_SEL * MDIV_SEL;  f_out[n] = f_vco / ODIVn_SEL

class Gowin5:
    name = "gw5a"
    vms = [0.0, 0.0, 0.0, 0.05]
    VARIANTS = [("GW5APLL", {"devicename": "GW5A-25A", "device": "GW5A-LV25MG121NES"}),
                ("GW5APLL", {"devicename": "GW5AT-60B", "device": "GW5AT-LV60PG484AC1/I0"}),
                ("GW5APLL", {"devicename": "GW5AST-138B", "device": "GW5AST-LV138FPG676AES"})]

    def variants(self, tier, classes):
        return self.VARIANTS

    def make(self, cls, kw, vm=0):
        return _imp("gowin_gw5a", "GW5APLL")(kw["devicename"], kw["device"], vco_margin=vm)

    def limits(self, pll, cls):
        vco, pfd = tuple(pll.vco_freq_range), tuple(pll.pfd_freq_range)
        return {"nmax": pll.nclkouts_max, "vco": vco, "pfd": pfd, "fin": (pfd[0], 400e6), "fout": (vco[0] / 128, vco[1] / 2),
                "idiv": (1, 65, 1), "fdiv": (1, 65, 1), "mdiv": (2, 129, 1), "odiv": (1, 129, 1),   # comments in do_finalize
                "idiv_s": (1, 64, 1), "fdiv_s": (1, 64, 1), "mdiv_s": (2, 128, 1)}                  # the helper's own loops

    def st_fin(self, L, tier):
        return st_freq(*L["fin"])

    def st_nout(self, L):
        return st.one_of(st.integers(1, 3), st.integers(1, L["nmax"]))

    def st_phase(self):
        return st.sampled_from(PHASES)

    def out_range(self, L, fin):
        return L["fout"]

    def construct(self, draw, L, fin, nout, vm):
        plo, phi = fwin(L["pfd"])
        vlo, vhi = fwin(L["vco"], vm)
        a, b = max(1, int(math.ceil(fin / phi))), min(63, int(math.floor(fin / plo)))
        if a > b:
            return None
        idiv = draw(st.one_of(st.just(a), st_between(a, b)))
        pfd = fin / idiv
        fdiv = draw(st.one_of(st.just(1), st_between(1, 63)))
        ma, mb = max(2, int(math.ceil(vlo / (pfd * fdiv)))), min(127, int(math.floor(vhi / (pfd * fdiv))))
        if ma > mb:
            fdiv = 1
            ma, mb = max(2, int(math.ceil(vlo / pfd))), min(127, int(math.floor(vhi / pfd)))
            if ma > mb:
                return None
        mdiv = draw(st_between(ma, mb))
        vco = fr(fin) / idiv * fdiv * mdiv
        dlo = max(1, int(math.ceil(float(vco) / (L["fout"][1] * (1 - 1e-9)))))
        dhi = min(128, int(math.floor(float(vco) / (L["fout"][0] * (1 + 1e-9)))))
        if dlo > dhi:
            return None
        ods, phases = [], []
        for _ in range(nout):
            d = draw(st_between(dlo, dhi))
            ods.append(d)
            okp = [p for p in (0, 0, 0, 45, 90, 135, 180, 270) if (p * d) % 360 == 0]
            phases.append(draw(st.sampled_from(okp)))
        return {"idiv": idiv, "fdiv": fdiv, "mdiv": mdiv, "od": ods, "phases": phases}, [vco / d for d in ods]

    def evaluate(self, L, fin, outs, vm, sol, robust):
        idiv, fdiv, mdiv, ods = sol["idiv"], sol["fdiv"], sol["mdiv"], sol["od"]
        sfx = "_s" if robust else ""
        for k, v in (("idiv", idiv), ("fdiv", fdiv), ("mdiv", mdiv)):
            if not on_grid(v, L[k + sfx]):
                return "range", (k + "-range",), "%s %r outside %d..%d" % (k, v, L[k][0], L[k][1] - 1)
        if len(ods) != len(outs):
            return "config", ("config-shape",), "%d dividers for %d requests" % (len(ods), len(outs))
        for n, d in enumerate(ods):
            if not on_grid(d, L["odiv"]):
                return "range", ("odiv-range",), "odiv%d %r outside the primitive's 1..128" % (n, d)
        pfd = fr(fin) / idiv
        if not in_win(pfd, L["pfd"], 0, robust):
            return "pfd-window", ("pfd-window",), "PFD %s outside declared %s..%s" % (mhz(pfd), mhz(L["pfd"][0]), mhz(L["pfd"][1]))
        vco = pfd * fdiv * mdiv
        if not in_win(vco, L["vco"], vm, robust):
            return "vco-window", ("vco-window",), "VCO %s outside declared %s..%s (vco_margin %g)" % (
                mhz(vco), mhz(L["vco"][0]), mhz(L["vco"][1]), vm)
        for n, (f, p, m) in enumerate(outs):
            fo = vco / ods[n]
            if not met(fo, f, m, robust):
                return "margin", (margin_kind(fo, f, m),), "output %d: %s from the returned settings, requested %s +-%g" % (
                    n, mhz(fo), mhz(f), m)
            if robust and (fr(p) * ods[n] / 360).denominator != 1:
                return "phase", ("phase",), "phase %r is not a whole number of steps at divider %d" % (p, ods[n])
        return None

    def brute(self, L, fin, outs, vm):
        plo, phi = fwin(L["pfd"])
        vlo, vhi = fwin(L["vco"], vm)
        prods = {}
        for f_ in range(1, 64):
            for m_ in range(2, 128):
                prods.setdefault(f_ * m_, (f_, m_))
        for idiv in range(1, 64):
            pfd = fin / idiv
            if not (plo <= pfd <= phi):
                continue
            for P in range(max(2, int(math.ceil(vlo / pfd))), int(math.floor(vhi / pfd)) + 1):
                if P not in prods:
                    continue
                vco = pfd * P
                if not (vlo <= vco <= vhi):
                    continue
                ods = []
                for f, p, m in outs:
                    ds = [d for d in _div_interval(vco, f, m, L["odiv"]) if (fr(p) * d / 360).denominator == 1]
                    if not ds:
                        break
                    ods.append(ds[0])
                else:
                    sol = {"idiv": idiv, "fdiv": prods[P][0], "mdiv": prods[P][1], "od": ods}
                    if self.evaluate(L, fin, outs, vm, sol, True) is None:
                        return ("refused-satisfiable",), sol
        return None

    def run(self, case):
        from migen import ClockDomain, Signal
        fin, outs, vm = case["fin"], case["outs"], case["vm"]
        pll = self.make(case["cls"], case["kw"], vm)
        L = self.limits(pll, case["cls"])
        why = premise_fail(case, L)
        if why:
            return skip(why)
        pll.register_clkin(Signal(), fin)
        for i, (f, p, m) in enumerate(outs):
            pll.create_clkout(ClockDomain("cd%d" % i), f, phase=p, margin=m)
        sigs = [pll.clkouts[i][0] for i in range(len(outs))]
        res = drive(pll)
        dev = case["kw"]["device"]
        prim = "PLLA" if (dev.startswith("GW5A-") or dev.startswith("GW5AT-")) else "PLL"

        def check_config(cfg):
            try:
                sol = {"idiv": cfg["idiv"], "fdiv": cfg["fdiv"], "mdiv": cfg["mdiv"], "od": [cfg["odiv%d" % n] for n in range(len(outs))]}
                pes = [(cfg["pe%d" % n], cfg["pe%d_fine" % n]) for n in range(len(outs))]
            except (KeyError, TypeError) as e:
                return "config", ("config-shape",), "configuration lacks %s" % e
            v = self.evaluate(L, fin, outs, vm, sol, False)
            if v:
                return v
            insts = instances(pll, {"PLLA", "PLL"})
            if len(insts) != 1 or insts[0].of != prim:
                return "instance", ("instance",), "expected one %s instance, found %r" % (prim, [i.of for i in insts])
            P, io = inst_params(insts[0]), inst_ports(insts[0])
            exp = {"IDIV_SEL": sol["idiv"], "FBDIV_SEL": sol["fdiv"], "MDIV_SEL": sol["mdiv"], "MDIV_FRAC_SEL": 0,
                   "ODIV0_FRAC_SEL": 0, "FCLKIN": str(fin / 1e6)}
            for n in range(L["nmax"]):
                used = n < len(outs)
                exp["CLKOUT%d_EN" % n] = "TRUE" if used else "FALSE"
                if used:
                    exp["ODIV%d_SEL" % n] = sol["od"][n]
                    exp["CLKOUT%d_PE_COARSE" % n] = pes[n][0]
                    exp["CLKOUT%d_PE_FINE" % n] = pes[n][1]
            t = cmp_params(P, exp, None, None)
            if t:
                return "instance-params", ("instance-params",), prim + ": " + t
            for n, sg in enumerate(sigs):
                if io.get("CLKOUT%d" % n) is not sg:
                    return "instance-params", ("instance-port",), "%s port CLKOUT%d is not the clock of request %d" % (prim, n, n)
            return None

        return finish(case, self, L, pll, res, check_config, lambda: self.brute(L, fin, outs, vm))


GOWIN5 = Gowin5()


# ==================================================================================== Efinix Trion (TRIONPLL with feedback)
# f_pfd = f_in / N;  f_vco = f_pfd * M * O * C_fbk;  f_pll = f_vco / O;  f_out[n] = f_pll / CLKOUTn_DIV  (C_fbk = divider of the
# feedback output).  EfinixPlatform needs an Efinity installation: a stand-in platform carries the real InterfaceWriter.

class _TrionPlatform:
    def __init__(self, device="T120F324"):
        from litex.build.efinix.ifacewriter import InterfaceWriter

        class _TC:
            pass
        self.device = device
        self.family = "Trion"
        self.toolchain = _TC()
        self.toolchain.ifacewriter = InterfaceWriter("")
        self.toolchain.excluded_ios = []
        self.pll_available = ["PLL_TL0", "PLL_TR0"]
        self.pll_used = []
        self.clks = {}

    def add_iface_io(self, name, size=1):
        from migen import Signal
        return Signal(size, name=name)

    def get_pin_name(self, sig):
        return None

    def get_pin_location(self, sig):
        return None

    def get_pll_resource(self, name):
        self.pll_used.append(name)
        self.pll_available.remove(name)

    def get_free_pll_resource(self):
        p = self.pll_available[0]
        self.get_pll_resource(p)
        return p


class Trion:
    name = "trion"
    PH = [0, 0, 0, 45, 90, 135, 180, 270]

    def make(self, cls, kw):
        plat = _TrionPlatform(kw.get("device", "T120F324"))
        return _imp("efinix", "TRIONPLL")(plat)

    def limits(self, pll, cls):
        dev = pll.platform.device
        return {"nmax": pll.nclkouts_max, "vco": tuple(pll.get_vco_freq_range(dev)), "pfd": tuple(pll.get_pfd_freq_range(dev)),
                "pll": tuple(pll.get_pll_freq_range(dev)), "N": (1, 16, 1), "M": (1, 256, 1), "moc_max": 255,
                "crange": {str(p): list(pll.get_c_range(dev, p)) for p in (0, 45, 90, 135, 180, 270)}}

    def ofact(self, nout):
        return [2, 4, 8] if nout > 1 else [1, 2, 4, 8]

    def strategy(self, tier):
        @st.composite
        def case(draw):
            cls, kw = "TRIONPLL", {"device": draw(st.sampled_from(["T120F324", "T20F256", "T8F81"]))}
            k = (self.name, cls)
            if k not in _LIMITS:
                _LIMITS[k] = self.limits(self.make(cls, kw), cls)
            L = _LIMITS[k]
            fin = draw(st_freq(L["pfd"][0], 400e6))
            nout = draw(st.integers(1, L["nmax"]))
            fb = draw(st.integers(0, nout - 1))
            how = draw(st.sampled_from(["rand", "byc", "byc", "byc", "near", "edge"]))
            margins = draw(st.sampled_from([[0.0], [0.0], [0.0, 1e-4, 1e-2], [1e-4, 1e-2, 5e-2]]))
            phases = [draw(st.sampled_from(self.PH)) for _ in range(nout)]
            wit = None
            if how == "edge":       # N one past the helper's 1..15 (needs f_in/16 inside the PFD window), exact frequencies
                fin = draw(st_freq(16 * L["pfd"][0], 400e6))
                margins = [0.0]
            if how != "rand":
                wit = self.construct(draw, L, fin, nout, fb, phases, 16 if how == "edge" else None)
                if wit is None:
                    how = "rand"
            outs = []
            if how == "rand":
                for n in range(nout):
                    outs.append([draw(st_freq(1e6, 800e6)), phases[n], draw(st.sampled_from(margins))])
            else:
                fpll = fr(fin) / wit["N"] * wit["M"] * wit["c"][fb]
                for n in range(nout):
                    m = draw(st.sampled_from(margins))
                    f = float(fpll / wit["c"][n])
                    if how == "near" and m > 0:
                        f = f * (1 + draw(st.sampled_from(NEAR)) * m)
                    outs.append([f, phases[n], m])
            c = {"fam": self.name, "cls": cls, "kw": kw, "vm": 0.0, "fin": fin, "outs": outs, "fb": fb, "how": how}
            if wit is not None and how != "edge":
                c["wit"] = wit
            return c
        return case()

    def construct(self, draw, L, fin, nout, fb, phases, force_n=None):
        plo, phi = fwin(L["pfd"])
        vlo, vhi = fwin(L["vco"])
        qlo, qhi = fwin(L["pll"])
        a, b = max(1, int(math.ceil(fin / phi))), min(15, int(math.floor(fin / plo)))
        if a > b:
            return None
        N = draw(st_between(a, b)) if force_n is None else force_n
        pfd = fin / N
        cands = []
        for O in self.ofact(nout):
            for c in L["crange"][str(phases[fb])]:
                if O * c > L["moc_max"]:
                    break
                for M in range(max(1, int(math.ceil(vlo / (pfd * O * c)))), min(255 // (O * c), int(math.floor(vhi / (pfd * O * c)))) + 1):
                    if qlo <= pfd * M * c <= qhi:
                        cands.append((M, O, c))
        if not cands:
            return None
        M, O, cfb = draw(st.sampled_from(cands))
        cs = [draw(st.sampled_from(L["crange"][str(phases[n])])) for n in range(nout)]
        cs[fb] = cfb
        return {"N": N, "M": M, "O": O, "c": cs, "fbk": fb}

    def evaluate(self, L, fin, outs, vm, sol, robust):
        N, M, O, cs, fb = sol["N"], sol["M"], sol["O"], sol["c"], sol["fbk"]
        if not on_grid(N, L["N"]):
            return "range", ("n-range",), "N %r outside 1..15" % (N,)
        if not on_grid(M, L["M"]):
            return "range", ("m-range",), "M %r outside 1..255" % (M,)
        if O not in self.ofact(len(outs)):
            return "range", ("o-range",), "O %r not in %r" % (O, self.ofact(len(outs)))
        if len(cs) != len(outs):
            return "config", ("config-shape",), "%d dividers for %d requests" % (len(cs), len(outs))
        for n, c in enumerate(cs):
            if c not in L["crange"][str(int(outs[n][1]))]:
                return "range", ("c-range",), "CLKOUT%d_DIV %r not in the range for phase %r" % (n, c, outs[n][1])
        if M * O * cs[fb] > L["moc_max"]:
            return "range", ("moc-range",), "M*O*Cfbk = %d above 255" % (M * O * cs[fb])
        pfd = fr(fin) / N
        if not in_win(pfd, L["pfd"], 0, robust):
            return "pfd-window", ("pfd-window",), "PFD %s outside declared %s..%s" % (mhz(pfd), mhz(L["pfd"][0]), mhz(L["pfd"][1]))
        vco = pfd * M * O * cs[fb]
        if not in_win(vco, L["vco"], 0, robust):
            return "vco-window", ("vco-window",), "VCO %s outside declared %s..%s" % (mhz(vco), mhz(L["vco"][0]), mhz(L["vco"][1]))
        fpll = vco / O
        if not in_win(fpll, L["pll"], 0, robust):
            return "pll-window", ("pll-window",), "f_pll %s outside declared %s..%s" % (mhz(fpll), mhz(L["pll"][0]), mhz(L["pll"][1]))
        for n, (f, p, m) in enumerate(outs):
            fo = fpll / cs[n]
            if not met(fo, f, m, robust):
                return "margin", (margin_kind(fo, f, m),), "output %d: %s from the returned settings, requested %s +-%g" % (
                    n, mhz(fo), mhz(f), m)
        return None

    def brute(self, L, fin, outs, vm, fb):
        plo, phi = fwin(L["pfd"])
        vlo, vhi = fwin(L["vco"])
        qlo, qhi = fwin(L["pll"])
        for N in range(max(1, int(math.ceil(fin / phi))), min(15, int(math.floor(fin / plo))) + 1):
            pfd = fin / N
            for K in range(max(1, int(math.ceil(vlo / pfd))), min(L["moc_max"], int(math.floor(vhi / pfd))) + 1):
                vco = pfd * K
                for O in self.ofact(len(outs)):
                    if K % O:
                        continue
                    fpll = vco / O
                    if not (qlo <= fpll <= qhi):
                        continue
                    R = K // O
                    cs = []
                    for n, (f, p, m) in enumerate(outs):
                        tol = (m - FSLACK) * f
                        opts = [c for c in L["crange"][str(int(p))] if abs(fpll / c - f) <= tol and (n != fb or R % c == 0)] \
                            if m > 2 * FSLACK else []
                        if not opts:
                            break
                        cs.append(opts[0])
                    else:
                        sol = {"N": N, "M": R // cs[fb], "O": O, "c": cs, "fbk": fb}
                        if self.evaluate(L, fin, outs, vm, sol, True) is None:
                            exact = all(fr(fin) / N * R / c == fr(f) for c, (f, p, m) in zip(cs, outs))
                            return ("refused-float-equality" if exact else "margin-ignored",), sol
        return None

    def run(self, case):
        pll = self.make(case["cls"], case["kw"])
        L = self.limits(pll, case["cls"])
        fin, outs, fb = case["fin"], case["outs"], case["fb"]
        if not (1 <= len(outs) <= L["nmax"]) or not 0 <= fb < len(outs) or fin <= 0 or \
                any(not (f > 0 and 0 <= m < 0.5 and p in (0, 45, 90, 135, 180, 270)) for f, p, m in outs):
            return skip("request")
        pll.register_clkin(None, fin, name="clkin")
        for i, (f, p, m) in enumerate(outs):
            pll.create_clkout(None, f, phase=p, margin=m, name="o%d" % i, is_feedback=(i == fb))
        res = drive(pll)
        iw = pll.platform.toolchain.ifacewriter
        block = iw.get_block(pll.name)

        def check_config(_cfg):
            try:
                sol = {"N": block["N"], "M": block["M"], "O": block["O"], "fbk": fb,
                       "c": [block["CLKOUT%d_DIV" % n] for n in range(len(outs))]}
            except (KeyError, TypeError) as e:
                return "config", ("config-shape",), "PLL block lacks %s" % e
            v = self.evaluate(L, fin, outs, 0, sol, False)
            if v:
                return v
            vco = fr(fin) / sol["N"] * sol["M"] * sol["O"] * sol["c"][fb]
            if "VCO_FREQ" in block and not close(block["VCO_FREQ"], vco):
                return "config", ("reported-vco",), "reported VCO_FREQ %r, settings give %s" % (block["VCO_FREQ"], mhz(vco))
            import re
            txt = iw.generate_pll(block, pll.platform.device, verbose=False)
            props = dict(re.findall(r'design\.set_property\("%s","([A-Z0-9_]+)","([^"]*)"' % re.escape(pll.name), txt))
            exp = {"M": str(sol["M"]), "N": str(sol["N"]), "O": str(sol["O"]), "FEEDBACK_CLK": "CLK%d" % fb,
                   "FEEDBACK_MODE": "LOCAL" if fb == 0 else "CORE"}
            for n, c in enumerate(sol["c"]):
                exp["CLKOUT%d_DIV" % n] = str(c)
            t = cmp_params(props, exp, None, r"^(M|N|O|CLKOUT\d_DIV)$")
            if t:
                return "instance-params", ("instance-params",), "interface-designer script: " + t
            return None

        c2 = dict(case)
        c2["outs"] = outs
        return finish(c2, self, L, pll, res, check_config, lambda: self.brute(L, fin, outs, 0, fb),
                      refusal_key=lambda wit: (self.brute(L, fin, outs, 0, fb) or (("refused-satisfiable",), None))[0])


TRION = Trion()


# ==================================================================================== CologneChip GateMate (CC_PLL)
# no search in LiteX (the vendor tool computes the dividers): CLK0/CLK90 = OUT_CLK, CLK180/CLK270 = OUT_CLK * (1 + CLKx_DOUB)

class GateMate:
    name = "gatemate"
    MAXF = {"undefined": 250e6, "lowpower": 250e6, "economy": 312.5e6, "speed": 416.75e6}

    def strategy(self, tier):
        @st.composite
        def case(draw):
            mode = draw(st.sampled_from(sorted(self.MAXF)))
            kw = {"perf_mode": draw(st.sampled_from([mode, mode.upper()])), "low_jitter": draw(st.integers(0, 1)),
                  "lock_req": draw(st.integers(0, 1))}
            fin = draw(st_freq(5e6, 250e6))
            base = draw(st_freq(1e6, self.MAXF[mode] / 2))
            phases = draw(st.lists(st.sampled_from([0, 90, 180, 270]), min_size=1, max_size=4, unique=True))
            outs = []
            for p in phases:
                mult = draw(st.sampled_from([1, 1, 1, 2, 2, 3, 0.5, 1.0000001]))
                outs.append([base * mult, p])
            return {"fam": self.name, "cls": "GateMatePLL", "kw": kw, "fin": fin, "outs": outs,
                    "usr": draw(st.booleans()), "how": "rand", "vm": 0.0}
        return case()

    def run(self, case):
        from migen import ClockDomain, Signal
        from litex.gen import Open
        kw, fin, outs = case["kw"], case["fin"], case["outs"]
        maxf = self.MAXF[kw["perf_mode"].lower()]
        phases = [p for f, p in outs]
        if len(set(phases)) != len(phases) or any(p not in (0, 90, 180, 270) for p in phases) or \
                any(not (0 < f <= maxf) for f, p in outs) or not outs:
            return skip("request")
        pll = _imp("colognechip", "GateMatePLL")(**kw)
        pll.register_clkin(Signal(), fin, usr_clk_ref=case["usr"])
        cds = {}
        for i, (f, p) in enumerate(outs):
            cds[p] = ClockDomain("cd%d" % i)
            pll.create_clkout(cds[p], f, phase=p)
        sigs = {p: pll._clkouts[p][0] for p in phases}
        base = min(f for f, p in outs)
        legal = all((f == base) if p in (0, 90) else (f in (base, 2 * base)) for f, p in outs)
        lab = ["GateMatePLL", "nout=%d" % len(outs)]
        try:
            pll.finalize()
        except AssertionError as e:
            if legal:
                return bad("completeness", "GateMatePLL refused %r at f_in=%s with %s although CLK0/CLK90 equal the slowest output and "
                           "CLK180/CLK270 are 1x or 2x" % (outs, mhz(fin), exc_text(e)), key="c20:gatemate:refused-legal",
                           cls=lab + ["GateMatePLL:refused-bad"])
            return ok(nt=True, cls=lab + ["GateMatePLL:refused-confirmed"])
        except Exception as e:
            return bad("crash", "%s escaped from do_finalize for %r" % (exc_text(e), case), key="c20:gatemate:crash-finalize",
                       cls=lab + ["GateMatePLL:crash"])
        if not legal:
            return bad("accepted-illegal", "GateMatePLL accepted %r (slowest %s): CLK0/CLK90 must equal it, CLK180/CLK270 be 1x or 2x"
                       % (outs, mhz(base)), key="c20:gatemate:accepted-illegal", cls=lab + ["GateMatePLL:bad-config"])
        insts = instances(pll, {"CC_PLL"})
        if len(insts) != 1:
            return bad("instance", "expected one CC_PLL, found %d" % len(insts), key="c20:gatemate:instance")
        P, io = inst_params(insts[0]), inst_ports(insts[0])
        exp = {"PERF_MD": kw["perf_mode"].upper(), "LOW_JITTER": kw["low_jitter"], "LOCK_REQ": kw["lock_req"]}
        for p in (180, 270):
            f = dict((pp, ff) for ff, pp in outs).get(p)
            exp["CLK%d_DOUB" % p] = 1 if (f is not None and f == 2 * base and f != base) else 0
        t = cmp_params(P, exp, None, r"^CLK\d+_DOUB$")
        try:
            if not t and not close(float(P["REF_CLK"]) * 1e6, fin, 1e-12):
                t = "REF_CLK %r is not f_in %s" % (P["REF_CLK"], mhz(fin))
            if not t and not close(float(P["OUT_CLK"]) * 1e6, base, 1e-12):
                t = "OUT_CLK %r is not the slowest request %s" % (P["OUT_CLK"], mhz(base))
        except (KeyError, ValueError, TypeError) as e:
            t = "REF_CLK/OUT_CLK unusable: %s" % e
        if not t:
            for p in (0, 90, 180, 270):
                sg = io.get("CLK%d" % p)
                if p in sigs and sg is not sigs[p]:
                    t = "port CLK%d is not the clock requested at phase %d" % (p, p)
                if p not in sigs and not isinstance(sg, Open):
                    t = "port CLK%d is connected although nothing was requested at phase %d" % (p, p)
            ref, usr = io.get("CLK_REF"), io.get("USR_CLK_REF")
            want = (usr, ref) if case["usr"] else (ref, usr)
            if want[0] is not pll._clkin or not isinstance(want[1], Open):
                t = "reference input on the wrong pin (usr_clk_ref=%r)" % case["usr"]
        if t:
            return bad("instance-params", "GateMatePLL %r f_in=%s outs=%r: CC_PLL %s" % (kw, mhz(fin), outs, t),
                       key="c20:gatemate:instance-params", cls=lab + ["GateMatePLL:bad-config"])
        return ok(nt=True, cls=lab + ["GateMatePLL:sat"])


GATEMATE = GateMate()


# ==================================================================================== sub-checks

def _gen(fam, classes=None):
    if hasattr(fam, "strategy"):
        return lambda tier: fam.strategy(tier)
    return lambda tier: st_case(fam, tier, classes)


def subchecks():
    T = (900, 14400)
    return [
        Sub("xilinx-s7", XILINX.run, strategy=_gen(XILINX, ["S7PLL", "S7MMCM"]), examples=(2000, 20000), timeout=T,
            rule="S7PLL/S7MMCM x speed grade -1/-2/-3 x vco_margin {0, 0.05}; fractional CLKOUT0 divider of the MMCM"),
        Sub("xilinx-s6", XILINX.run, strategy=_gen(XILINX, ["S6PLL", "S6DCM"]), examples=(800, 10000), timeout=T,
            rule="S6PLL/S6DCM (DCM_CLKGEN: CLKFX_MULTIPLY/CLKFX_DIVIDE) x speed grade"),
        Sub("xilinx-us", XILINX.run, strategy=_gen(XILINX, ["USPLL", "USMMCM", "USPPLL"]), examples=(1000, 12000), timeout=T,
            rule="USPLL/USMMCM/USPPLL x speed grade (all use XilinxClocking.compute_config)"),
        Sub("xilinx-uspmmcm", XILINX.run, strategy=_gen(XILINX, ["USPMMCM"]), examples=(160, 2400), timeout=T,
            rule="USPMMCM (own compute_config: 1/8-step multiplier and CLKOUT0 divider) x speed grade"),
        Sub("ecp5", ECP5F.run, strategy=_gen(ECP5F), examples=(1400, 16000), timeout=T,
            rule="ECP5PLL, 1..4 outputs (4 over-weighted: no spare feedback output), feedback through a requested or a spare output"),
        Sub("ice40", ICE40F.run, strategy=_gen(ICE40F), examples=(2000, 20000), timeout=T,
            rule="iCE40PLL SB_PLL40_CORE/PAD, one output; 3/4 of the inputs below 133 MHz, 1/4 over the whole declared range"),
        Sub("nx", NXF.run, strategy=_gen(NXF), examples=(240, 3200), timeout=T,
            rule="NXPLL 1..5 outputs (finalize computes the analog parameters: ~0.2 s per case)"),
        Sub("intel", INTEL.run, strategy=_gen(INTEL), examples=(320, 4000), timeout=T,
            rule="Cyclone IV/V/10LP, MAX10, Stratix V x every speed grade; inputs mostly <= 100 MHz (quick) because the helper's "
                 "search grows with (f_in/5 MHz)^2; Stratix V up to 18 outputs"),
        Sub("gowin", GOWIN1.run, strategy=_gen(GOWIN1), examples=(3000, 30000), timeout=T,
            rule="GW1NPLL (5 device strings -> 4 VCO/PFD tables, rPLL/PLLVR) and GW2APLL; by-construction over the port shapes "
                 "CLKOUT/CLKOUTP/CLKOUTD/CLKOUTD3 in every request order; random: ratios 1,2,3,4,... of one frequency"),
        Sub("gw5a", GOWIN5.run, strategy=_gen(GOWIN5), examples=(1200, 16000), timeout=T,
            rule="GW5APLL: GW5A-/GW5AT-/GW5AST- devices (PLLA/PLL), 1..7 outputs"),
        Sub("trion", TRION.run, strategy=_gen(TRION), examples=(2000, 20000), timeout=T,
            rule="TRIONPLL.compute_config with a feedback output (the only path that computes in LiteX), 1..3 outputs, "
                 "stand-in platform; margins mostly 0 (the helper matches frequencies exactly)"),
        Sub("gatemate", GATEMATE.run, strategy=_gen(GATEMATE), examples=(600, 6000), timeout=T,
            rule="GateMatePLL: every subset of phases x frequency multiples {0.5,1,2,3,1+1e-7} x perf_mode/low_jitter/lock_req/usr_clk_ref"),
    ]

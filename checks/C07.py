"""C07 - Wishbone adapters and memories are transparent to the master."""
from hypothesis import strategies as st

from vlib.runner import Sub, ok, bad, skip
from vlib import bench, wb

RULE = ("DUT (down/up/auto converter, cache, remapper, CSR bridge, SRAM incl. bursts, chains) x geometry x history of "
        "5..60 read/write operations (small address window so that sets collide, partial/empty byte selects, gaps, held "
        "cyc, B4 bursts for the bursting SRAM) x slave ack schedule (0-latency capable hardware memory slave) x initial "
        "contents; oracle = flat byte memory + exactly-one-ack monitor + slave-side stability monitor + final read-back "
        "of the whole window through the DUT (and of the slave memory for storage-less DUTs); non-trivial = a "
        "partial-sel write followed by a read of the same word (cache: an eviction of a dirty line; bursts: >=3 beats "
        "with a wrap or wait state); distinct = canonical JSON of the case")
ASSUMPTIONS = ["Migen's simulator (site-packages) defines FHDL semantics",
               "converters use word addressing (asserted by the code); reads are compared on the selected byte lanes only",
               "CSR bridge accesses are full-word or empty selects (the CSR bus has no byte enables)",
               "cache: starts cold over a slave with non-zero content everywhere (valid bits added by the repair of cache-cold-tag0, witness replayed)",
               "burst master presents every beat's address as Wishbone B4 prescribes"]


def _lanes(sel, nbytes):
    m = 0
    for i in range(nbytes):
        if (sel >> i) & 1:
            m |= 0xff << (8 * i)
    return m


# ------------------------------------------------------------------------------------ strategies

def st_ops(dw, window, n_max, full_sel_only=False, min_ops=5):
    nb = dw // 8
    sels = st.one_of(st.just((1 << nb) - 1), st.just((1 << nb) - 1), st.integers(0, (1 << nb) - 1),
                     st.sampled_from([1 << i for i in range(nb)] + [0]))
    if full_sel_only:
        sels = st.sampled_from([(1 << nb) - 1, (1 << nb) - 1, (1 << nb) - 1, 0])
    op = st.fixed_dictionaries({
        "we": st.integers(0, 1),
        "adr": st.integers(0, window - 1),
        "dat": st.integers(0, (1 << dw) - 1),
        "sel": sels,
        "gap": st.sampled_from([0, 0, 0, 1, 2, 5]),
        "hold": st.booleans(),
    })
    return st.lists(op, min_size=min_ops, max_size=n_max)


def _burst_ops(draw, dw, W):
    """B4 burst histories: incrementing, wrapping (4/8/16), constant and classic cycles with wait states between beats"""
    ops = []
    for _ in range(draw(st.integers(2, 8))):
        we = draw(st.integers(0, 1))
        btype = draw(st.sampled_from(["incr", "incr", "wrap4", "wrap8", "wrap16", "const", "classic"]))
        beats = draw(st.integers(2, 8)) if btype != "classic" else 1
        if btype.startswith("wrap"):
            # a wrap burst longer than its wrap length is excluded by construction (known finding
            # sram-wrap-overrun, replayed from its witness file)
            beats = min(beats, int(btype[4:]))
        start = draw(st.integers(0, W - 1))
        waits = draw(st.sampled_from([0, 0, 1]))
        for b in range(beats):
            if btype == "incr":
                adr, cti, bte = (start + b) % W, 2, 0
            elif btype.startswith("wrap"):
                n = int(btype[4:])
                adr, cti, bte = (start & ~(n - 1)) | ((start + b) & (n - 1)), 2, {4: 1, 8: 2, 16: 3}[n]
            elif btype == "const":
                adr, cti, bte = start, 1, 0
            else:
                adr, cti, bte = start, 0, 0
            last = b == beats - 1
            if last and btype != "classic":
                cti = 7
            ops.append({"we": we, "adr": adr, "dat": draw(st.integers(0, (1 << dw) - 1)),
                        "sel": draw(st.sampled_from([(1 << (dw // 8)) - 1, (1 << (dw // 8)) - 1, 0x5, 0x3, 0x8])) & ((1 << (dw // 8)) - 1),
                        "gap": (draw(st.sampled_from([0, 1, 3])) if b == 0 else (waits if draw(st.integers(0, 3)) == 0 else 0)),
                        "hold": not last, "cti": cti, "bte": bte, "btype": btype})
    return ops


def st_case(tier):
    nmax = 30 if tier == "quick" else 60

    @st.composite
    def case(draw):
        kind = draw(st.sampled_from(["down", "up", "conv", "cache", "cache", "remap", "wb2csr", "sram", "sram_burst", "chain"]))
        c = {"dut": kind, "go": draw(st.one_of(st.just(["const", 1]), bench.st_schedule())), "seed": draw(st.integers(0, 2 ** 16))}
        if kind in ("down", "up", "conv"):
            ratio = draw(st.sampled_from([2, 4, 8]))
            small = draw(st.sampled_from([8, 16, 32])) if ratio <= 4 else 8
            if small * ratio > 64:
                small = 64 // ratio
            big = small * ratio
            if kind == "conv":
                kind2 = draw(st.sampled_from(["down", "up", "same"]))
            else:
                kind2 = kind
            if kind2 == "down":
                c.update({"dw_m": big, "dw_s": small})
            elif kind2 == "up":
                c.update({"dw_m": small, "dw_s": big})
            else:
                c.update({"dw_m": big, "dw_s": big})
            c["window"] = draw(st.sampled_from([8, 16]))
            c["ops"] = draw(st_ops(c["dw_m"], c["window"], nmax))
        elif kind == "cache":
            dw_m, dw_s = draw(st.sampled_from([(32, 32), (32, 64), (32, 128), (64, 32), (64, 64), (32, 32)]))
            cachesize = draw(st.sampled_from([4, 8, 16, 32, 64]))
            if dw_s > dw_m and cachesize < 2 * dw_s // dw_m:
                cachesize = 2 * dw_s // dw_m
            c.update({"dw_m": dw_m, "dw_s": dw_s, "cachesize": cachesize, "reverse": draw(st.booleans()),
                      "window": cachesize * draw(st.sampled_from([2, 4])),
                      # address widths that just cover the window (every tag bit is exercised) or wide ones
                      "tight": draw(st.booleans())})
            c["ops"] = draw(st_ops(dw_m, c["window"], nmax))
            # collide on few sets: fold most addresses onto two lines
            if draw(st.booleans()):
                for o in c["ops"]:
                    o["adr"] = (o["adr"] % 2) + cachesize * (o["adr"] // 2 % (c["window"] // cachesize))
        elif kind == "remap":
            c.update({"dw_m": 32, "dw_s": 32, "addressing": draw(st.sampled_from(["word", "byte"])),
                      "origin": draw(st.sampled_from([0, 0x10000, 0x40000000, 0x12340000])),
                      "size_log2": draw(st.sampled_from([12, 16, 20, 28, 32])),
                      "regions": draw(st.lists(st.tuples(st.sampled_from([0x0, 0x1000, 0x10000, 0x40000000, 0x12340000, 0x12341000]),
                                                         st.sampled_from([0x100, 0x1000, 0x10000]),
                                                         st.sampled_from([0x0, 0x2000, 0x80000000, 0x5000000])).map(list), max_size=2)),
                      "window": 64})
            # the default size (the master's whole address space) for word-addressed remappers (with byte addressing the default
            # is computed from an address width that is two bits short - observed, not generated)
            c["default_size"] = c["addressing"] == "word" and draw(st.integers(0, 3)) == 0
            if c["default_size"]:
                c["size_log2"] = 32
            ops = draw(st_ops(32, 64, nmax))
            sl = c["size_log2"]
            for o in ops:
                edges = []
                for so, sz, _ in c["regions"]:
                    # the words around both ends of every source window (first word behind it: low address 0)
                    edges += [(so + sz) & 0xffffffff, (so + sz - 0x100) & 0xffffffff, so, (so - 0x100) & 0xffffffff]
                hi = draw(st.sampled_from([0, 0, 0x1000, 0x10000, 0x12340000, 0x40000000, 0x12341000,
                                           (1 << (sl - 1)) & 0xffffffff, ((1 << sl) - 0x100) & 0xffffffff, (1 << sl) & 0xffffffff,
                                           ((1 << (sl - 1)) + 0x1000) & 0xffffffff] + edges + edges))
                o["adr_hi"] = hi
                if hi in edges and draw(st.booleans()):
                    o["adr"] = draw(st.sampled_from([0, 0, 1, 63]))
            c["ops"] = ops
        elif kind == "wb2csr":
            c.update({"dw_m": draw(st.sampled_from([8, 32])), "register": draw(st.booleans()),
                      "addressing": draw(st.sampled_from(["word", "byte"])), "window": 16})
            c["dw_s"] = c["dw_m"]
            c["ops"] = draw(st_ops(c["dw_m"], 16, nmax, full_sel_only=True))
        elif kind == "sram":
            dw = draw(st.sampled_from([32, 32, 64, 8, 16]))
            c.update({"dw_m": dw, "dw_s": dw, "window": draw(st.sampled_from([8, 16])), "read_only": draw(st.integers(0, 3)) == 0,
                      "mem_w": draw(st.sampled_from([None, None, None, dw // 2 if dw >= 16 else None]))})
            c["ops"] = draw(st_ops(dw, c["window"], nmax))
        elif kind == "sram_burst":
            dw = draw(st.sampled_from([32, 64]))
            c.update({"dw_m": dw, "dw_s": dw, "window": 32})
            c["ops"] = _burst_ops(draw, dw, 32)
        else:  # chain
            which = draw(st.sampled_from(["up_down", "cache_down", "remap_sram", "down_sram_burst", "up_sram_burst"]))
            c.update({"chain": which, "window": 16, "dw_m": 32, "dw_s": 32})
            if which == "up_down":
                c.update({"dw_m": 16, "dw_mid": 64, "dw_s": 32})
            elif which == "cache_down":
                c.update({"dw_m": 32, "dw_mid": 64, "dw_s": 16, "cachesize": 8, "window": 32})
            elif which == "down_sram_burst":
                c.update({"dw_m": 64, "dw_s": 32})
            c["ops"] = draw(st_ops(c["dw_m"], c["window"], nmax))
            if which == "down_sram_burst" and draw(st.booleans()):
                # bursts through the converter into the burst-capable SRAM (wrapping bursts must reach it as classic cycles)
                c["ops"] = _burst_ops(draw, 64, 16)
            if which == "up_sram_burst":
                c.update({"dw_m": 32, "dw_s": 64, "window": 32})
                c["ops"] = _burst_ops(draw, 32, 32) if draw(st.booleans()) else draw(st_ops(32, 32, nmax))
        return c
    return case()


# ------------------------------------------------------------------------------------ build

def _init_bytes(seed, n, zero_upto=0):
    import random
    r = random.Random(seed)
    b = [r.randrange(256) for _ in range(n)]
    for i in range(min(zero_upto, n)):
        b[i] = 0
    return b


def _words(bytes_, nb):
    return [sum(bytes_[i * nb + k] << (8 * k) for k in range(nb)) for i in range(len(bytes_) // nb)]


class Built:
    pass


def build(case):
    from migen import Module
    from litex.soc.interconnect import wishbone, csr_bus
    from litex.soc.integration.soc import SoCRegion
    k = case["dut"]
    dw_m, dw_s = case["dw_m"], case["dw_s"]
    bm, bs = dw_m // 8, dw_s // 8
    W = case["window"]
    B = Built()
    B.monitors = []
    B.slave = None
    B.check_slave_mem = False
    B.adr_of = lambda op: op["adr"]
    top = Module()
    nbytes = W * bm
    zero_upto = 0          # the slave's content is non-zero everywhere, also where a cold cache's tag 0 would 'hit'
    init = _init_bytes(case["seed"], nbytes, zero_upto)
    B.model = wb.ByteMem(nbytes, init)

    def mk_slave(bus, width_bytes, init_bytes_list):
        depth = max(1, len(init_bytes_list) // width_bytes)
        s = wb.WBMemSlave(bus, depth, _words(init_bytes_list, width_bytes))
        top.submodules += s
        mon = wb.WBMonitor(bus, "dut->slave")
        B.monitors.append(mon)
        return s

    if k in ("down", "up", "conv"):
        import math
        aw = 12
        m = wishbone.Interface(data_width=dw_m, adr_width=aw, addressing="word")
        shift = int(math.log2(max(dw_m, dw_s) // min(dw_m, dw_s))) if dw_m != dw_s else 0
        s = wishbone.Interface(data_width=dw_s, adr_width=aw + shift if dw_m > dw_s else aw - shift, addressing="word")
        cls = {"down": wishbone.DownConverter, "up": wishbone.UpConverter, "conv": wishbone.Converter}[k]
        top.submodules.dut = cls(m, s)
        B.slave = mk_slave(s, bs, init)
        B.check_slave_mem = True
    elif k == "cache":
        import math
        ratio_up = max(dw_s // dw_m, 1)
        ratio_dn = max(dw_m // dw_s, 1)
        s_aw = 10
        if case.get("tight"):
            s_aw = max(1, int(math.log2(W * bm // bs)))
        s = wishbone.Interface(data_width=dw_s, adr_width=s_aw, addressing="word")
        m = wishbone.Interface(data_width=dw_m, adr_width=s_aw + int(math.log2(ratio_up)) - int(math.log2(ratio_dn)), addressing="word")
        top.submodules.dut = wishbone.Cache(case["cachesize"], m, s, reverse=case["reverse"])
        # slave layout: master word a lives in slave word a>>k at lane (n-1-i if reverse else i)
        sb = list(init)
        if ratio_up > 1 and case["reverse"]:
            sb = []
            for wi in range(len(init) // bs):
                chunk = init[wi * bs:(wi + 1) * bs]
                parts = [chunk[i * bm:(i + 1) * bm] for i in range(ratio_up)]
                for p in reversed(parts):
                    sb += p
        B.slave = mk_slave(s, bs, sb)
    elif k == "remap":
        m = wishbone.Interface(data_width=32, address_width=32, addressing=case["addressing"])
        s = wishbone.Interface(data_width=32, address_width=32, addressing=case["addressing"])
        src = [SoCRegion(origin=a, size=sz) for a, sz, _ in case["regions"]]
        dst = [SoCRegion(origin=d, size=sz) for _, sz, d in case["regions"]]
        if case.get("default_size"):
            top.submodules.dut = wishbone.Remapper(m, s, origin=case["origin"], src_regions=src, dst_regions=dst)
        else:
            top.submodules.dut = wishbone.Remapper(m, s, origin=case["origin"], size=1 << case["size_log2"], src_regions=src, dst_regions=dst)
        B.slave = mk_slave(s, 4, init)
        B.remap = True
    elif k == "wb2csr":
        m = wishbone.Interface(data_width=dw_m, adr_width=14, addressing=case["addressing"])
        c = csr_bus.Interface(data_width=dw_m, address_width=14)
        top.submodules.dut = wishbone.Wishbone2CSR(m, c, register=case["register"])
        B.csr = c
    elif k == "sram":
        from migen import Memory
        m = wishbone.Interface(data_width=dw_m, adr_width=12, addressing="word")
        iw = _words(init, bm)
        if case.get("mem_w"):
            mem = Memory(case["mem_w"], W, init=[x & ((1 << case["mem_w"]) - 1) for x in iw])
            top.submodules.dut = wishbone.SRAM(mem, read_only=case["read_only"], bus=m)
            B.mem_w = case["mem_w"]
            # narrower memory: upper lanes read as zero, writes to them are dropped
            B.model = wb.ByteMem(nbytes, [b if (i % bm) < case["mem_w"] // 8 else 0 for i, b in enumerate(init)])
        else:
            top.submodules.dut = wishbone.SRAM(W * bm, read_only=case["read_only"], init=iw, bus=m)
            # a second SRAM on the same bus wires as a decoder leaves an unselected slave: stb / we / adr / dat_w / sel follow the
            # master, cyc stays low - it must not answer and its content must not change
            m2 = wishbone.Interface(data_width=dw_m, adr_width=12, addressing="word")
            top.comb += [m2.stb.eq(m.stb), m2.we.eq(m.we), m2.adr.eq(m.adr), m2.dat_w.eq(m.dat_w), m2.sel.eq(m.sel)]
            top.submodules.bystander = wishbone.SRAM(W * bm, init=iw, bus=m2)
            B.bystander = (top.bystander, m2, iw)
        B.read_only = case["read_only"]
    elif k == "sram_burst":
        m = wishbone.Interface(data_width=dw_m, adr_width=12, addressing="word", bursting=True)
        top.submodules.dut = wishbone.SRAM(W * bm, init=_words(init, bm), bus=m)
    else:
        which = case["chain"]
        if which == "up_down":
            m = wishbone.Interface(data_width=16, adr_width=12, addressing="word")
            mid = wishbone.Interface(data_width=64, adr_width=10, addressing="word")
            s = wishbone.Interface(data_width=32, adr_width=11, addressing="word")
            top.submodules.a = wishbone.UpConverter(m, mid)
            top.submodules.b = wishbone.DownConverter(mid, s)
            B.slave = mk_slave(s, 4, init)
            B.check_slave_mem = True
        elif which == "cache_down":
            m = wishbone.Interface(data_width=32, adr_width=11, addressing="word")
            mid = wishbone.Interface(data_width=64, adr_width=10, addressing="word")
            s = wishbone.Interface(data_width=16, adr_width=12, addressing="word")
            top.submodules.a = wishbone.Cache(case["cachesize"], m, mid, reverse=False)
            top.submodules.b = wishbone.DownConverter(mid, s)
            B.slave = mk_slave(s, 2, init)
        elif which == "remap_sram":
            m = wishbone.Interface(data_width=32, adr_width=30, addressing="word")
            s = wishbone.Interface(data_width=32, adr_width=30, addressing="word")
            top.submodules.a = wishbone.Remapper(m, s, origin=0x10000000, size=0x1000)
            top.submodules.b = wishbone.SRAM(W * 4, init=_words(init, 4), bus=s)
        elif which == "up_sram_burst":
            m = wishbone.Interface(data_width=32, adr_width=12, addressing="word", bursting=True)
            s = wishbone.Interface(data_width=64, adr_width=11, addressing="word", bursting=True)
            top.submodules.a = wishbone.UpConverter(m, s)
            top.submodules.b = wishbone.SRAM(W * 4, init=_words(init, 8), bus=s)
        else:
            m = wishbone.Interface(data_width=64, adr_width=11, addressing="word")
            s = wishbone.Interface(data_width=32, adr_width=12, addressing="word", bursting=True)
            top.submodules.a = wishbone.DownConverter(m, s)
            top.submodules.b = wishbone.SRAM(W * 8, init=_words(init, 4), bus=s)
    B.top, B.m = top, m
    return B


def _data_key(case, k):
    if k == "sram_burst":
        # wrap burst with more beats than its wrap length
        run = 0
        for o in case["ops"]:
            if o.get("btype", "").startswith("wrap"):
                run += 1
                if run > int(o["btype"][4:]):
                    return "sram-wrap-overrun"
                if o.get("cti") == 7:
                    run = 0
            else:
                run = 0
    return "wb-data:" + k


class CSRMemAgent:
    """CSR-side register array: dat_r one cycle after adr; we writes the word."""

    def __init__(self, bus, nwords, init):
        self.bus = bus
        self.mem = list(init[:nwords])
        self.n = nwords
        self.w = bench.Writer()
        self.accesses = []

    def signals(self):
        return [self.bus.adr, self.bus.we, self.bus.re, self.bus.dat_w]

    def step(self, t, v):
        adr, we, re, dat_w = v
        out = []
        if we and adr < self.n:
            self.mem[adr] = dat_w
        if we or re:
            self.accesses.append((t - 1, adr, we, re))
        self.w.set(out, self.bus.dat_r, self.mem[adr] if adr < self.n else 0)
        return out


class FinalMem:
    dynamic = True

    def __init__(self, mem, depth, at):
        self.mem, self.depth, self.at = mem, depth, at
        self.values = None

    def signals(self):
        return []

    def step(self, t, v):
        return None


def _remap_expect(case, adr):
    """documented translation: origin | (adr & mask), then region relocation; adr in interface units"""
    shift = 2 if case["addressing"] == "word" else 0
    size_log2 = case["size_log2"]
    origin = case["origin"]
    if case["addressing"] == "word":
        mask = (1 << (size_log2 - 2)) - 1
        a = (origin >> 2) | (adr & mask)
    else:
        mask = (1 << size_log2) - 1
        a = origin | (adr & mask)
    a &= (1 << (32 - shift)) - 1 if case["addressing"] == "word" else (1 << 32) - 1
    out = a
    for (so, sz, do) in case["regions"]:
        src = a << shift
        if so <= src < so + sz:
            out = ((do + src - so) >> shift)
    width = 30 if case["addressing"] == "word" else 32
    return out & ((1 << width) - 1)


def run_case(case):
    try:
        B = build(case)
    except (AssertionError, ValueError, IndexError, TypeError) as ex:
        return skip("constructor rejected parameters: %s" % type(ex).__name__, detail=str(ex)[:200])
    k = case["dut"]
    dw = case["dw_m"]
    nb = dw // 8
    W = case["window"]
    ops = [dict(o) for o in case["ops"]]
    # address units of the master interface
    unit = 1
    if k in ("wb2csr", "remap") and case.get("addressing") == "byte":
        unit = nb
    for o in ops:
        o["madr"] = o["adr"] * unit
        if k == "remap":
            base = o.get("adr_hi", 0)
            o["madr"] = (base // 4 + o["adr"]) if case["addressing"] == "word" else (base + 4 * o["adr"])
    readback = [{"we": 0, "adr": a, "madr": a * unit, "sel": (1 << nb) - 1, "gap": 0, "final": True} for a in range(W)] if k != "remap" else []
    all_ops = ops + readback
    mops = [{"we": o["we"], "adr": o["madr"], "dat": o.get("dat", 0), "sel": o["sel"], "gap": o.get("gap", 0),
             "hold": o.get("hold", False), "cti": o.get("cti", 0), "bte": o.get("bte", 0)} for o in all_ops]
    master = wb.WBMaster(B.m, mops)
    agents = [master] + B.monitors
    byst = getattr(B, "bystander", None)
    if byst:
        bprobe = bench.Probe([byst[1].ack] + [byst[0].mem[i] for i in range(len(byst[2]))])
        agents.append(bprobe)
    go = bench.Schedule(case["go"] if bench.sched_has_one(case["go"]) else ["const", 1])
    csr_agent = None
    if B.slave is not None:
        agents.append(bench.Driver(lambda t: {B.slave.go: go.bit(t)}))
    if k == "wb2csr":
        init_words = _words(_init_bytes(case["seed"], W * nb), nb)
        csr_agent = CSRMemAgent(B.csr, W, init_words)
        B.model = wb.ByteMem(W * nb, _init_bytes(case["seed"], W * nb))
        agents.append(csr_agent)
    ratio = max(case["dw_m"], case["dw_s"]) // min(case["dw_m"], case["dw_s"])
    limit = 60 + len(mops) * (12 * ratio + 20) * 3
    cyc = bench.run(B.top, agents, limit, stop=lambda t: master.finished())
    cls = ["dut:" + k + (":" + case["chain"] if k == "chain" else "")]
    # ---- judge
    if not master.finished():
        i = master.i
        return bad("termination", "%s: operation %d (%r) never acknowledged within %d cycles" % (k, i, mops[i] if i < len(mops) else None, limit),
                   key="wb-hang:" + k, cls=cls, cycles=cyc)
    if byst:
        for c_, row in enumerate(bprobe.trace):
            if row[0]:
                return bad("unselected-ack", "sram: a second SRAM whose cyc is low (stb/we/adr/dat_w follow the bus) acknowledges in cycle %d" % c_,
                           key="wb-unselected:sram", cls=cls, cycles=cyc)
            if list(row[1:]) != list(byst[2]):
                i_ = next(i for i in range(len(byst[2])) if row[1 + i] != byst[2][i])
                return bad("unselected-write", "sram: a second SRAM whose cyc is low (stb/we/adr/dat_w follow the bus) changed word %d from %#x to %#x "
                           "in cycle %d" % (i_, byst[2][i_], row[1 + i_], c_), key="wb-unselected:sram", cls=cls, cycles=cyc)
    if master.acks_outside and k != "sram_burst":
        # (a burst-capable slave pre-asserts ack for the next beat; an ack during a master wait state is
        #  not a termination and is ignored, as Wishbone B4 registered-feedback cycles prescribe)
        return bad("ack-once", "%s: %d ack(s) seen while the master had no request pending" % (k, master.acks_outside), key="wb-ack:" + k, cls=cls)
    for mon in B.monitors:
        if mon.violations:
            return bad("slave-protocol", "%s: %s (cycle %d)" % (k, mon.violations[0][1], mon.violations[0][0]), key="wb-proto:" + k, cls=cls)
    model = B.model
    partial_then_read = False
    last_partial = set()
    for (i, start, ackc, dat_r, err) in master.results:
        o = all_ops[i]
        badr = o["adr"] * nb
        if err:
            return bad("err", "%s: operation %d answered with err" % (k, i), key="wb-err:" + k, cls=cls)
        if o["we"]:
            if not getattr(B, "read_only", False):
                sel = o["sel"]
                if getattr(B, "mem_w", None):
                    sel &= (1 << (B.mem_w // 8)) - 1
                model.write(badr, nb, o["dat"], sel)
                if o["sel"] not in (0, (1 << nb) - 1):
                    last_partial.add(o["adr"])
        elif k != "remap":
            exp = model.read(badr, nb)
            m = _lanes(o["sel"], nb)
            if (dat_r & m) != (exp & m):
                what = "final read-back" if o.get("final") else "read"
                return bad("data", "%s %s: %s #%d of word %#x sel=%#x returned %#x, flat memory holds %#x (case dw %d->%d)" %
                           (k, case.get("chain", ""), what, i, o["adr"], o["sel"], dat_r & m, exp & m, case["dw_m"], case["dw_s"]),
                           key=_data_key(case, k), cls=cls, cycles=cyc)
            if o["adr"] in last_partial and not o.get("final"):
                partial_then_read = True
    if k == "remap":
        mon = B.monitors[0]
        reqs = mon.requests
        if len(reqs) != len(ops):
            return bad("remap-count", "remapper: %d master operations, %d slave-side requests" % (len(ops), len(reqs)), key="wb-remap", cls=cls)
        for o, rq in zip(ops, reqs):
            exp = _remap_expect(case, o["madr"])
            if rq[2] != exp:
                return bad("remap-address", "Remapper(%s, origin=%#x, size=2^%d, regions=%r): master adr %#x -> slave adr %#x, documented translation gives %#x" %
                           (case["addressing"], case["origin"], case["size_log2"], case["regions"], o["madr"], rq[2], exp), key="wb-remap", cls=cls)
    if k == "wb2csr":
        # CSR side must agree with the model too
        exp_acc = [(o["adr"], o["we"], 1 - o["we"]) for o in all_ops if o["sel"] != 0]
        got_acc = [(a, w_, r_) for _, a, w_, r_ in csr_agent.accesses]
        if got_acc != exp_acc:
            d = next((i for i, (a, b) in enumerate(zip(got_acc, exp_acc)) if a != b), min(len(got_acc), len(exp_acc)))
            return bad("csr-strobes", "Wishbone2CSR(register=%r): CSR-side strobes (adr, we, re) differ from the master's accesses with "
                       "sel != 0 at #%d: got %r expected %r (%d vs %d strobes)" % (case["register"], d, got_acc[d:d + 2], exp_acc[d:d + 2],
                       len(got_acc), len(exp_acc)), key="wb-csr-strobes", cls=cls)
        for a in range(W):
            if csr_agent.mem[a] != model.read(a * nb, nb):
                return bad("csr-side", "CSR word %d holds %#x, model %#x" % (a, csr_agent.mem[a], model.read(a * nb, nb)), key="wb-data:wb2csr", cls=cls)
    nt = partial_then_read or (k == "sram_burst" and any(o.get("btype", "").startswith("wrap") for o in ops)) or \
        (k == "cache" and len({o["adr"] // case["cachesize"] for o in ops if o["we"]}) > 1) or k in ("remap", "wb2csr")
    if any(o.get("hold") for o in ops):
        cls.append("held-cyc")
    if case["go"] != ["const", 1]:
        cls.append("slave-wait-states")
    return ok(nt=nt, cls=cls, cycles=cyc)


def subchecks():
    return [
        Sub("adapters", run_case, strategy=st_case, examples=(2500, 80000), timeout=(900, 20000),
            rule="10 DUT kinds incl. 4 chains; histories of 5..30 (thorough 60) operations"),
    ]

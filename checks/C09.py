"""C09 - Bus bridges and AXI-Lite converters preserve memory semantics and protocol rules."""
from hypothesis import strategies as st

from vlib.runner import Sub, ok, bad, skip
from vlib import bench, wb, axil

RULE = ("bridge / converter (AXI-Lite<->Wishbone, AXI-Lite->CSR, AXI-Lite SRAM, AXI-Lite down/up/auto converters ratio 2/4/8, "
        "AXI<->AXI-Lite, AXI<->Wishbone, AHB->Wishbone) x data width x base address x history of reads/writes (partial strobes, "
        "overlaps, both directions active) x five independent channel schedules on the master side (AW/W skew, up to K "
        "outstanding, B/R back-pressure, garbage on idle channels) x partner timing envelope on the slave side "
        "(pre-asserted or valid-dependent ready, queue depth Q, response latency, error ranges); oracle = flat byte-memory "
        "scoreboard, one response per request, error propagation, hold/stability monitors on everything the DUT drives; "
        "non-trivial = read-after-write to the same bytes across a delayed response, or a partial-strobe access that skips "
        "sub-words; distinct = canonical JSON")
ASSUMPTIONS = ["Migen's simulator (site-packages) defines FHDL semantics",
               "operations touching the same word (one of them a write) are serialised by the master agent, so every read has one admissible value",
               "error ranges are aligned on the widest word of the case",
               "AXILiteUpConverter: one read in flight (known finding axil-up-read-lane for two, excluded by construction, witness replayed)",
               "AXI4 bridges, AHB2Wishbone and add_adapter chains: see ASSUMPTIONS of checks/c09_full.py (legal AXI4 bursts; the AXI-Lite "
               "partner of AXI2AXILite has one read in flight and takes the k-th W only after or with the k-th AW; single NONSEQ AHB "
               "transfers; no error path behind AXILite2Wishbone; recorded classes excluded by construction, witnesses replayed)"]


def _m(w):
    return (1 << w) - 1


def COOP(case):
    """cycle from which all agents' schedules are cooperative (all ones)"""
    return 200 + len(case["ops"]) * 200


def st_ops(draw, nb, window_bytes, base, n_max, full_strb_only=False):
    ops = []
    n = draw(st.integers(3, n_max))
    for _ in range(n):
        word = draw(st.integers(0, window_bytes // nb - 1))
        we = draw(st.integers(0, 1))
        strb = _m(nb)
        if we and not full_strb_only:
            strb = draw(st.one_of(st.just(_m(nb)), st.integers(0, _m(nb)), st.sampled_from([1 << i for i in range(nb)] + [_m(nb) & ~1, 0])))
        ops.append({"we": we, "addr": base + word * nb, "data": draw(st.integers(0, _m(8 * nb))), "strb": strb})
    return ops


def st_case(tier):
    @st.composite
    def case(draw):
        dut = draw(st.sampled_from(["axil_sram", "axil2wb", "wb2axil", "axil2csr", "axil_down", "axil_down", "axil_up", "axil_conv"]))
        c = {"dut": dut, "K": draw(st.sampled_from([1, 1, 2, 4])), "Q": draw(st.sampled_from([1, 2, 4])),
             "w_after_aw": draw(st.booleans()), "wait_valid": draw(st.booleans()),
             "gm": draw(st.one_of(st.none(), st.integers(0, 999))), "gs": draw(st.one_of(st.none(), st.integers(0, 999))),
             "seed": draw(st.integers(0, 2 ** 16)),
             "ms": axil.st_chan_scheds(draw), "ss": axil.st_chan_scheds(draw), "go": draw(st.one_of(st.just(["const", 1]), bench.st_schedule())),
             "err": draw(st.integers(0, 4)) == 0}
        nmax = 14 if tier == "quick" else 30
        window = 64
        if dut in ("axil_sram", "axil2wb", "axil2csr", "wb2axil"):
            dw = draw(st.sampled_from([32, 32, 64])) if dut != "axil2csr" else draw(st.sampled_from([8, 32]))
            c["dw"] = dw
            # base addresses incl. ones that are not aligned on the window (the bridges subtract the base)
            c["base"] = draw(st.sampled_from([0, 0, 0x1000, 0x40000000, 0x20, 0x50, 0x1010])) if dut in ("axil2wb", "wb2axil") else 0
            c["wb_addressing"] = draw(st.sampled_from(["word", "byte"])) if dut in ("axil2wb", "wb2axil") else "word"
            c["ops"] = st_ops(draw, dw // 8, window, c["base"], nmax)   # CSR words have no byte enables: any non-zero strobe writes the word (oracle below)
        else:
            ratio = draw(st.sampled_from([2, 2, 4, 8]))
            small = draw(st.sampled_from([8, 16, 32]))
            while small * ratio > 128:
                small //= 2
            big = small * ratio
            kind = dut
            if dut == "axil_conv":
                kind = draw(st.sampled_from(["axil_down", "axil_up", "same"]))
            if kind == "axil_down":
                c.update({"dw": big, "dw_s": small})
            elif kind == "axil_up":
                c.update({"dw": small, "dw_s": big})
            else:
                c.update({"dw": big, "dw_s": big})
            c["base"] = 0
            window = max(64, 4 * big // 8)
            c["ops"] = st_ops(draw, c["dw"] // 8, window, 0, nmax)
            if c["dw"] < c["dw_s"]:
                # known findings axil-up-read-lane (two reads in flight) and axil-up-w-before-aw (lane taken from the
                # address presented now): excluded by construction, witnesses replayed
                c["K"] = 1
                c["w_after_aw"] = True
        c["window"] = window
        return c
    return case()


def _init(seed, n):
    import random
    r = random.Random(seed)
    return [r.randrange(256) for _ in range(n)]


def run_case(case):
    from migen import Module
    from litex.soc.interconnect import wishbone, csr_bus
    from litex.soc.interconnect import axi
    dut = case["dut"]
    dw = case["dw"]
    nb = dw // 8
    W = case["window"]
    base = case.get("base", 0)
    top = Module()
    init = _init(case["seed"], W)
    model = wb.ByteMem(W, init)
    err_lo = W // 2 if case["err"] else None       # upper half of the window answers SLVERR (where the DUT has an error path)
    cls = ["dut:" + dut, "K=%d" % case["K"]]
    agents = []
    slave = None
    wbmon = None
    csr_agent = None
    until = None

    def words(bs, width):
        return [sum(bs[i * width + k] << (8 * k) for k in range(width)) for i in range(len(bs) // width)]

    err_supported = False
    if dut == "wb2axil":
        shift = (nb.bit_length() - 1)
        wbi = wishbone.Interface(data_width=dw, adr_width=32 - shift, addressing=case["wb_addressing"])
        ax = axi.AXILiteInterface(data_width=dw, address_width=32)
        top.submodules.dut = axi.Wishbone2AXILite(wbi, ax, base_address=base)
        err_supported = True
        errf = (lambda a: err_lo is not None and (a - 0) % (1 << 32) >= err_lo and (a % (1 << 32)) < W)
        slave = axil.AXILMemSlave(ax, wb.ByteMem(W, init), case["ss"], Q=case["Q"], wait_valid=case["wait_valid"], err=errf, garbage_seed=case["gs"], until=COOP(case))
        unit = 1 if case["wb_addressing"] == "word" else nb
        mops = []
        for o in case["ops"]:
            mops.append({"we": o["we"], "adr": (o["addr"] // nb) * unit, "dat": o["data"], "sel": o["strb"], "gap": 0, "hold": False})
        master = wb.WBMaster(wbi, mops)
        agents = [master, slave]
    else:
        ax = axi.AXILiteInterface(data_width=dw, address_width=32)
        master = axil.AXILMaster(ax, case["ops"], case["ms"], K=case["K"], w_after_aw=case["w_after_aw"], garbage_seed=case["gm"], until=COOP(case))
        agents = [master]
        if dut == "axil_sram":
            top.submodules.dut = axi.AXILiteSRAM(W, init=words(init, nb), bus=ax)
        elif dut == "axil2wb":
            shift = (nb.bit_length() - 1)
            wbi = wishbone.Interface(data_width=dw, adr_width=32 - shift, addressing=case["wb_addressing"])
            top.submodules.dut = axi.AXILite2Wishbone(ax, wbi, base_address=base)
            sm = wb.WBMemSlave(wbi, W // nb, words(init, nb))
            top.submodules += sm
            if case["wb_addressing"] == "byte":
                # the memory slave indexes words: feed it the word part of the byte address
                pass
            go = bench.Schedule(case["go"] if bench.sched_has_one(case["go"]) else ["const", 1])
            agents.append(bench.Driver(lambda t: {sm.go: 1 if t >= COOP(case) else go.bit(t)}))
            wbmon = wb.WBMonitor(wbi, "axil2wb->wishbone")
            agents.append(wbmon)
            slave_wb = sm
        elif dut == "axil2csr":
            c = csr_bus.Interface(data_width=dw, address_width=14)
            top.submodules.dut = axi.AXILite2CSR(ax, c)
            from checks.C07 import CSRMemAgent
            csr_agent = CSRMemAgent(c, W // nb, words(init, nb))
            agents.append(csr_agent)
        else:
            sdw = case["dw_s"]
            axs = axi.AXILiteInterface(data_width=sdw, address_width=32)
            if dut == "axil_down":
                top.submodules.dut = axi.AXILiteDownConverter(ax, axs)
            elif dut == "axil_up":
                top.submodules.dut = axi.AXILiteUpConverter(ax, axs)
            else:
                top.submodules.dut = axi.AXILiteConverter(ax, axs)
            err_supported = True
            big = max(dw, sdw) // 8
            errf = (lambda a: err_lo is not None and a >= err_lo)
            slave = axil.AXILMemSlave(axs, wb.ByteMem(W, init), case["ss"], Q=case["Q"], wait_valid=case["wait_valid"], err=errf, garbage_seed=case["gs"], until=COOP(case))
            agents.append(slave)
    if dut == "axil2wb" and case["wb_addressing"] == "byte":
        return skip("WBMemSlave models word addressing only")
    # generated schedules run until COOP(case); afterwards every agent is cooperative, so a request that is still open at
    # the limit is a hang of the DUT, not a slow schedule (the first thorough run met a 64->8 converter with R offered 3
    # cycles in 34: 3 reads x 8 sub-reads needed more than the old fixed budget - false alarm, corrected)
    ratio = max(case["dw"], case.get("dw_s", case["dw"])) // min(case["dw"], case.get("dw_s", case["dw"]))
    limit = COOP(case) + len(case["ops"]) * (ratio * 12 + 40) + 200
    cyc = bench.run(top, agents, limit, stop=lambda t: master.finished())
    ctx = "%s dw=%d%s base=%#x K=%d Q=%d w_after_aw=%r wait_valid=%r" % (dut, dw, ("->%d" % case["dw_s"]) if "dw_s" in case else "", base,
                                                                          case["K"], case["Q"], case["w_after_aw"], case["wait_valid"])
    # ---- protocol monitors
    if slave is not None and slave.hold_violations():
        c_, txt = slave.hold_violations()[0]
        return bad("slave-side-hold", "%s: towards the slave, cycle %d: %s" % (ctx, c_, txt),
                   key="axil-up-w-before-aw" if (_up(case) and not case["w_after_aw"]) else "bridge-hold:" + dut, cls=cls, cycles=cyc)
    if wbmon is not None and wbmon.violations:
        return bad("slave-side-wishbone", "%s: %s" % (ctx, wbmon.violations[0][1]), key="bridge-hold:" + dut, cls=cls, cycles=cyc)
    if dut != "wb2axil" and master.hold_violations():
        c_, txt = master.hold_violations()[0]
        return bad("master-side-hold", "%s: B/R channel towards the master, cycle %d: %s" % (ctx, c_, txt), key="bridge-hold:" + dut, cls=cls, cycles=cyc)
    if dut != "wb2axil" and master.extra_responses:
        ch, c_, tok = master.extra_responses[0]
        return bad("response-once", "%s: a %s response in cycle %d that no request is waiting for" % (ctx, ch.upper(), c_),
                   key="bridge-once:" + dut, cls=cls, cycles=cyc)
    if not master.finished():
        if dut == "wb2axil":
            pend = master.i
        else:
            pend = next(i for i, d in enumerate(master.done) if not d)
        return bad("termination", "%s: operation %d %r never completed (%d cycles)" % (ctx, pend, case["ops"][pend], cyc),
                   key=_hang_key(case, pend), cls=cls, cycles=cyc)
    # ---- scoreboard (program order; dependent operations were serialised)
    raw = False
    skipped = False
    written = set()
    if dut == "wb2axil":
        results = {i: (ackc, dat_r, err) for (i, start, ackc, dat_r, err) in master.results}
    for i, o in enumerate(case["ops"]):
        off = o["addr"] - base
        in_err = err_supported and err_lo is not None and off >= err_lo
        if dut == "wb2axil":
            ackc, data, err = results[i]
            resp = 2 if err else 0
        else:
            c_, data, resp, tok = master.result[i]
        if in_err:
            if o["we"] and o["strb"] == 0:
                continue         # nothing is written: either response is acceptable
            if resp == 0:
                return bad("error-lost", "%s: access %d to an address the slave answers with SLVERR was reported OKAY" % (ctx, i),
                           key="bridge-error:" + dut, cls=cls, cycles=cyc)
            continue
        if resp != 0:
            return bad("spurious-error", "%s: access %d %r answered with resp %d" % (ctx, i, o, resp), key="bridge-error:" + dut, cls=cls, cycles=cyc)
        if o["we"]:
            strb = o["strb"]
            if dut == "axil2csr" and strb:
                strb = _m(nb)
            model.write((off // nb) * nb, nb, o["data"], strb)
            written.add(off // nb)
            if o["strb"] not in (0, _m(nb)):
                skipped = True
        else:
            exp = model.read((off // nb) * nb, nb)
            if data != exp:
                return bad("data", "%s: read #%d of %#x returned %#x, flat memory holds %#x" % (ctx, i, o["addr"], data, exp),
                           key=_data_key(case), cls=cls, cycles=cyc)
            if off // nb in written:
                raw = True
    # slave memory must agree
    if slave is not None:
        for a in range(W):
            if err_supported and err_lo is not None and a >= err_lo:
                break
            if slave.mem.b[a] != model.b[a]:
                return bad("slave-memory", "%s: byte %#x of the slave memory is %#x, model %#x" % (ctx, a, slave.mem.b[a], model.b[a]),
                           key=_data_key(case), cls=cls, cycles=cyc)
    if csr_agent is not None:
        for a in range(W // nb):
            if csr_agent.mem[a] != model.read(a * nb, nb):
                return bad("csr-side", "%s: CSR word %d is %#x, model %#x" % (ctx, a, csr_agent.mem[a], model.read(a * nb, nb)), key="bridge-data:" + dut, cls=cls)
    if case["err"] and err_supported:
        cls.append("error-range")
    return ok(nt=raw or skipped, cls=cls + (["raw"] if raw else []) + (["partial-strobe"] if skipped else []), cycles=cyc)


def _up(case):
    return "dw_s" in case and case["dw"] < case["dw_s"]


def _hang_key(case, pend):
    return "bridge-hang:" + case["dut"]


def _data_key(case):
    if _up(case) and not case["w_after_aw"]:
        return "axil-up-w-before-aw"
    if _up(case) and case["K"] > 1:
        return "axil-up-read-lane"
    return "bridge-data:" + case["dut"]


def subchecks():
    from checks import c09_full          # AXI4 <-> AXI-Lite / Wishbone bridges, AHB2Wishbone, add_adapter chains
    return [
        Sub("axilite", run_case, strategy=st_case, examples=(2500, 80000), timeout=(900, 20000),
            rule="AXI-Lite bridges, SRAM and converters with independent-channel master and multi-accept slave agents"),
    ] + c09_full.subchecks()

"""C09 (extension) - AXI4 <-> AXI-Lite, AXI4 <-> Wishbone, AHB -> Wishbone bridges and the adapter chains that
SoCBusHandler.add_adapter builds: flat byte-memory semantics towards the master, protocol-legal transfers towards
the slave.  Complements checks/C09.py (AXI-Lite family); its subchecks() are appended to those of C09."""
import random

from hypothesis import strategies as st

from vlib.runner import Sub, ok, bad, skip
from vlib import bench, wb, axil, axi4

RULE = ("AXI2AXILite / AXILite2AXI / AXI2Wishbone / Wishbone2AXI / AHB2Wishbone and the chains SoCBusHandler.add_adapter builds for "
        "EVERY supported (master standard incl. AHB, width) x (bus standard, width) x (slave standard, width) combination (enumerated, "
        "widths 32/64, wishbone word/byte addressing): data width 32/64 (8/16/128 for the AXI bridges) x base address x Wishbone "
        "word/byte addressing x history of reads/writes (AXI4: FIXED/INCR/WRAP bursts, len 0..31, full and narrow sizes, unaligned "
        "starts, partial/empty strobes, ids; AHB: NONSEQ byte/half/word/dword transfers, IDLE cycles, transfers for another slave "
        "(HSEL=0), next address phase presented at any point of the wait states) x independent channel schedules of the master agent "
        "(AW/W skew, W before AW, up to K outstanding, B/R back-pressure, garbage on idle channels) x partner envelope on the slave side "
        "(ready pre-asserted or valid-dependent, queue depth, response latency, 0-latency capable Wishbone memory, the real AXILiteSRAM, "
        "error ranges where the bridge has an error path); oracle = flat byte-memory scoreboard on the active byte lanes, len+1 R beats "
        "with last on the final one only and one B per write burst (not before its data), ids echoed, error responses on the right "
        "burst/transfer, exact request log on the slave side (address, strobes, data of every beat, in order, nothing else), hold rule "
        "on every channel the DUT drives, Wishbone request stability and no ack-less termination, AXI burst parameters issued by the "
        "DUT legal and as configured, final slave memory == model; non-trivial = a read of bytes written earlier in the case through "
        "the bridge (bridges: under back-pressure or slave latency); distinct = canonical JSON")
ASSUMPTIONS = ["Migen's simulator (site-packages) defines FHDL semantics",
               "operations touching the same bytes (one of them a write) are serialised by the master agent, so every read has one admissible value",
               "AXI bursts are legal AXI4 (INCR <= 256, FIXED <= 16, WRAP 2/4/8/16 with size-aligned start, no 4 KB crossing, strobes only on "
               "the lanes the transfer covers)",
               "AXI2AXILite / AXI2Wishbone and every adapter chain containing them: the AXI-Lite partner has one read in flight and accepts "
               "the k-th W only after (agent) or with (AXILiteSRAM, AXILite2Wishbone, AXILiteDownConverter) the k-th AW; the three "
               "consequences of the bridge's shared burst engine without response tracking - W taken before AW loses write addresses "
               "(c09:axi2axilite:w-before-aw), queued ARs move r.last (c09:axi2axilite:queued-ar-r-last), B/R responses are hard-wired OKAY "
               "(c09:axi2axilite:resp-hardwired-okay) - are excluded by construction and kept as witnesses",
               "AXILite2AXI: burst_type='WRAP' is accepted by the constructor but yields one-transfer WRAP bursts, illegal in AXI4 "
               "(c09:axilite2axi:wrap-single-beat): not generated, witness kept",
               "AHB master: single NONSEQ transfers and IDLE (SEQ/BUSY are ignored by the bridge and not generated), size <= bus width, "
               "size-aligned addresses, HWDATA held during the whole data phase, HREADY of the master = readyout of the bridge "
               "(the bridge has no HREADY input: it is the only slave that inserts wait states); an ERROR response counts as propagated "
               "when HRESP is high in at least one cycle of the transfer's data phase (the bridge drops HRESP in the second cycle of the "
               "two-cycle AHB-Lite ERROR response: c09:ahb2wishbone:error-second-cycle, witness kept, not demanded of generated cases)",
               "AXILite2Wishbone has no error path (wishbone err is ignored by the bridge): no error ranges behind AXI2Wishbone and none in "
               "adapter chains",
               "adapter chains: AXI masters issue what AXIUpConverter/AXIDownConverter document (full-width INCR bursts, start aligned to "
               "the widest word of the chain, length a multiple of the widest word); id width 1 (what the interfaces add_adapter creates "
               "have); byte-addressed wishbone ends only at bus width (wishbone.Converter asserts word addressing); AHB master only on a "
               "wishbone bus of its own width (add_adapter has nothing else for AHB)",
               "adapter chains steered away from recorded findings (counted as skipped in 'add-adapter-chains', witnesses kept): an AXI slave "
               "wider than the bus reached by single beats (c09:add-adapter:axi-up-single-beat: every combination except AXI master on an "
               "AXI bus), AXI master -> AXI-Lite bus -> narrower AXI slave (AXIDownConverter buffers R and takes the next AR: "
               "c09:axi2axilite:queued-ar-r-last), AXI master -> AXI-Lite/AXI bus -> wider AXI-Lite slave (AXILiteUpConverter behind "
               "AXI2AXILite: axil-up-w-before-aw of checks/C09.py)"]

FIXED, INCR, WRAP = 0, 1, 2
BNAME = {0: "FIXED", 1: "INCR", 2: "WRAP"}
BASES = [0x00000000, 0x00001000, 0x40000000, 0xfffff000]
ONE = ["const", 1]


def _m(w):
    return (1 << w) - 1


def _log2(n):
    return n.bit_length() - 1


def _init(seed, n):
    r = random.Random(seed)
    return [r.randrange(256) for _ in range(n)]


def _words(bs, width):
    return [sum(bs[i * width + k] << (8 * k) for k in range(width)) for i in range(len(bs) // width)]


def _lanes(sel, nbytes):
    m = 0
    for i in range(nbytes):
        if (sel >> i) & 1:
            m |= 0xff << (8 * i)
    return m


def _beats_class(n):
    for lim, name in ((1, "1"), (2, "2"), (4, "3-4"), (8, "5-8"), (16, "9-16"), (32, "17-32")):
        if n <= lim:
            return "beats:" + name
    return "beats:>32"


def _count(counts, label, n=1):
    counts[label] = counts.get(label, 0) + n


def _scheds(draw, names=("aw", "w", "ar", "b", "r")):
    return {n: draw(st.one_of(st.just(ONE), bench.st_schedule())) for n in names}


# ===================================================================================== partner agents (own variants)

class AXILSlave1(axil.AXILMemSlave):
    """AXI-Lite memory slave; w_needs_aw: the k-th W is only accepted after the k-th AW (a Python agent cannot accept it
    in the same cycle; the hardware partners of 'axi-wishbone' and 'add-adapter' do that)."""

    def __init__(self, bus, mem, sched, Q=1, Qr=None, w_needs_aw=True, **kw):
        axil.AXILMemSlave.__init__(self, bus, mem, sched, Q=Q, **kw)
        if w_needs_aw:
            self.w.gate = lambda: self._wq() < Q and len(self.w.got) < len(self.aw.got)
        if Qr is not None:
            self.ar.gate = lambda: self._arq() < Qr


def wb_mem_slave(top, bus, nbytes, init_bytes, err_lo=None, min_latency1=False):
    """0-latency capable hardware Wishbone memory (pattern of vlib.wb.WBMemSlave) behind `bus`, which may be word or
    byte addressed; err_lo: byte offset from which accesses are answered ack+err and have no effect.
    Returns the module (signals .go, memory .mem)."""
    from migen import Module, Signal, Memory, Replicate, If
    dw = len(bus.dat_w)
    nb = dw // 8
    depth = nbytes // nb
    shift = _log2(nb) if getattr(bus, "addressing", "word") == "byte" else 0
    m = Module()
    m.go = Signal()
    m.mem = Memory(dw, depth, init=_words(init_bytes, nb))
    rp = m.mem.get_port(async_read=True)
    wp = m.mem.get_port(write_capable=True, we_granularity=8)
    m.specials += m.mem, rp, wp
    abits = max(1, (depth - 1).bit_length())
    ack = Signal()
    err = Signal()
    wadr = Signal(len(bus.adr))
    pend = Signal(reset=0 if min_latency1 else 1)
    if min_latency1:
        m.sync += pend.eq(bus.cyc & bus.stb & ~ack)
    m.comb += [
        wadr.eq(bus.adr[shift:]),
        ack.eq(bus.cyc & bus.stb & m.go & pend),
        bus.ack.eq(ack),
        bus.err.eq(ack & err),
        rp.adr.eq(wadr[:abits]),
        wp.adr.eq(wadr[:abits]),
        wp.dat_w.eq(bus.dat_w),
        wp.we.eq(bus.sel & Replicate(ack & bus.we & ~err, nb)),
        If(ack & ~err, bus.dat_r.eq(rp.dat_r)).Else(bus.dat_r.eq(int("a5" * nb, 16))),
    ]
    if err_lo is not None:
        m.comb += err.eq(wadr[:abits] >= err_lo // nb)          # like the memory: decoded from the low address bits
    top.submodules += m
    return m


# ===================================================================================== AXI burst generation / scoreboard

def st_axi_op(draw, nb, window, base, max_beats, narrow=True, idw=4):
    """one legal AXI4 burst inside [base, base+window)"""
    full = _log2(nb)
    size = draw(st.sampled_from([full] * 4 + list(range(full + 1)))) if narrow else full
    n = 1 << size
    burst = draw(st.sampled_from([INCR, INCR, INCR, WRAP, FIXED]))
    long_ = draw(st.integers(0, 7)) == 0
    if burst == WRAP:
        ks = [k for k in (2, 4, 8, 16) if k * n <= window and k <= max(2, max_beats)]
        k = draw(st.sampled_from(ks))
        total = k * n
        off = draw(st.integers(0, window // total - 1)) * total + draw(st.integers(0, k - 1)) * n
        length = k - 1
    elif burst == FIXED:
        k = draw(st.integers(1, min(16, max_beats if long_ else 4)))
        slot = draw(st.integers(0, window // n - 1))
        low = draw(st.sampled_from([0, 0, 0, 1, n - 1, n // 2])) % n
        off = slot * n + low
        length = k - 1
    else:
        k = draw(st.integers(1, max_beats if long_ else min(5, max_beats)))
        k = min(k, window // n)
        slot = draw(st.integers(0, window // n - k))
        low = draw(st.sampled_from([0, 0, 0, 1, n - 1, n // 2])) % n
        off = slot * n + low
        length = k - 1
    op = {"we": draw(st.integers(0, 1)), "burst": burst, "len": length, "size": size, "addr": base + off,
          "id": draw(st.integers(0, _m(idw)))}
    if op["we"]:
        op["strb"] = draw(st.sampled_from(["full", "full", "rand", "mixed", "sparse", "none"]))
    return op


def st_axi_ops(draw, nb, window, base, max_beats, idw, nmax, narrow=True, nmin=2):
    """2..nmax bursts; a read often repeats the geometry of an earlier write (read-back through the bridge)"""
    ops = []
    for _ in range(draw(st.integers(nmin, nmax))):
        prev = [o for o in ops if o["we"]]
        if prev and draw(st.integers(0, 2)) == 0:
            o = dict(prev[draw(st.integers(0, len(prev) - 1))])
            o.pop("strb", None)
            o["we"] = 0
            o["id"] = draw(st.integers(0, _m(idw)))
        else:
            o = st_axi_op(draw, nb, window, base, max_beats, narrow=narrow, idw=idw)
        ops.append(o)
    return ops


def write_beats(op, nb, rng):
    """[[data, strb], ...] of a legal master: strobes only inside the lanes the transfer covers"""
    out = []
    for a in axi4.burst_addresses(op["addr"], op["len"], op["size"], op["burst"]):
        act = 0
        for x in axi4.active_bytes(a, op["size"]):
            act |= 1 << (x % nb)
        style = op.get("strb", "full")
        if style == "mixed":
            style = rng.choice(["full", "rand", "sparse", "none", "full"])
        if style == "full":
            strb = act
        elif style == "rand":
            strb = rng.getrandbits(nb) & act
        elif style == "sparse":
            strb = 1 << rng.choice([i for i in range(nb) if (act >> i) & 1])
        else:
            strb = 0
        out.append([rng.getrandbits(8 * nb), strb])
    return out


def expand_ops(case, nb):
    ops = []
    for i, o in enumerate(case["ops"]):
        o = dict(o)
        if o["we"]:
            o["beats"] = write_beats(o, nb, random.Random(case["seed"] * 131 + i))
        ops.append(o)
    return ops


def opdesc(ops, p):
    o = ops[p]
    return "op %d (%s %s addr=%#x len=%d size=%d id=%d)" % (p, "write" if o["we"] else "read", BNAME[o["burst"]], o["addr"],
                                                           o["len"], o["size"], o["id"])


def expected_beats(ops, nb):
    """per-beat expectation on a full-width, beat-by-beat slave side:
    writes: [(op, word byte address, strb, data)], reads: [(op, word byte address)] in issue order per direction"""
    ws, rs = [], []
    for p, o in enumerate(ops):
        addrs = axi4.burst_addresses(o["addr"], o["len"], o["size"], o["burst"])
        if o["we"]:
            for a, (d, s) in zip(addrs, o["beats"]):
                ws.append((p, (a // nb) * nb, s, d))
        else:
            for a in addrs:
                rs.append((p, (a // nb) * nb))
    return ws, rs


def axi_master_checks(ctx, kp, ops, master, cls, cyc, state=""):
    """framing / termination towards an AXI4 master agent; returns a verdict or None"""
    hv = master.hold_violations()
    if hv:
        c_, txt = min(hv)
        return bad("master-side-hold", "%s: cycle %d: %s (towards the master)" % (ctx, c_, txt), key=kp + ":hold-master", cls=cls, cycles=cyc)
    for j, p in enumerate(master.ridx):
        n = ops[p]["len"] + 1
        for i, (c_, data, resp, rid, last) in enumerate(master.rres[j]):
            if last != int(i == n - 1):
                return bad("r-last", "%s: %s: R beat %d of %d (cycle %d) has last=%d" % (ctx, opdesc(ops, p), i, n, c_, last),
                           key=kp + ":r-last", cls=cls, cycles=cyc)
    if master.extra_r or master.extra_b:
        return bad("extra-response", "%s: responses beyond the requests: %d R beats, %d B" % (ctx, len(master.extra_r), len(master.extra_b)),
                   key=kp + ":extra-response", cls=cls, cycles=cyc)
    if not master.finished():
        p = next(i for i, d in enumerate(master.done) if not d)
        return bad("termination", "%s: %s never completed (%d cycles) %s" % (ctx, opdesc(ops, p), cyc, state),
                   key=kp + ":hang", cls=cls, cycles=cyc)
    return None


def axi_scoreboard(ctx, kp, ops, master, model, base, nb, errf, cls, cyc, err_supported=True):
    """flat byte-memory scoreboard in program order (conflicting bursts were serialised); model is updated.
    returns (verdict or None, info)"""
    info = {"raw": False, "counts": {}}
    written = set()
    wn = rn = 0
    for p, o in enumerate(ops):
        addrs = axi4.burst_addresses(o["addr"], o["len"], o["size"], o["burst"])
        in_err = bool(errf(o["addr"])) if err_supported else False
        counts = info["counts"]
        _count(counts, BNAME[o["burst"]])
        _count(counts, ("write:" if o["we"] else "read:") + _beats_class(o["len"] + 1))
        if (1 << o["size"]) < nb:
            _count(counts, "narrow-size")
        if o["addr"] % (1 << o["size"]):
            _count(counts, "unaligned-start")
        if o["burst"] == WRAP and addrs[-1] < addrs[0]:
            _count(counts, "wrap-wraps")
        if in_err:
            _count(counts, "error-range-burst")
        if o["we"]:
            c_, resp, bid = master.bres[wn]
            if bid != o["id"]:
                return bad("b-id", "%s: %s answered with B id %d" % (ctx, opdesc(ops, p), bid), key=kp + ":id", cls=cls, cycles=cyc), info
            if (resp != 0) != in_err:
                return bad("b-resp", "%s: %s answered with B resp %d (slave: %s)" % (ctx, opdesc(ops, p), resp, "SLVERR" if in_err else "OKAY"),
                           key=kp + ":resp", cls=cls, cycles=cyc), info
            c_aw = master.aw.sent[wn][0]
            c_wl = master.w.sent[master.w_lastbeat[wn]][0]
            if c_ <= max(c_aw, c_wl):
                return bad("b-early", "%s: %s: B in cycle %d, AW accepted in cycle %d, last W beat in cycle %d" %
                           (ctx, opdesc(ops, p), c_, c_aw, c_wl), key=kp + ":b-early", cls=cls, cycles=cyc), info
            if not in_err:
                for a, (data, strb) in zip(addrs, o["beats"]):
                    for x in axi4.active_bytes(a, o["size"]):
                        lane = x % nb
                        if (strb >> lane) & 1:
                            model[x - base] = (data >> (8 * lane)) & 0xff
                            written.add(x)
            wn += 1
        else:
            for i, (a, (c_, data, resp, rid, last)) in enumerate(zip(addrs, master.rres[rn])):
                if rid != o["id"]:
                    return bad("r-id", "%s: %s: R beat %d (cycle %d) carries id %d" % (ctx, opdesc(ops, p), i, c_, rid),
                               key=kp + ":id", cls=cls, cycles=cyc), info
                if (resp != 0) != in_err:
                    return bad("r-resp", "%s: %s: R beat %d (cycle %d) has resp %d (slave: %s)" %
                               (ctx, opdesc(ops, p), i, c_, resp, "SLVERR" if in_err else "OKAY"), key=kp + ":resp", cls=cls, cycles=cyc), info
                if in_err:
                    continue
                for x in axi4.active_bytes(a, o["size"]):
                    lane = x % nb
                    v = (data >> (8 * lane)) & 0xff
                    if v != model[x - base]:
                        return bad("read-data", "%s: %s: R beat %d byte %#x (lane %d) is %#04x, flat memory holds %#04x (beat data %#x)" %
                                   (ctx, opdesc(ops, p), i, x, lane, v, model[x - base], data), key=kp + ":data", cls=cls, cycles=cyc), info
                    if x in written:
                        info["raw"] = True
            rn += 1
    return None, info


# ===================================================================================== AXI2AXILite

A2L_WINDOW = 512


def st_axi2axilite(tier):
    @st.composite
    def case(draw):
        dw = draw(st.sampled_from([32, 32, 32, 64, 64, 16, 128]))
        nb = dw // 8
        idw = draw(st.sampled_from([1, 4, 4, 8]))
        base = draw(st.sampled_from(BASES))
        c = {"dw": dw, "idw": idw, "base": base, "K": draw(st.sampled_from([1, 1, 2, 4])),
             "w_after_aw": draw(st.booleans()), "wait_valid": draw(st.booleans()),
             # healthy envelope of the bridge (see ASSUMPTIONS): single-outstanding partner that takes W after AW, no error ranges
             # (the write queue may be deeper: with W after AW every address has been taken when the last W beat is)
             "Q": draw(st.sampled_from([1, 1, 2, 4])), "Qr": 1, "w_needs_aw": True, "err": False,
             "gm": draw(st.one_of(st.none(), st.integers(0, 999))), "gs": draw(st.one_of(st.none(), st.integers(0, 999))),
             "seed": draw(st.integers(0, 2 ** 16)), "ms": _scheds(draw), "ss": _scheds(draw)}
        nmax = 5 if tier == "quick" else 10
        mb = 12 if tier == "quick" else 32
        c["ops"] = st_axi_ops(draw, nb, A2L_WINDOW, base, mb, idw, nmax)
        # partner: the multi-channel AXI-Lite slave agent, or the real AXILiteSRAM (takes W with or after AW, one request at a time)
        c["partner"] = draw(st.sampled_from(["agent", "agent", "agent", "sram"]))
        return c
    return case()


def run_axi2axilite(case):
    from migen import Module
    from litex.soc.interconnect import axi
    dw = case["dw"]
    nb = dw // 8
    base = case["base"]
    W = A2L_WINDOW
    m = axi.AXIInterface(data_width=dw, address_width=32, id_width=case["idw"])
    s = axi.AXILiteInterface(data_width=dw, address_width=32)
    top = Module()
    try:
        top.submodules.dut = axi.AXI2AXILite(m, s)
    except AssertionError as e:
        return bad("rejected", "AXI2AXILite rejects %d bit, id width %d: %r" % (dw, case["idw"], e), key="c09:axi2axilite:rejected", cycles=0)
    init = _init(case["seed"], W)
    model = bytearray(init)
    smem = wb.ByteMem(W, init)
    sram = case.get("partner") == "sram"
    if sram:
        # the memory cannot be inspected after the run: every written burst is read back at the end
        case = dict(case, ops=case["ops"] + [dict({k: v for k, v in o.items() if k != "strb"}, we=0) for o in case["ops"] if o["we"]])
    ops = expand_ops(case, nb)
    err_lo = base + W // 2 if case["err"] else None
    errf = (lambda a: err_lo is not None and a >= err_lo)
    T = sum(o["len"] + 1 for o in ops)
    until = 80 + 8 * T
    master = axi4.AXI4Master(m, ops, case["ms"], K=case["K"], w_after_aw=case["w_after_aw"], garbage_seed=case["gm"], until=until)
    if sram:
        top.submodules.sram = axi.AXILiteSRAM(W, init=_words(init, nb), bus=s)
        mons = [axi4.HoldMon(s.aw, ["addr"], "AW (towards AXILiteSRAM)"), axi4.HoldMon(s.w, ["data", "strb"], "W (towards AXILiteSRAM)"),
                axi4.HoldMon(s.ar, ["addr"], "AR (towards AXILiteSRAM)")]
        cyc = bench.run(top, [master] + mons, until + 12 * T + 300, stop=lambda t: master.finished())
        ctx = "AXI2AXILite %d bit base=%#x K=%d -> AXILiteSRAM w_after_aw=%r" % (dw, base, case["K"], case["w_after_aw"])
        cls = ["dw:%d" % dw, "K=%d" % case["K"], "partner:AXILiteSRAM"]
        kp = "c09:axi2axilite"
        hv = [x for mo in mons for x in mo.violations]
        if hv:
            c_, txt = min(hv)
            return bad("slave-side-hold", "%s: cycle %d: %s" % (ctx, c_, txt), key=kp + ":hold-slave", cls=cls, cycles=cyc)
        v = axi_master_checks(ctx, kp, ops, master, cls, cyc)
        if v is not None:
            return v
        v, info = axi_scoreboard(ctx, kp, ops, master, model, base, nb, errf, cls, cyc)
        if v is not None:
            return v
        if master.mon_r.stalled:
            cls.append("R-stalled-by-master")
        if info["raw"]:
            cls.append("raw")
        return ok(nt=bool(info["raw"]), cls=cls, counts=info["counts"], cycles=cyc)
    slave = AXILSlave1(s, smem, case["ss"], Q=case["Q"], Qr=case["Qr"], w_needs_aw=case["w_needs_aw"], wait_valid=case["wait_valid"], err=errf,
                       base=base, garbage_seed=case["gs"], until=until)
    cyc = bench.run(top, [master, slave], until + 12 * T + 300, stop=lambda t: master.finished() and t > 0 and slave._awq() == 0)
    ctx = "AXI2AXILite %d bit base=%#x K=%d Q=%d Qr=%d w_after_aw=%r wait_valid=%r w_needs_aw=%r" % (
        dw, base, case["K"], case["Q"], case["Qr"], case["w_after_aw"], case["wait_valid"], case["w_needs_aw"])
    cls = ["dw:%d" % dw, "K=%d" % case["K"], "Qw=%d" % case["Q"], "partner:agent"]
    healthy = case["Qr"] == 1 and case["w_needs_aw"]
    if healthy and not case["err"]:
        cls.append("envelope:single-outstanding-partner,no-error-range")
    kp = "c09:axi2axilite"
    # root-cause keys of the three architectural findings (only reachable outside the generated envelope)
    k_w = kp + ":w-before-aw" if not case["w_needs_aw"] else None
    k_q = kp + ":queued-ar-r-last" if case["Qr"] > 1 else None
    k_e = kp + ":resp-hardwired-okay" if case["err"] else None
    state = "(slave saw %d AW, %d W, %d AR; sent %d B, %d R)" % (len(slave.aw.got), len(slave.w.got), len(slave.ar.got),
                                                                len(slave.b.sent), len(slave.r.sent))
    hv = slave.hold_violations()
    if hv:
        c_, txt = min(hv)
        return bad("slave-side-hold", "%s: towards the AXI-Lite slave, cycle %d: %s" % (ctx, c_, txt), key=k_w or kp + ":hold-slave", cls=cls, cycles=cyc)
    v = axi_master_checks(ctx, kp, ops, master, cls, cyc, state)
    if v is not None:
        if v["clause"] in ("r-last", "master-side-hold") and k_q:
            v["key"] = k_q
        elif v["clause"] == "termination" and (k_w or k_q):
            v["key"] = k_w or k_q
        return v
    # ---- slave side: exactly the beats of the bursts, in order, nothing else
    ws, rs = expected_beats(ops, nb)
    if len(slave.aw.got) != len(ws) or len(slave.w.got) != len(ws) or len(slave.ar.got) != len(rs):
        return bad("request-count", "%s: %d write beats / %d read beats expected %s" % (ctx, len(ws), len(rs), state),
                   key=k_w or kp + ":request-count", cls=cls, cycles=cyc)
    for k, ((p, wa, strb, data), (c_, addr, d, s_)) in enumerate(zip(ws, slave.writes)):
        if (addr // nb) * nb != wa or s_ != strb or (d & _lanes(strb, nb)) != (data & _lanes(strb, nb)):
            return bad("slave-side-write", "%s: %s: write beat #%d reached the slave as addr=%#x strb=%#x data=%#x, expected word %#x strb=%#x data=%#x" %
                       (ctx, opdesc(ops, p), k, addr, s_, d, wa, strb, data), key=kp + ":slave-write", cls=cls, cycles=cyc)
    for k, ((p, ra), (c_, addr)) in enumerate(zip(rs, slave.reads)):
        if (addr // nb) * nb != ra:
            return bad("slave-side-read", "%s: %s: read beat #%d reached the slave with addr=%#x, expected word %#x" %
                       (ctx, opdesc(ops, p), k, addr, ra), key=kp + ":slave-read", cls=cls, cycles=cyc)
    if len(slave.b.sent) != len(ws):
        return bad("slave-side-b", "%s: %d write beats, the bridge took %d B responses %s" % (ctx, len(ws), len(slave.b.sent), state),
                   key=kp + ":slave-b", cls=cls, cycles=cyc)
    v, info = axi_scoreboard(ctx, kp, ops, master, model, base, nb, errf, cls, cyc)
    if v is not None:
        if v["clause"] in ("b-resp", "r-resp") and k_e:
            v["key"] = k_e
        return v
    lo_ok = W // 2 if case["err"] else W
    if bytes(smem.b[:lo_ok]) != bytes(model[:lo_ok]):
        k = next(i for i in range(lo_ok) if smem.b[i] != model[i])
        return bad("slave-memory", "%s: byte %#x of the slave memory is %#04x, model %#04x" % (ctx, base + k, smem.b[k], model[k]),
                   key=kp + ":data", cls=cls, cycles=cyc)
    backp = master.mon_r.stalled + master.mon_b.stalled + slave.aw.stalled + slave.w.stalled + slave.ar.stalled
    if master.mon_r.stalled:
        cls.append("R-stalled-by-master")
    if slave.w.stalled:
        cls.append("W-stalled-by-slave")
    if slave.aw.stalled:
        cls.append("AW-stalled-by-slave")
    if info["raw"]:
        cls.append("raw")
    if any(o["we"] for o in ops) and any(not o["we"] for o in ops):
        cls.append("reads+writes")
    return ok(nt=bool(info["raw"] and backp), cls=cls, counts=info["counts"], cycles=cyc)


# ===================================================================================== AXILite2AXI

L2A_WINDOW = 128


def st_lite_ops(draw, nb, window, base, nmax, err=False):
    """AXI-Lite operations (word aligned); reads often go back to a word written earlier"""
    ops = []
    half = window // 2
    for _ in range(draw(st.integers(3, nmax))):
        we = draw(st.integers(0, 1))
        prev = [o for o in ops if o["we"]]
        if not we and prev and draw(st.integers(0, 1)):
            addr = prev[draw(st.integers(0, len(prev) - 1))]["addr"]
        else:
            if err:
                addr = base + (half if draw(st.integers(0, 3)) == 0 else 0) + draw(st.integers(0, half // nb - 1)) * nb
            else:
                addr = base + draw(st.integers(0, window // nb - 1)) * nb
        strb = _m(nb)
        if we:
            strb = draw(st.one_of(st.just(_m(nb)), st.integers(0, _m(nb)), st.sampled_from([1 << i for i in range(nb)] + [_m(nb) & ~1, 0])))
        ops.append({"we": we, "addr": addr, "data": draw(st.integers(0, _m(8 * nb))), "strb": strb, "prot": draw(st.integers(0, 7))})
    return ops


def st_axilite2axi(tier):
    @st.composite
    def case(draw):
        dw = draw(st.sampled_from([32, 32, 64, 64, 8, 16, 128]))
        idw = draw(st.sampled_from([1, 4, 8]))
        c = {"dw": dw, "idw": idw, "base": draw(st.sampled_from(BASES)),
             "write_id": draw(st.integers(0, _m(idw))), "read_id": draw(st.integers(0, _m(idw))), "prot": draw(st.integers(0, 7)),
             # burst_type="WRAP" is accepted by the constructor but a wrapping burst of one transfer is not legal AXI4
             # (finding c09:axilite2axi:wrap-single-beat, witness replayed): not generated
             "burst_type": draw(st.sampled_from(["INCR", "INCR", "FIXED", None])),
             "K": draw(st.sampled_from([1, 2, 4])), "Q": draw(st.sampled_from([1, 2, 4])),
             "w_after_aw": draw(st.booleans()), "wait_valid": draw(st.booleans()), "w_needs_aw": draw(st.booleans()),
             "gm": draw(st.one_of(st.none(), st.integers(0, 999))), "gs": draw(st.one_of(st.none(), st.integers(0, 999))),
             "seed": draw(st.integers(0, 2 ** 16)), "err": draw(st.integers(0, 2)) == 0,
             "ms": _scheds(draw), "ss": _scheds(draw)}
        c["ops"] = st_lite_ops(draw, dw // 8, L2A_WINDOW, c["base"], 10 if tier == "quick" else 24, err=c["err"])
        return c
    return case()


def lite_scoreboard(ctx, kp, ops, results, model, base, nb, errf, cls, cyc):
    """word-granular flat-memory scoreboard for an AXI-Lite / Wishbone master: results[i] = (data, resp)"""
    raw = partial = False
    written = set()
    nerr = 0
    for i, o in enumerate(ops):
        off = o["addr"] - base
        data, resp = results[i]
        if errf(o["addr"]):
            nerr += 1
            if o["we"] and o["strb"] == 0:
                continue         # nothing is written: either response is acceptable
            if resp == 0:
                return bad("error-lost", "%s: access %d (%s %#x) to an address the slave answers with SLVERR was reported OKAY" %
                           (ctx, i, "write" if o["we"] else "read", o["addr"]), key=kp + ":resp", cls=cls, cycles=cyc), None
            continue
        if resp != 0:
            return bad("spurious-error", "%s: access %d %r answered with resp %d" % (ctx, i, o, resp), key=kp + ":resp", cls=cls, cycles=cyc), None
        if o["we"]:
            for k in range(nb):
                if (o["strb"] >> k) & 1:
                    model[off + k] = (o["data"] >> (8 * k)) & 0xff
            written.add(off)
            if o["strb"] not in (0, _m(nb)):
                partial = True
        else:
            exp = sum(model[off + k] << (8 * k) for k in range(nb))
            lanes = _lanes(o.get("rsel", _m(nb)), nb)
            if (data & lanes) != (exp & lanes):
                return bad("read-data", "%s: read #%d of %#x returned %#x, flat memory holds %#x (lanes %#x)" % (ctx, i, o["addr"], data, exp, lanes),
                           key=kp + ":data", cls=cls, cycles=cyc), None
            if off in written:
                raw = True
    return None, {"raw": raw, "partial": partial, "nerr": nerr}


def run_axilite2axi(case):
    from migen import Module
    from litex.soc.interconnect import axi
    dw = case["dw"]
    nb = dw // 8
    base = case["base"]
    W = L2A_WINDOW
    m = axi.AXILiteInterface(data_width=dw, address_width=32)
    s = axi.AXIInterface(data_width=dw, address_width=32, id_width=case["idw"])
    top = Module()
    kw = {"write_id": case["write_id"], "read_id": case["read_id"], "prot": case["prot"]}
    if case["burst_type"] is not None:
        kw["burst_type"] = case["burst_type"]
    try:
        top.submodules.dut = axi.AXILite2AXI(m, s, **kw)
    except (AssertionError, KeyError) as e:
        return bad("rejected", "AXILite2AXI rejects %d bit %r: %r" % (dw, kw, e), key="c09:axilite2axi:rejected", cycles=0)
    init = _init(case["seed"], W)
    model = bytearray(init)
    smem = bytearray(init)
    ops = case["ops"]
    err_lo = base + W // 2 if case["err"] else None
    errf = (lambda a: err_lo is not None and a >= err_lo)
    until = 60 + 10 * len(ops)
    master = axil.AXILMaster(m, ops, case["ms"], K=case["K"], w_after_aw=case["w_after_aw"], garbage_seed=case["gm"], until=until)
    gs = case["gs"]
    slave = axi4.AXI4MemSlave(s, smem, case["ss"], Q=case["Q"], wait_valid=case["wait_valid"], err=errf, base=base,
                              garbage_b=None if gs is None else gs + 11, garbage_r=None if gs is None else gs + 12,
                              until=until, w_needs_aw=case["w_needs_aw"], pad_seed=case["seed"] + 7)
    cyc = bench.run(top, [master, slave], until + 12 * len(ops) + 200, stop=lambda t: master.finished())
    ctx = "AXILite2AXI %d bit base=%#x burst_type=%s K=%d Q=%d w_after_aw=%r wait_valid=%r w_needs_aw=%r" % (
        dw, base, case["burst_type"], case["K"], case["Q"], case["w_after_aw"], case["wait_valid"], case["w_needs_aw"])
    cls = ["dw:%d" % dw, "K=%d" % case["K"], "Q=%d" % case["Q"], "burst_type:%s" % case["burst_type"]]
    kp = "c09:axilite2axi"
    hv = slave.hold_violations()
    if hv:
        c_, txt = min(hv)
        return bad("slave-side-hold", "%s: cycle %d: %s" % (ctx, c_, txt), key=kp + ":hold-slave", cls=cls, cycles=cyc)
    hv = master.hold_violations()
    if hv:
        c_, txt = min(hv)
        return bad("master-side-hold", "%s: B/R towards the master, cycle %d: %s" % (ctx, c_, txt), key=kp + ":hold-master", cls=cls, cycles=cyc)
    if slave.audit:
        return bad("slave-side-burst", "%s: %s" % (ctx, slave.audit[0]),
                   key=kp + (":wrap-single-beat" if case["burst_type"] == "WRAP" else ":burst"), cls=cls, cycles=cyc)
    if master.extra_responses:
        ch, c_, tok = master.extra_responses[0]
        return bad("extra-response", "%s: a %s response in cycle %d that no request is waiting for" % (ctx, ch.upper(), c_),
                   key=kp + ":extra-response", cls=cls, cycles=cyc)
    if not master.finished():
        p = next(i for i, d in enumerate(master.done) if not d)
        return bad("termination", "%s: operation %d %r never completed (%d cycles; %s)" % (ctx, p, ops[p], cyc, slave.state()),
                   key=kp + ":hang", cls=cls, cycles=cyc)
    # ---- what the slave saw: one single-beat, full-width burst per AXI-Lite request, parameters as configured
    nw = sum(1 for o in ops if o["we"])
    nr = len(ops) - nw
    if len(slave.writes) != nw or len(slave.reads) != nr or len(slave.aw.got) != nw or len(slave.w.got) != nw:
        return bad("request-count", "%s: %d writes / %d reads issued; %s" % (ctx, nw, nr, slave.state()), key=kp + ":request-count", cls=cls, cycles=cyc)
    bt = {"FIXED": 0, "INCR": 1, "WRAP": 2, None: 1}[case["burst_type"]]
    wops = [o for o in ops if o["we"]]
    rops = [o for o in ops if not o["we"]]
    for kind, recs, mops, xid in (("AW", [w["aw"] for w in slave.writes], wops, case["write_id"]), ("AR", [r["ar"] for r in slave.reads], rops, case["read_id"])):
        for k, (ax, o) in enumerate(zip(recs, mops)):
            want = {"addr": o["addr"], "len": 0, "size": _log2(nb), "burst": bt, "id": xid, "prot": case["prot"], "lock": 0, "qos": 0, "cache": 3}
            diff = {f: (ax[f], v) for f, v in want.items() if ax[f] != v}
            if diff:
                return bad("slave-side-request", "%s: %s #%d differs from what the bridge documents (field: (seen, expected)): %r" % (ctx, kind, k, diff),
                           key=kp + ":request-fields", cls=cls, cycles=cyc)
    for k, (wr, o) in enumerate(zip(slave.writes, wops)):
        exp = [(o["addr"] + i, (o["data"] >> (8 * i)) & 0xff) for i in range(nb) if (o["strb"] >> i) & 1]
        if wr["bytes"] != exp:
            return bad("slave-side-write", "%s: write #%d (%#x strb %#x): byte writes at the slave %r, expected %r" % (ctx, k, o["addr"], o["strb"], wr["bytes"][:6], exp[:6]),
                       key=kp + ":slave-write", cls=cls, cycles=cyc)
    results = [(master.result[i][1], master.result[i][2]) for i in range(len(ops))]
    v, info = lite_scoreboard(ctx, kp, ops, results, model, base, nb, errf, cls, cyc)
    if v is not None:
        return v
    lo_ok = W // 2 if case["err"] else W
    if bytes(smem[:lo_ok]) != bytes(model[:lo_ok]):
        k = next(i for i in range(lo_ok) if smem[i] != model[i])
        return bad("slave-memory", "%s: byte %#x of the slave memory is %#04x, model %#04x" % (ctx, base + k, smem[k], model[k]), key=kp + ":data", cls=cls, cycles=cyc)
    if info["nerr"]:
        cls.append("error-range-access")
    if info["raw"]:
        cls.append("raw")
    if info["partial"]:
        cls.append("partial-strobe")
    backp = slave.mon_aw.stalled + slave.mon_w.stalled + slave.mon_ar.stalled + master.b.stalled + master.r.stalled
    return ok(nt=bool((info["raw"] or info["partial"]) and backp), cls=cls, cycles=cyc)


# ===================================================================================== AXI2Wishbone / Wishbone2AXI

AW_WINDOW = 256


def st_axi_wishbone(tier):
    @st.composite
    def case(draw):
        dut = draw(st.sampled_from(["axi2wb", "axi2wb", "wb2axi"]))
        dw = draw(st.sampled_from([32, 32, 64]))
        nb = dw // 8
        c = {"dut": dut, "dw": dw, "base": draw(st.sampled_from(BASES)), "wb_addressing": draw(st.sampled_from(["word", "word", "byte"])),
             "seed": draw(st.integers(0, 2 ** 16))}
        if dut == "axi2wb":
            idw = draw(st.sampled_from([1, 4, 8]))
            c.update({"idw": idw, "K": draw(st.sampled_from([1, 1, 2, 4])), "w_after_aw": draw(st.booleans()),
                      "gm": draw(st.one_of(st.none(), st.integers(0, 999))), "ms": _scheds(draw),
                      "go": draw(st.one_of(st.just(ONE), bench.st_schedule())), "lat1": draw(st.booleans())})
            c["ops"] = st_axi_ops(draw, nb, AW_WINDOW, c["base"], 10 if tier == "quick" else 32, idw, 5 if tier == "quick" else 10)
        else:
            c.update({"Q": draw(st.sampled_from([1, 2, 4])), "wait_valid": draw(st.booleans()), "w_needs_aw": draw(st.booleans()),
                      "gs": draw(st.one_of(st.none(), st.integers(0, 999))), "ss": _scheds(draw), "err": draw(st.integers(0, 2)) == 0})
            ops = st_lite_ops(draw, nb, AW_WINDOW, c["base"], 10 if tier == "quick" else 24, err=c["err"])
            for o in ops:
                o.pop("prot")
                o["gap"] = draw(st.sampled_from([0, 0, 0, 1, 2, 5]))
                o["hold"] = draw(st.booleans())
                if not o["we"]:
                    o["strb"] = draw(st.sampled_from([_m(nb), _m(nb), 1, _m(nb) & ~1, 0]))      # sel of a read: lanes compared
            c["ops"] = ops
        return c
    return case()


def _wb_iface(dw, addressing):
    from litex.soc.interconnect import wishbone
    return wishbone.Interface(data_width=dw, adr_width=32 - _log2(dw // 8), addressing=addressing)


def run_axi_wishbone(case):
    from migen import Module
    from litex.soc.interconnect import axi
    dut = case["dut"]
    dw = case["dw"]
    nb = dw // 8
    base = case["base"]
    W = AW_WINDOW
    shift = _log2(nb)
    unit_shift = shift if case["wb_addressing"] == "word" else 0      # wishbone adr = byte address >> unit_shift
    top = Module()
    init = _init(case["seed"], W)
    model = bytearray(init)
    wbi = _wb_iface(dw, case["wb_addressing"])
    cls = ["dut:" + dut, "dw:%d" % dw, "wb:" + case["wb_addressing"], "base:%#x" % base]
    if dut == "axi2wb":
        kp = "c09:axi2wishbone"
        m = axi.AXIInterface(data_width=dw, address_width=32, id_width=case["idw"])
        try:
            top.submodules.dut = axi.AXI2Wishbone(m, wbi, base_address=base)
        except AssertionError as e:
            return bad("rejected", "AXI2Wishbone rejects %d bit, %s addressing: %r" % (dw, case["wb_addressing"], e), key=kp + ":rejected", cls=cls, cycles=0)
        sm = wb_mem_slave(top, wbi, W, init, min_latency1=case["lat1"])
        go = bench.Schedule(case["go"] if bench.sched_has_one(case["go"]) else ONE)
        ops = expand_ops(case, nb)
        T = sum(o["len"] + 1 for o in ops)
        until = 80 + 8 * T
        master = axi4.AXI4Master(m, ops, case["ms"], K=case["K"], w_after_aw=case["w_after_aw"], garbage_seed=case["gm"], until=until)
        mon = wb.WBMonitor(wbi, "AXI2Wishbone->wishbone")
        cyc = bench.run(top, [master, bench.Driver(lambda t: {sm.go: 1 if t >= until else go.bit(t)}), mon], until + 14 * T + 300,
                        stop=lambda t: master.finished())
        ctx = "AXI2Wishbone %d bit base=%#x wishbone %s addressing K=%d w_after_aw=%r" % (dw, base, case["wb_addressing"], case["K"], case["w_after_aw"])
        cls.append("K=%d" % case["K"])
        if mon.violations:
            c_, txt = mon.violations[0]
            return bad("slave-side-wishbone", "%s: cycle %d: %s" % (ctx, c_, txt), key=kp + ":wb-stability", cls=cls, cycles=cyc)
        v = axi_master_checks(ctx, kp, ops, master, cls, cyc, "(%d wishbone accesses acknowledged)" % len(mon.requests))
        if v is not None:
            return v
        if mon.acks_outside:
            return bad("harness", "ack outside cyc&stb from the harness slave", key=None, cls=cls, cycles=cyc)
        # ---- wishbone side: one classic access per beat, in order per direction, nothing else
        ws, rs = expected_beats(ops, nb)
        gw = [r for r in mon.requests if r[1]]
        gr = [r for r in mon.requests if not r[1]]
        if len(gw) != len(ws) or len(gr) != len(rs):
            return bad("request-count", "%s: %d write / %d read accesses on wishbone, the bursts have %d / %d beats" % (ctx, len(gw), len(gr), len(ws), len(rs)),
                       key=kp + ":request-count", cls=cls, cycles=cyc)
        full = _m(nb)
        for k, ((p, wa, strb, data), (c_, we, adr, sel, dat_w, cti, bte)) in enumerate(zip(ws, gw)):
            ea = ((wa - base) & 0xffffffff) >> shift
            if (adr >> (shift - unit_shift)) != ea or sel != strb or (dat_w & _lanes(strb, nb)) != (data & _lanes(strb, nb)) or cti != 0:
                return bad("slave-side-write", "%s: %s: write beat #%d on wishbone: adr=%#x sel=%#x dat_w=%#x cti=%d, expected word %#x sel=%#x data=%#x" %
                           (ctx, opdesc(ops, p), k, adr, sel, dat_w, cti, ea, strb, data), key=kp + ":slave-write", cls=cls, cycles=cyc)
        for k, ((p, ra), (c_, we, adr, sel, dat_w, cti, bte)) in enumerate(zip(rs, gr)):
            ea = ((ra - base) & 0xffffffff) >> shift
            if (adr >> (shift - unit_shift)) != ea or sel != full or cti != 0:
                return bad("slave-side-read", "%s: %s: read beat #%d on wishbone: adr=%#x sel=%#x cti=%d, expected word %#x sel=%#x" %
                           (ctx, opdesc(ops, p), k, adr, sel, cti, ea, full), key=kp + ":slave-read", cls=cls, cycles=cyc)
        v, info = axi_scoreboard(ctx, kp, ops, master, model, base, nb, lambda a: False, cls, cyc)
        if v is not None:
            return v
        # the harness memory is written exactly by the acknowledged requests: shadow it and compare
        shadow = bytearray(init)
        for (c_, we, adr, sel, dat_w, cti, bte) in gw:
            o = ((adr >> (shift - unit_shift)) * nb) % W
            for k in range(nb):
                if (sel >> k) & 1:
                    shadow[o + k] = (dat_w >> (8 * k)) & 0xff
        if shadow != model:
            k = next(i for i in range(W) if shadow[i] != model[i])
            return bad("slave-memory", "%s: byte %#x of the wishbone memory is %#04x, model %#04x" % (ctx, k, shadow[k], model[k]), key=kp + ":data", cls=cls, cycles=cyc)
        if info["raw"]:
            cls.append("raw")
        if any(o["we"] for o in ops) and any(not o["we"] for o in ops):
            cls.append("reads+writes")
        slow = bench.sched_has_zero(case["go"]) or case["lat1"]
        if slow:
            cls.append("wishbone-latency")
        return ok(nt=bool(info["raw"] and (slow or master.mon_r.stalled or master.mon_b.stalled)), cls=cls, counts=info["counts"], cycles=cyc)

    # ---- Wishbone2AXI
    kp = "c09:wishbone2axi"
    s = axi.AXIInterface(data_width=dw, address_width=32)
    try:
        top.submodules.dut = axi.Wishbone2AXI(wbi, s, base_address=base)
    except AssertionError as e:
        return bad("rejected", "Wishbone2AXI rejects %d bit, %s addressing: %r" % (dw, case["wb_addressing"], e), key=kp + ":rejected", cls=cls, cycles=0)
    ops = case["ops"]
    smem = bytearray(init)
    err_lo = W // 2 if case["err"] else None
    errf_s = (lambda a: err_lo is not None and err_lo <= a < W)          # AXI address = wishbone byte address - base
    errf = (lambda a: errf_s(a - base))
    mops = [{"we": o["we"], "adr": (o["addr"] >> unit_shift), "dat": o["data"], "sel": o["strb"], "gap": o["gap"], "hold": o["hold"]} for o in ops]
    master = wb.WBMaster(wbi, mops)
    until = 60 + 12 * len(ops)
    gs = case["gs"]
    slave = axi4.AXI4MemSlave(s, smem, case["ss"], Q=case["Q"], wait_valid=case["wait_valid"], err=errf_s, base=0,
                              garbage_b=None if gs is None else gs + 11, garbage_r=None if gs is None else gs + 12,
                              until=until, w_needs_aw=case["w_needs_aw"], pad_seed=case["seed"] + 7)
    cyc = bench.run(top, [master, slave], until + 14 * len(ops) + 200, stop=lambda t: master.finished())
    ctx = "Wishbone2AXI %d bit base=%#x wishbone %s addressing Q=%d wait_valid=%r w_needs_aw=%r" % (dw, base, case["wb_addressing"], case["Q"],
                                                                                                    case["wait_valid"], case["w_needs_aw"])
    hv = slave.hold_violations()
    if hv:
        c_, txt = min(hv)
        return bad("slave-side-hold", "%s: cycle %d: %s" % (ctx, c_, txt), key=kp + ":hold-slave", cls=cls, cycles=cyc)
    if slave.audit:
        return bad("slave-side-burst", "%s: %s" % (ctx, slave.audit[0]), key=kp + ":burst", cls=cls, cycles=cyc)
    if master.acks_outside:
        return bad("ack-once", "%s: %d ack cycles while the master has no request pending" % (ctx, master.acks_outside), key=kp + ":ack-once", cls=cls, cycles=cyc)
    if not master.finished():
        return bad("termination", "%s: operation %d %r never acknowledged (%d cycles; %s)" % (ctx, master.i, ops[master.i], cyc, slave.state()),
                   key=kp + ":hang", cls=cls, cycles=cyc)
    nw = sum(1 for o in ops if o["we"])
    nr = len(ops) - nw
    if len(slave.writes) != nw or len(slave.reads) != nr or len(slave.aw.got) != nw or len(slave.w.got) != nw or len(slave.b.sent) != nw \
            or len(slave.r.sent) != nr:
        return bad("request-count", "%s: %d writes / %d reads issued; %s" % (ctx, nw, nr, slave.state()), key=kp + ":request-count", cls=cls, cycles=cyc)
    wops = [o for o in ops if o["we"]]
    rops = [o for o in ops if not o["we"]]
    for kind, recs, mo in (("AW", [w["aw"] for w in slave.writes], wops), ("AR", [r["ar"] for r in slave.reads], rops)):
        for k, (ax, o) in enumerate(zip(recs, mo)):
            want = {"addr": (o["addr"] - base) & 0xffffffff, "len": 0, "size": shift, "burst": INCR, "id": 0, "lock": 0}
            diff = {f: (ax[f], v) for f, v in want.items() if ax[f] != v}
            if diff:
                return bad("slave-side-request", "%s: %s #%d (wishbone adr %#x) differs (field: (seen, expected)): %r" % (ctx, kind, k, o["addr"] >> unit_shift, diff),
                           key=kp + ":request-fields", cls=cls, cycles=cyc)
    for k, (wr, o) in enumerate(zip(slave.writes, wops)):
        a0 = (o["addr"] - base) & 0xffffffff
        exp = [(a0 + i, (o["data"] >> (8 * i)) & 0xff) for i in range(nb) if (o["strb"] >> i) & 1]
        if wr["bytes"] != exp:
            return bad("slave-side-write", "%s: write #%d (sel %#x): byte writes at the slave %r, expected %r" % (ctx, k, o["strb"], wr["bytes"][:6], exp[:6]),
                       key=kp + ":slave-write", cls=cls, cycles=cyc)
    res = {i: (dat_r, 2 if err else 0) for (i, start, ackc, dat_r, err) in master.results}
    sops = [dict(o, rsel=o["strb"]) if not o["we"] else o for o in ops]
    v, info = lite_scoreboard(ctx, kp, sops, [res[i] for i in range(len(ops))], model, base, nb, errf, cls, cyc)
    if v is not None:
        return v
    lo_ok = W // 2 if case["err"] else W
    if bytes(smem[:lo_ok]) != bytes(model[:lo_ok]):
        k = next(i for i in range(lo_ok) if smem[i] != model[i])
        return bad("slave-memory", "%s: byte %#x of the slave memory is %#04x, model %#04x" % (ctx, k, smem[k], model[k]), key=kp + ":data", cls=cls, cycles=cyc)
    for lab in ("raw", "partial"):
        if info[lab]:
            cls.append(lab)
    if info["nerr"]:
        cls.append("error-range-access")
    backp = slave.mon_aw.stalled + slave.mon_w.stalled + slave.mon_ar.stalled
    return ok(nt=bool((info["raw"] or info["partial"]) and backp), cls=cls, cycles=cyc)


# ===================================================================================== AHB2Wishbone

IDLE_T, BUSY_T, NONSEQ_T, SEQ_T = 0, 1, 2, 3


class AHBMaster:
    """AHB-Lite master (single transfers).  ops: {"kind": "rw" | "other", "we", "addr", "size", "data"}; "other" = a NONSEQ
    transfer to another slave (HSEL=0), answered there without wait states.  `sched` says in which cycles a new address
    phase may start (otherwise IDLE is driven, with zeros or garbage on the control signals); once NONSEQ is driven it is
    held until HREADY.  HWDATA is driven from the first cycle of the data phase and held until HREADY.  HREADY of the
    master = readyout of the bridge.  Pipelining: the next address phase overlaps the current data phase."""

    def __init__(self, bus, ops, sched, garbage_seed=None, until=None):
        self.bus = bus
        self.ops = ops
        self.sched = bench.Schedule(sched)
        self.until = until
        self.rng = random.Random(garbage_seed) if garbage_seed is not None else None
        self.nb = len(bus.wdata) // 8
        self.w = bench.Writer()
        self.i = 0                    # next op to present
        self.ap = None                # index of the op whose address phase is being driven
        self.dp = None                # index of the op whose data phase is running
        self.res = [None] * len(ops)  # {"ap": cycle accepted, "end": cycle, "rdata", "resp_cycles": [...], "waits": n}
        self.resp_outside = []        # cycles with HRESP high and no data phase running
        self.overlap = 0              # address phases first presented while a data phase was being extended by wait states
        self.back2back = 0            # address phases presented in the first cycle of the previous transfer's data phase
        self.sigs = [bus.readyout, bus.resp, bus.rdata]

    def signals(self):
        return self.sigs

    def finished(self):
        return self.i >= len(self.ops) and self.ap is None and self.dp is None

    def step(self, t, v):
        hready, resp, rdata = v
        c = t - 1
        b = self.bus
        out = []
        if resp:
            if self.dp is None:
                self.resp_outside.append(c)
            else:
                self.res[self.dp]["resp_cycles"].append((c, hready))
        if self.dp is not None and not hready:
            self.res[self.dp]["waits"] += 1
        if hready:
            if self.dp is not None:
                r = self.res[self.dp]
                r["end"] = c
                r["rdata"] = rdata
                self.dp = None
            if self.ap is not None:
                self.dp = self.ap
                self.res[self.dp] = {"ap": c, "end": None, "rdata": None, "resp_cycles": [], "waits": 0}
                self.ap = None
        # ---- drive cycle t
        w = self.w
        if self.dp is not None and self.ops[self.dp]["we"]:
            w.set(out, b.wdata, self.ops[self.dp]["data"])
        elif self.rng is not None:
            w.set(out, b.wdata, self.rng.getrandbits(8 * self.nb))
        if self.ap is None and self.i < len(self.ops) and ((self.until is not None and t >= self.until) or self.sched.bit(t)):
            self.ap = self.i
            self.i += 1
            if self.dp is not None:
                if hready:
                    self.back2back += 1
                else:
                    self.overlap += 1
            o = self.ops[self.ap]
            w.set(out, b.trans, NONSEQ_T)
            w.set(out, b.sel, 1 if o["kind"] == "rw" else 0)
            w.set(out, b.addr, o["addr"])
            w.set(out, b.size, o["size"])
            w.set(out, b.write, o["we"])
        elif self.ap is None:
            w.set(out, b.trans, IDLE_T)
            if self.rng is not None:
                w.set(out, b.sel, self.rng.getrandbits(1))
                w.set(out, b.addr, self.rng.getrandbits(32))
                w.set(out, b.size, self.rng.getrandbits(3))
                w.set(out, b.write, self.rng.getrandbits(1))
            else:
                w.set(out, b.sel, 0)
        return out


AHB_WINDOW = 128


def st_ahb(tier):
    @st.composite
    def case(draw):
        dw = draw(st.sampled_from([32, 32, 64]))
        nb = dw // 8
        full = _log2(nb)
        c = {"dw": dw, "wb_addressing": draw(st.sampled_from(["word", "word", "byte"])), "hi": draw(st.sampled_from([0, 0, 0x1000, 0x40000000, 0xfffff000])),
             "seed": draw(st.integers(0, 2 ** 16)), "gm": draw(st.one_of(st.none(), st.integers(0, 999))),
             "ps": draw(st.one_of(st.just(ONE), st.just(ONE), bench.st_schedule())),
             "go": draw(st.one_of(st.just(ONE), bench.st_schedule())), "lat1": draw(st.booleans()), "err": draw(st.integers(0, 2)) == 0}
        ops = []
        half = AHB_WINDOW // 2
        for _ in range(draw(st.integers(3, 14 if tier == "quick" else 40))):
            kind = "rw" if draw(st.integers(0, 5)) else "other"
            size = draw(st.sampled_from([full, full] + list(range(full + 1))))
            n = 1 << size
            we = draw(st.integers(0, 1))
            prev = [o for o in ops if o["we"] and o["kind"] == "rw"]
            if kind == "rw" and not we and prev and draw(st.integers(0, 1)):
                # read back (part of) a word written earlier
                addr = ((prev[draw(st.integers(0, len(prev) - 1))]["addr"] - c["hi"]) // nb) * nb + draw(st.integers(0, nb // n - 1)) * n
            else:
                if c["err"]:
                    addr = (half if draw(st.integers(0, 3)) == 0 else 0) + draw(st.integers(0, half // n - 1)) * n
                else:
                    addr = draw(st.integers(0, AHB_WINDOW // n - 1)) * n
            ops.append({"kind": kind, "we": we, "addr": c["hi"] + addr, "size": size, "data": draw(st.integers(0, _m(dw)))})
        c["ops"] = ops
        return c
    return case()


def run_ahb(case):
    from migen import Module
    from litex.soc.interconnect import ahb
    dw = case["dw"]
    nb = dw // 8
    shift = _log2(nb)
    unit_shift = shift if case["wb_addressing"] == "word" else 0
    W = AHB_WINDOW
    hi = case["hi"]               # upper address bits: the harness memory decodes the low bits only, the request log is compared in full
    top = Module()
    bus = ahb.AHBInterface(data_width=dw, address_width=32)
    wbi = _wb_iface(dw, case["wb_addressing"])
    try:
        top.submodules.dut = ahb.AHB2Wishbone(bus, wbi)
    except AssertionError as e:
        return bad("rejected", "AHB2Wishbone rejects %d bit, wishbone %s addressing: %r" % (dw, case["wb_addressing"], e), key="c09:ahb2wishbone:rejected", cycles=0)
    init = _init(case["seed"], W)
    model = bytearray(init)
    err_lo = W // 2 if case["err"] else None
    sm = wb_mem_slave(top, wbi, W, init, err_lo=err_lo, min_latency1=case["lat1"])
    ops = case["ops"]
    go = bench.Schedule(case["go"] if bench.sched_has_one(case["go"]) else ONE)
    until = 60 + 10 * len(ops)
    master = AHBMaster(bus, ops, case["ps"] if bench.sched_has_one(case["ps"]) else ONE, garbage_seed=case["gm"], until=until)
    mon = wb.WBMonitor(wbi, "AHB2Wishbone->wishbone")
    cyc = bench.run(top, [master, bench.Driver(lambda t: {sm.go: 1 if t >= until else go.bit(t)}), mon], until + 8 * len(ops) + 100,
                    stop=lambda t: master.finished())
    ctx = "AHB2Wishbone %d bit wishbone %s addressing" % (dw, case["wb_addressing"])
    cls = ["dw:%d" % dw, "wb:" + case["wb_addressing"]]
    kp = "c09:ahb2wishbone"

    def od(i):
        o = ops[i]
        return "transfer %d (%s %s addr=%#x size=%d%s)" % (i, "HSEL=0" if o["kind"] == "other" else "NONSEQ", "write" if o["we"] else "read", o["addr"],
                                                         o["size"], " data=%#x" % o["data"] if o["we"] else "")

    if mon.violations:
        c_, txt = mon.violations[0]
        return bad("slave-side-wishbone", "%s: cycle %d: %s" % (ctx, c_, txt), key=kp + ":wb-stability", cls=cls, cycles=cyc)
    if not master.finished():
        i = master.dp if master.dp is not None else (master.ap if master.ap is not None else master.i)
        return bad("termination", "%s: %s never completed (%d cycles, %d wishbone accesses acknowledged)" % (ctx, od(i), cyc, len(mon.requests)),
                   key=kp + ":hang", cls=cls, cycles=cyc)
    if master.resp_outside:
        return bad("spurious-error", "%s: HRESP high in cycle %d while no transfer is in its data phase" % (ctx, master.resp_outside[0]),
                   key=kp + ":resp", cls=cls, cycles=cyc)
    # ---- wishbone side: exactly one access per selected NONSEQ transfer, in order, nothing for IDLE / HSEL=0
    real = [i for i, o in enumerate(ops) if o["kind"] == "rw"]
    if len(mon.requests) != len(real):
        return bad("request-count", "%s: %d wishbone accesses for %d selected NONSEQ transfers (of %d, rest HSEL=0)" % (ctx, len(mon.requests), len(real), len(ops)),
                   key=kp + ":request-count", cls=cls, cycles=cyc)
    counts = {}
    raw = False
    written = set()
    shadow = bytearray(init)
    nerr = 0
    for i, (c_, we, adr, sel, dat_w, cti, bte) in zip(real, mon.requests):
        o = ops[i]
        n = 1 << o["size"]
        lane0 = o["addr"] % nb
        esel = _m(n) << lane0
        eadr = o["addr"] >> unit_shift
        if we != o["we"] or adr != eadr or sel != esel or (we and (dat_w & _lanes(esel, nb)) != (o["data"] & _lanes(esel, nb))) or cti != 0:
            return bad("slave-side-request", "%s: %s reached wishbone as we=%d adr=%#x sel=%#x dat_w=%#x cti=%d, expected adr=%#x sel=%#x" %
                       (ctx, od(i), we, adr, sel, dat_w, cti, eadr, esel), key=kp + ":slave-request", cls=cls, cycles=cyc)
        r = master.res[i]
        if not (r["ap"] < c_ <= r["end"]):
            return bad("slave-side-order", "%s: %s: address phase accepted in cycle %d, data phase ended in cycle %d, wishbone ack in cycle %d" %
                       (ctx, od(i), r["ap"], r["end"], c_), key=kp + ":order", cls=cls, cycles=cyc)
        off = (o["addr"] - hi)
        in_err = err_lo is not None and off >= err_lo
        _count(counts, "size:%d" % n)
        _count(counts, "write" if we else "read")
        if r["waits"] == 1:
            _count(counts, "zero-latency-ack")
        if in_err:
            nerr += 1
            if not r["resp_cycles"]:
                return bad("error-lost", "%s: %s: wishbone answered err in cycle %d, HRESP was never high during its data phase (cycles %d..%d)" %
                           (ctx, od(i), c_, r["ap"] + 1, r["end"]), key=kp + ":resp", cls=cls, cycles=cyc)
            if case.get("strict_err") and not any(h for _, h in r["resp_cycles"]):
                # AHB-Lite two-cycle ERROR response (HRESP high with HREADY low, then high with HREADY high): not demanded of generated
                # cases (see ASSUMPTIONS), kept as a witness
                return bad("error-second-cycle", "%s: %s: HRESP high in cycle(s) %r with HREADY low, but low again in cycle %d when HREADY ends the "
                           "data phase (AHB-Lite: ERROR is a two-cycle response, HRESP stays high in the cycle with HREADY high)" %
                           (ctx, od(i), [c for c, _ in r["resp_cycles"]], r["end"]), key=kp + ":error-second-cycle", cls=cls, cycles=cyc)
            continue
        if r["resp_cycles"]:
            return bad("spurious-error", "%s: %s: HRESP high in cycle %d, wishbone did not signal err" % (ctx, od(i), r["resp_cycles"][0][0]),
                       key=kp + ":resp", cls=cls, cycles=cyc)
        word = (off // nb) * nb
        if we:
            for k in range(nb):
                if (esel >> k) & 1:
                    model[word + k] = (o["data"] >> (8 * k)) & 0xff
                if (sel >> k) & 1:
                    shadow[word + k] = (dat_w >> (8 * k)) & 0xff
            written.add(word)
        else:
            exp = sum(model[word + k] << (8 * k) for k in range(nb))
            lanes = _lanes(esel, nb)
            if (r["rdata"] & lanes) != (exp & lanes):
                return bad("read-data", "%s: %s: HRDATA=%#x when HREADY rose (cycle %d), flat memory holds %#x on lanes %#x" %
                           (ctx, od(i), r["rdata"], r["end"], exp & lanes, lanes), key=kp + ":data", cls=cls, cycles=cyc)
            if word in written:
                raw = True
    for i, o in enumerate(ops):
        if o["kind"] == "other":
            r = master.res[i]
            _count(counts, "HSEL=0-transfer")
            if r["waits"]:
                return bad("other-slave", "%s: %s was stalled by the bridge (%d wait states)" % (ctx, od(i), r["waits"]), key=kp + ":other-slave", cls=cls, cycles=cyc)
    if shadow != model:
        k = next(i for i in range(W) if shadow[i] != model[i])
        return bad("slave-memory", "%s: byte %#x of the wishbone memory is %#04x, model %#04x" % (ctx, k, shadow[k], model[k]), key=kp + ":data", cls=cls, cycles=cyc)
    if master.overlap:
        cls.append("address-phase-during-wait-states")
    if master.back2back:
        cls.append("back-to-back-transfers")
    if nerr:
        cls.append("error-range-access")
    if raw:
        cls.append("raw")
    slow = bench.sched_has_zero(case["go"]) or case["lat1"]
    if slow:
        cls.append("wishbone-latency")
    if bench.sched_has_zero(case["ps"]):
        cls.append("idle-cycles")
    return ok(nt=bool(raw and (slow or master.overlap or master.back2back)), cls=cls, counts=counts, cycles=cyc)


# ===================================================================================== SoCBusHandler.add_adapter chains

AD_WINDOW = 256
STDS = ["wishbone", "axi-lite", "axi"]


def adapter_combos(include_known=False):
    """every (bus, master, slave) combination add_adapter supports: standards x widths 32/64 x wishbone word/byte addressing
    (wishbone.Converter documents word addressing only: byte addressed wishbone ends have the width of the bus; an AHB master
    needs a wishbone bus of its own width: add_adapter has no other AHB bridge and no AHB width converter)"""
    out = []
    for bus_std in STDS:
        for bus_dw in (32, 64):
            ms = [[std, dw, "word"] for std in STDS for dw in (32, 64)] + [["wishbone", bus_dw, "byte"]]
            if bus_std == "wishbone":
                ms.append(["ahb", bus_dw, "word"])
            ss = [[std, dw, "word"] for std in STDS for dw in (32, 64)] + [["wishbone", bus_dw, "byte"]]
            for m in ms:
                for s_ in ss:
                    c = {"bus": [bus_std, bus_dw], "m": m, "s": s_}
                    if include_known or adapter_known_class(c)[0] is None:
                        out.append(c)
    return out


def enum_adapter(tier):
    """every supported chain once with a fixed program (write with full / partial strobes, read back, neighbours) and two timing variants"""
    cases = []
    for combo in adapter_combos(include_known=True):
        m_std, m_dw, m_adr = combo["m"]
        nb = m_dw // 8
        for var in (0, 1):
            if var and adapter_known_class(combo)[0]:
                continue          # chains of a recorded class appear once: skipped by run_adapter and thereby counted in evidence
            hi = (0, 0x40000000)[var]
            slow = [ONE, ["per", [0, 1, 0], 0]][var]
            c = dict(combo)
            c.update({"hi": hi, "seed": 5 + var, "gm": None, "gs": (None, 3)[var], "ms": {n: slow for n in ("aw", "w", "ar", "b", "r")},
                      "ss": {n: slow for n in ("aw", "w", "ar", "b", "r")}, "go": slow, "lat1": bool(var), "ps": ONE, "K": 1, "Q": 1 + var,
                      "w_after_aw": not var, "wait_valid": bool(var), "w_needs_aw": not var, "idw": 1})
            if m_std == "axi":
                wmax = 8
                k = wmax // nb
                c["ops"] = [{"we": 1, "burst": INCR, "len": 2 * k - 1, "size": _log2(nb), "addr": hi + 16, "id": 1, "strb": "full"},
                            {"we": 1, "burst": INCR, "len": k - 1, "size": _log2(nb), "addr": hi + 24, "id": 0, "strb": "rand"},
                            {"we": 0, "burst": INCR, "len": 3 * k - 1, "size": _log2(nb), "addr": hi + 8, "id": 1},
                            {"we": 0, "burst": INCR, "len": k - 1, "size": _log2(nb), "addr": hi + 0xf8, "id": 0}]
            elif m_std == "ahb":
                c["ops"] = [{"kind": "rw", "we": 1, "addr": hi + 16, "size": _log2(nb), "data": 0x8877665544332211 & _m(m_dw)},
                            {"kind": "rw", "we": 1, "addr": hi + 16 + nb + 1, "size": 0, "data": 0xa1a2a3a4a5a6a7a8 & _m(m_dw)},
                            {"kind": "rw", "we": 0, "addr": hi + 16 + nb, "size": _log2(nb), "data": 0},
                            {"kind": "rw", "we": 0, "addr": hi + 16, "size": 1, "data": 0},
                            {"kind": "rw", "we": 0, "addr": hi + 0xf8, "size": _log2(nb), "data": 0}]
            else:
                full = _m(nb)
                ops = [{"we": 1, "addr": hi + 16, "data": 0x8877665544332211 & _m(m_dw), "strb": full},
                       {"we": 1, "addr": hi + 16 + nb, "data": 0xa1a2a3a4a5a6a7a8 & _m(m_dw), "strb": 0b0110 if nb == 4 else 0b01100110},
                       {"we": 1, "addr": hi + 16 + 3 * nb, "data": 0x0102030405060708 & _m(m_dw), "strb": full},
                       {"we": 0, "addr": hi + 16 + nb, "data": 0, "strb": full},
                       {"we": 0, "addr": hi + 16, "data": 0, "strb": full},
                       {"we": 0, "addr": hi + 16 + 2 * nb, "data": 0, "strb": full},
                       {"we": 0, "addr": hi + 16 + 3 * nb, "data": 0, "strb": full},
                       {"we": 0, "addr": hi + 0xf8, "data": 0, "strb": full}]
                if m_std == "wishbone":
                    for i, o in enumerate(ops):
                        o["gap"] = (0, i % 3)[var]
                        o["hold"] = bool(var and i % 2)
                c["ops"] = ops
            cases.append(c)
    return cases


def st_adapter(tier):
    combos = adapter_combos()

    @st.composite
    def case(draw):
        combo = draw(st.sampled_from(combos))
        bus_std, bus_dw = combo["bus"]
        m_std, m_dw, m_adr = combo["m"]
        s_std, s_dw, s_adr = combo["s"]
        c = {"bus": [bus_std, bus_dw], "m": [m_std, m_dw, m_adr], "s": [s_std, s_dw, s_adr],
             "hi": draw(st.sampled_from([0, 0, 0x1000, 0x40000000, 0xfffff000])), "seed": draw(st.integers(0, 2 ** 16)),
             "gm": draw(st.one_of(st.none(), st.integers(0, 999))), "gs": draw(st.one_of(st.none(), st.integers(0, 999))),
             "ms": _scheds(draw), "ss": _scheds(draw), "go": draw(st.one_of(st.just(ONE), bench.st_schedule())), "lat1": draw(st.booleans()),
             "ps": draw(st.one_of(st.just(ONE), bench.st_schedule())),
             "K": draw(st.sampled_from([1, 1, 2])), "Q": draw(st.sampled_from([1, 2, 4])), "w_after_aw": draw(st.booleans()),
             # the interfaces add_adapter creates have id_width 1
             "wait_valid": draw(st.booleans()), "w_needs_aw": draw(st.booleans()), "idw": 1}
        nb = m_dw // 8
        nops = 8 if tier == "quick" else 20
        if m_std == "axi":
            wmax = max(m_dw, bus_dw, s_dw) // 8
            ops = []
            for _ in range(draw(st.integers(2, 4 if tier == "quick" else 8))):
                prev = [o for o in ops if o["we"]]
                if prev and draw(st.integers(0, 2)) == 0:
                    o = dict(prev[draw(st.integers(0, len(prev) - 1))], we=0, id=draw(st.integers(0, _m(c["idw"]))))
                    o.pop("strb", None)
                else:
                    k = draw(st.sampled_from([1, 1, 2, 3]))                 # widest words
                    slot = draw(st.integers(0, AD_WINDOW // wmax - k))
                    o = {"we": draw(st.integers(0, 1)), "burst": INCR, "len": k * (wmax // nb) - 1, "size": _log2(nb), "addr": c["hi"] + slot * wmax,
                         "id": draw(st.integers(0, _m(c["idw"])))}
                    if o["we"]:
                        o["strb"] = draw(st.sampled_from(["full", "full", "rand", "mixed", "sparse", "none"]))
                ops.append(o)
            c["ops"] = ops
        elif m_std == "ahb":
            full = _log2(nb)
            ops = []
            for _ in range(draw(st.integers(3, nops))):
                size = draw(st.sampled_from([full, full] + list(range(full + 1))))
                n = 1 << size
                we = draw(st.integers(0, 1))
                prev = [o for o in ops if o["we"]]
                if not we and prev and draw(st.integers(0, 1)):
                    addr = ((prev[draw(st.integers(0, len(prev) - 1))]["addr"] - c["hi"]) // nb) * nb + draw(st.integers(0, nb // n - 1)) * n
                else:
                    addr = draw(st.integers(0, AD_WINDOW // n - 1)) * n
                ops.append({"kind": "rw", "we": we, "addr": c["hi"] + addr, "size": size, "data": draw(st.integers(0, _m(m_dw)))})
            c["ops"] = ops
        else:
            ops = st_lite_ops(draw, nb, AD_WINDOW, c["hi"], nops)
            for o in ops:
                o.pop("prot")
                if m_std == "wishbone":
                    o["gap"] = draw(st.sampled_from([0, 0, 0, 1, 2, 5]))
                    o["hold"] = draw(st.booleans())
                    if not o["we"]:
                        o["strb"] = draw(st.sampled_from([_m(nb), _m(nb), 1, _m(nb) & ~1]))
            c["ops"] = ops
        return c
    return case()


def _mk_iface(std, dw, addressing, idw=1):
    from litex.soc.interconnect import wishbone, axi, ahb
    if std == "wishbone":
        return wishbone.Interface(data_width=dw, address_width=32, addressing=addressing)
    if std == "axi-lite":
        return axi.AXILiteInterface(data_width=dw, address_width=32)
    if std == "axi":
        return axi.AXIInterface(data_width=dw, address_width=32, id_width=idw)
    return ahb.AHBInterface(data_width=dw, address_width=32)


def adapter_known_class(case):
    """(reason, key) when the chain belongs to a class steered away from a recorded finding (counted, only executed by witnesses)"""
    bus_std, bus_dw = case["bus"]
    m_std, m_dw, m_adr = case["m"]
    s_std, s_dw, s_adr = case["s"]
    if m_std == "axi" and s_std == "axi-lite" and bus_std != "wishbone" and s_dw > bus_dw:
        # AXI2AXILite moves on to the next beat's address while the previous W beat is pending; the AXILiteUpConverter behind it
        # steers W by the address presented now (known finding axil-up-w-before-aw of checks/C09.py)
        return "excluded:AXI2AXILite->AXILiteUpConverter (axil-up-w-before-aw)", "axil-up-w-before-aw"
    if s_std == "axi" and s_dw > bus_dw and not (m_std == "axi" and bus_std == "axi"):
        # the AXIUpConverter that add_adapter puts in front of an AXI slave wider than the bus documents "size of axi_from burst >=
        # axi_to data_width"; every access that reaches it through AXILite2AXI / Wishbone2AXI is a single bus-width beat
        return "excluded:single beats into the AXIUpConverter of a wider AXI slave (c09:add-adapter:axi-up-single-beat)", "c09:add-adapter:axi-up-single-beat"
    if m_std == "axi" and bus_std == "axi-lite" and s_std == "axi" and s_dw < bus_dw:
        # AXI2AXILite -> AXILite2AXI (pass-through) -> AXIDownConverter: the down-converter takes the next AR before the previous R
        # has been delivered, i.e. it is the multi-outstanding partner of finding c09:axi2axilite:queued-ar-r-last
        return "excluded:AXI2AXILite->AXILite2AXI->AXIDownConverter (c09:axi2axilite:queued-ar-r-last)", "c09:axi2axilite:queued-ar-r-last"
    return None, None


def run_adapter(case):
    reason, key = adapter_known_class(case)
    if reason and not case.get("force"):
        return skip(reason, cycles=0)
    v = _run_adapter(case)
    if not v["ok"] and key:
        v["key"] = key
    return v


def _run_adapter(case):
    from migen import Module
    from litex.soc.integration.soc import SoCBusHandler
    bus_std, bus_dw = case["bus"]
    m_std, m_dw, m_adr = case["m"]
    s_std, s_dw, s_adr = case["s"]
    hi = case["hi"]
    W = AD_WINDOW
    nb = m_dw // 8
    snb = s_dw // 8
    top = Module()
    mi = _mk_iface(m_std, m_dw, m_adr, case["idw"])
    si = _mk_iface(s_std, s_dw, s_adr, case["idw"])
    desc = "%s %d%s -> [%s %d bus] -> %s %d%s" % (m_std, m_dw, "/byte" if m_adr == "byte" else "", bus_std, bus_dw, s_std, s_dw,
                                                 "/byte" if s_adr == "byte" else "")
    cls = ["master:" + m_std, "bus:" + bus_std, "slave:" + s_std,
           "m-width:" + ("same" if m_dw == bus_dw else "down" if m_dw > bus_dw else "up"),
           "s-width:" + ("same" if s_dw == bus_dw else "down" if s_dw < bus_dw else "up")]
    kp = "c09:add-adapter"
    lite_up = (m_std == "axi-lite" and m_dw < bus_dw) or (s_std == "axi-lite" and s_dw > bus_dw)
    # AXI2AXILite's partner is the slave agent (directly or through pass-through logic): single-outstanding envelope
    a2l_lite = s_std == "axi-lite" and (bus_std == "axi" or (m_std == "axi" and bus_std == "axi-lite"))
    a2l_axi = s_std == "axi" and m_std == "axi" and bus_std == "axi-lite"
    handler = SoCBusHandler(standard=bus_std, data_width=bus_dw, address_width=32)
    try:
        a = handler.add_adapter("m", mi, "m2s")
        b = handler.add_adapter("s", si, "s2m")
    except Exception as e:          # every generated combination is one add_adapter has a bridge / converter for
        return bad("rejected", "add_adapter fails on %s: %r" % (desc, e), key=kp + ":rejected", cls=cls, cycles=0)
    top.submodules.handler = handler
    if type(a) is not type(b) or a.data_width != b.data_width or a.data_width != bus_dw:
        return bad("adapted-interface", "%s: adapted interfaces are %s %d / %s %d" % (desc, type(a).__name__, a.data_width, type(b).__name__, b.data_width),
                   key=kp + ":adapted-interface", cls=cls, cycles=0)
    top.comb += a.connect(b)
    init = _init(case["seed"], W)
    model = bytearray(init)
    ops = case["ops"]
    n_units = sum(o["len"] + 1 for o in ops) if m_std == "axi" else len(ops)
    ratio = max(m_dw, bus_dw, s_dw) // min(m_dw, bus_dw, s_dw)
    until = 100 + 30 * n_units * ratio
    limit = until + 40 * n_units * ratio + 300
    agents = []
    # ---- master agent
    if m_std == "axi":
        ops = expand_ops(case, nb)
        master = axi4.AXI4Master(mi, ops, case["ms"], K=case["K"], w_after_aw=case["w_after_aw"], garbage_seed=case["gm"], until=until)
    elif m_std == "axi-lite":
        master = axil.AXILMaster(mi, ops, case["ms"], K=1 if lite_up else case["K"], w_after_aw=True if lite_up else case["w_after_aw"],
                                 garbage_seed=case["gm"], until=until)
    elif m_std == "wishbone":
        ush = _log2(nb) if m_adr == "word" else 0
        master = wb.WBMaster(mi, [{"we": o["we"], "adr": o["addr"] >> ush, "dat": o["data"], "sel": o["strb"], "gap": o["gap"], "hold": o["hold"]}
                                  for o in ops])
    else:
        master = AHBMaster(mi, ops, case["ps"] if bench.sched_has_one(case["ps"]) else ONE, garbage_seed=case["gm"], until=until)
    agents.append(master)
    # ---- slave agent
    slave = mon = None
    if s_std == "wishbone":
        sm = wb_mem_slave(top, si, W, init, min_latency1=case["lat1"])
        go = bench.Schedule(case["go"] if bench.sched_has_one(case["go"]) else ONE)
        mon = wb.WBMonitor(si, "adapter chain->wishbone slave")
        agents += [bench.Driver(lambda t: {sm.go: 1 if t >= until else go.bit(t)}), mon]
    elif s_std == "axi-lite":
        smem = wb.ByteMem(W, init)
        slave = AXILSlave1(si, smem, case["ss"], Q=case["Q"], Qr=1 if a2l_lite else None, w_needs_aw=a2l_lite or case["w_needs_aw"],
                           wait_valid=case["wait_valid"], base=hi, garbage_seed=case["gs"], until=until)
        if a2l_lite:
            cls.append("envelope:single-outstanding-partner")
        agents.append(slave)
    else:
        smem = bytearray(init)
        gs = case["gs"]
        slave = axi4.AXI4MemSlave(si, smem, case["ss"], Q=1 if a2l_axi else case["Q"], wait_valid=case["wait_valid"], base=hi,
                                  garbage_b=None if gs is None else gs + 11, garbage_r=None if gs is None else gs + 12,
                                  until=until, w_needs_aw=a2l_axi or case["w_needs_aw"], pad_seed=case["seed"] + 7)
        if a2l_axi:
            cls.append("envelope:single-outstanding-partner")
        agents.append(slave)
    cyc = bench.run(top, agents, limit, stop=lambda t: master.finished())
    ctx = "add_adapter %s (K=%d Q=%d w_after_aw=%r wait_valid=%r w_needs_aw=%r)" % (desc, case["K"], case["Q"], case["w_after_aw"], case["wait_valid"],
                                                                                 case["w_needs_aw"])
    # ---- slave side protocol
    if mon is not None and mon.violations:
        c_, txt = mon.violations[0]
        return bad("slave-side-wishbone", "%s: cycle %d: %s" % (ctx, c_, txt), key=kp + ":wb-stability", cls=cls, cycles=cyc)
    if slave is not None and slave.hold_violations():
        c_, txt = min(slave.hold_violations())
        return bad("slave-side-hold", "%s: cycle %d: %s" % (ctx, c_, txt), key=kp + ":hold-slave", cls=cls, cycles=cyc)
    if s_std == "axi" and slave.audit:
        return bad("slave-side-burst", "%s: %s" % (ctx, slave.audit[0]), key=kp + ":burst", cls=cls, cycles=cyc)
    # ---- master side
    counts = {}
    if m_std == "axi":
        v = axi_master_checks(ctx, kp, ops, master, cls, cyc, slave.state() if s_std == "axi" else "")
        if v is not None:
            return v
        v, info = axi_scoreboard(ctx, kp, ops, master, model, hi, nb, lambda a: False, cls, cyc)
        if v is not None:
            return v
        counts = info["counts"]
    else:
        if m_std == "axi-lite":
            if master.hold_violations():
                c_, txt = min(master.hold_violations())
                return bad("master-side-hold", "%s: B/R towards the master, cycle %d: %s" % (ctx, c_, txt), key=kp + ":hold-master", cls=cls, cycles=cyc)
            if master.extra_responses:
                ch, c_, tok = master.extra_responses[0]
                return bad("extra-response", "%s: a %s response in cycle %d that no request is waiting for" % (ctx, ch.upper(), c_),
                           key=kp + ":extra-response", cls=cls, cycles=cyc)
        if m_std == "wishbone" and master.acks_outside:
            return bad("ack-once", "%s: %d ack cycles while the master has no request pending" % (ctx, master.acks_outside), key=kp + ":ack-once", cls=cls, cycles=cyc)
        if not master.finished():
            if m_std == "axi-lite":
                p = next(i for i, d in enumerate(master.done) if not d)
            elif m_std == "wishbone":
                p = master.i
            else:
                p = master.dp if master.dp is not None else (master.ap if master.ap is not None else master.i)
            return bad("termination", "%s: operation %d %r never completed (%d cycles)" % (ctx, p, ops[p], cyc), key=kp + ":hang", cls=cls, cycles=cyc)
        if m_std == "axi-lite":
            sops = ops
            results = [(master.result[i][1], master.result[i][2]) for i in range(len(ops))]
        elif m_std == "wishbone":
            res = {i: (dat_r, 2 if err else 0) for (i, start, ackc, dat_r, err) in master.results}
            sops = [dict(o, rsel=o["strb"]) if not o["we"] else o for o in ops]
            results = [res[i] for i in range(len(ops))]
        else:
            if master.resp_outside:
                return bad("spurious-error", "%s: HRESP high in cycle %d while no transfer is in its data phase" % (ctx, master.resp_outside[0]),
                           key=kp + ":resp", cls=cls, cycles=cyc)
            sops, results = [], []
            for o, r in zip(ops, master.res):
                esel = _m(1 << o["size"]) << (o["addr"] % nb)
                sops.append({"we": o["we"], "addr": (o["addr"] // nb) * nb, "data": o["data"], "strb": esel, "rsel": esel})
                results.append((r["rdata"], 2 if r["resp_cycles"] else 0))
        v, info = lite_scoreboard(ctx, kp, sops, results, model, hi, nb, lambda a: False, cls, cyc)
        if v is not None:
            return v
    # ---- the slave's memory
    if s_std == "wishbone":
        shadow = bytearray(init)
        ush = 0 if s_adr == "word" else _log2(snb)
        for (c_, we, adr, sel, dat_w, cti, bte) in mon.requests:
            if we:
                o = ((adr >> ush) * snb) % W
                if ((adr >> ush) * snb) & 0xffffffff != (hi + o) & 0xffffffff:
                    return bad("slave-side-address", "%s: wishbone write with adr=%#x, outside the window at %#x" % (ctx, adr, hi), key=kp + ":address", cls=cls, cycles=cyc)
                for k in range(snb):
                    if (sel >> k) & 1:
                        shadow[o + k] = (dat_w >> (8 * k)) & 0xff
        final = shadow
    elif s_std == "axi-lite":
        final = smem.b
    else:
        final = smem
    if bytes(final) != bytes(model):
        k = next(i for i in range(W) if final[i] != model[i])
        return bad("slave-memory", "%s: byte %#x of the slave memory is %#04x, model %#04x" % (ctx, hi + k, final[k], model[k]), key=kp + ":data", cls=cls, cycles=cyc)
    if info["raw"]:
        cls.append("raw")
    cls.append("chain:%s/%d>%s/%d>%s/%d" % (m_std, m_dw, bus_std, bus_dw, s_std, s_dw))
    return ok(nt=bool(info["raw"]), cls=cls, counts=counts, cycles=cyc)


def subchecks():
    return [
        Sub("axilite2axi", run_axilite2axi, strategy=st_axilite2axi, examples=(400, 8000), timeout=(900, 20000),
            rule="AXILite2AXI (ids, prot, burst type as configured) between the AXI-Lite master agent (K outstanding) and the AXI4 memory slave "
                 "(queue Q, error range): single-beat full-width bursts, responses and errors handed back"),
        Sub("axi2axilite", run_axi2axilite, strategy=st_axi2axilite, examples=(700, 12000), timeout=(900, 20000),
            rule="AXI2AXILite: 2..5 (thorough ..10) AXI4 bursts (FIXED/INCR/WRAP, narrow, unaligned) between the AXI4 master agent and a "
                 "single-outstanding AXI-Lite memory slave"),
        Sub("axi-wishbone", run_axi_wishbone, strategy=st_axi_wishbone, examples=(700, 12000), timeout=(900, 20000),
            rule="AXI2Wishbone (AXI4 master agent, 0-latency capable wishbone memory with ack schedule) and Wishbone2AXI (wishbone master, AXI4 "
                 "memory slave with error range) x base address x word/byte wishbone addressing"),
        Sub("ahb2wishbone", run_ahb, strategy=st_ahb, examples=(800, 14000), timeout=(900, 20000),
            rule="AHB2Wishbone: 3..14 (thorough ..40) pipelined single transfers (byte..bus width, HSEL=0 transfers, IDLE gaps) against the "
                 "wishbone memory with ack schedule and error range"),
        Sub("add-adapter-chains", run_adapter, enum=enum_adapter, exhaustive=True, timeout=(900, 20000),
            rule="EVERY chain add_adapter supports (bus standard x width 32/64) x (master standard incl. AHB x width x wishbone word/byte) x "
                 "(slave standard x width x word/byte), minus the two recorded classes: fixed write / partial write / read-back program, "
                 "two timing variants"),
        Sub("add-adapter", run_adapter, strategy=st_adapter, examples=(600, 10000), timeout=(900, 20000),
            rule="SoCBusHandler.add_adapter(m2s) + add_adapter(s2m) joined directly: (master standard incl. AHB, width 32/64, wishbone word/byte) x "
                 "(bus standard, width) x (slave standard, width, word/byte): flat memory end to end, slave-side protocol monitors"),
    ]

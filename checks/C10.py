"""C10 - AXI bursts are expanded and resized according to the AXI address rules."""
import hashlib

from hypothesis import strategies as st

from vlib.runner import Sub, ok, bad
from vlib import bench, axil, axi4

RULE = ("AXIBurst2Beat: ALL (burst type, len, size) classes (FIXED len 0..15, INCR len 0..255 as far as the 4 KB rule allows, "
        "WRAP len 1/3/7/15 at every start position of the wrap window; size 0..7) x start addresses (page start, page end, "
        "unaligned low bits, top of the address space) x capability sets {FIXED}, {FIXED,INCR}, {FIXED,INCR,WRAP} x stall "
        "schedules on the beat stream x gaps / back-to-back requests x garbage on the idle request; oracle = the AMBA "
        "formulae (Aligned_Address, Address_N, Wrap_Boundary) at transfer-size granularity, len+1 beats, first/last at the "
        "ends only, id on every beat, request handshake exactly once and together with the last beat, hold rule.  "
        "AXIUpConverter / AXIDownConverter / AXIConverter ratio 2/4/8 (8..256 bit) between a five-channel AXI4 master agent "
        "and a byte-accurate AXI4 memory slave: flat byte-memory scoreboard, byte-write sequence seen by the slave == byte "
        "sequence sent, R beats len+1 with last on the final one only, one B per write burst and not before its data, ids "
        "echoed, legal burst parameters and W beat count towards the slave, hold rule on every channel the converter drives; "
        "non-trivial = burst of >= 2 beats with >= 1 stalled beat (burst2beat) / a multi-beat burst under back-pressure "
        "(converters); distinct = canonical JSON")
ASSUMPTIONS = ["Migen's simulator (site-packages) defines FHDL semantics",
               "bursts are legal AXI4: INCR <= 256, FIXED <= 16, WRAP in {2,4,8,16} with size-aligned start, no 4 KB crossing "
               "(AXIBurst2Beat's 13-bit signed beat offset relies on the 4 KB rule)",
               "the request is held (valid and payload stable) until its handshake: AXIBurst2Beat reads it combinationally during the whole burst",
               "burst type outside the instance's capability set: 'treated as FIXED' - only beat count, first/last, id and the request handshake are asserted",
               "converters: full-width transfers (size = log2(master bytes)); INCR, WRAP (if the converted burst is still a legal "
               "WRAP), FIXED only with len 0 (down); up-conversion: start aligned to the wide word and len+1 a multiple of the ratio; "
               "down-conversion: (len+1)*ratio <= 256; narrow transfers through the converters are outside the asserted domain",
               "converter sub-check: conflicting bursts (overlapping bytes, one of them a write) are serialised by the master agent",
               "W id/dest/user and R dest/user are not compared (WID does not exist in AXI4, dest never, user has width 0)",
               "AXIDownConverter read side-band (id/resp) under R back-pressure is explored by its own enumerated sub-check "
               "'down-r-sideband'; the generated converter cases either never stall R (side-band fully checked) or stall R with "
               "constant side-band values"]

FIXED, INCR, WRAP = 0, 1, 2
BNAME = {0: "FIXED", 1: "INCR", 2: "WRAP", 3: "RESERVED"}
M32 = 0xffffffff


# ===================================================================================== oracle (AMBA AXI A3.4.1, literal)

def amba_addresses(start, length, size, burst):
    number_bytes = 1 << size
    burst_length = length + 1
    aligned_address = (start // number_bytes) * number_bytes
    out = []
    wrap_boundary = None
    if burst == WRAP:
        wrap_boundary = (start // (number_bytes * burst_length)) * (number_bytes * burst_length)
    wrapped = False
    for n in range(1, burst_length + 1):
        if burst == FIXED or n == 1:
            a = start
        elif burst == INCR:
            a = aligned_address + (n - 1) * number_bytes
        elif not wrapped:
            a = aligned_address + (n - 1) * number_bytes
            if a == wrap_boundary + number_bytes * burst_length:
                a = wrap_boundary
                wrapped = True
        else:
            a = start + (n - 1) * number_bytes - number_bytes * burst_length
        out.append(a)
    return out


def _len_class(n):
    for lim, name in ((1, "1"), (2, "2"), (4, "3-4"), (16, "5-16"), (64, "17-64"), (256, "65-256")):
        if n <= lim:
            return "beats:" + name
    return "beats:>256"


# ===================================================================================== AXIBurst2Beat

def run_b2b(case):
    from migen import Module
    from litex.soc.interconnect.axi import axi_full
    from litex.soc.interconnect.axi.axi_stream import AXIStreamInterface
    caps = set(case["caps"])
    bursts = case["bursts"]
    ax_burst = AXIStreamInterface(layout=axi_full.ax_description(32), id_width=4)
    ax_beat = AXIStreamInterface(layout=axi_full.ax_description(32), id_width=4)
    top = Module()
    top.submodules.dut = axi_full.AXIBurst2Beat(ax_burst, ax_beat, capabilities=caps)
    fb = axi4._Fields(ax_burst)
    toks = [fb.tok({"addr": b["addr"], "burst": b["burst"], "len": b["len"], "size": b["size"], "id": b["id"],
                    "lock": b.get("lock", 0), "prot": b.get("prot", 0), "cache": b.get("cache", 0)}) for b in bursts]
    total = sum(b["len"] + 1 for b in bursts)
    until = 40 + 6 * total
    prod = bench.Producer(ax_burst, toks, case["ps"], garbage_seed=case.get("garbage"), until=until)
    cons = bench.Consumer(ax_beat, case["cs"], until=until)
    tail = {"n": 0}

    def stop(t):
        if prod.done():
            tail["n"] += 1
        return tail["n"] > 4

    cyc = bench.run(top, [prod, cons], until + total + 40, stop=stop)
    fe = axi4._Fields(ax_beat)
    capname = "+".join(BNAME[c] for c in sorted(caps))
    cls = ["caps:" + capname]
    counts = {}
    ctx = "AXIBurst2Beat(capabilities={%s})" % capname

    def describe(k):
        b = bursts[k]
        return "burst #%d %s addr=%#x len=%d size=%d id=%d" % (k, BNAME[b["burst"]], b["addr"], b["len"], b["size"], b["id"])

    if cons.hold_violations:
        c_, txt = cons.hold_violations[0]
        return bad("beat-hold", "%s: beat stream, cycle %d: %s" % (ctx, c_, txt), key="c10:burst2beat-hold", cls=cls, cycles=cyc)
    pos = 0
    b2b = 0
    for k, b in enumerate(bursts):
        n = b["len"] + 1
        supported = b["burst"] in caps
        exp = amba_addresses(b["addr"], b["len"], b["size"], b["burst"])
        got = cons.got[pos:pos + n]
        for i, (c_, tok) in enumerate(got):
            first, last = tok[2], tok[3]
            if first != int(i == 0) or last != int(i == n - 1):
                return bad("beat-framing", "%s: %s: beat %d of %d has first=%d last=%d" % (ctx, describe(k), i, n, first, last),
                           key="c10:burst2beat-framing", cls=cls, cycles=cyc)
            if fe.get(tok, "id") != b["id"]:
                return bad("beat-id", "%s: %s: beat %d carries id %d" % (ctx, describe(k), i, fe.get(tok, "id")),
                           key="c10:burst2beat-id", cls=cls, cycles=cyc)
            if supported:
                a = fe.get(tok, "addr")
                if (a >> b["size"]) != ((exp[i] & M32) >> b["size"]):
                    return bad("beat-address", "%s: %s: beat %d has address %#x, AMBA address %#x (compared at %d-byte granularity); "
                               "addresses so far %s" % (ctx, describe(k), i, a, exp[i] & M32, 1 << b["size"],
                                                        [hex(fe.get(t_, "addr")) for _, t_ in got[:i + 1]][-6:]),
                               key="c10:burst2beat-addr", cls=cls, cycles=cyc)
        if len(got) < n:
            return bad("termination", "%s: %s: %d of %d beats after %d cycles (request handshakes so far: %d)" %
                       (ctx, describe(k), len(got), n, cyc, len(prod.sent)), key="c10:burst2beat-hang", cls=cls, cycles=cyc)
        if len(prod.sent) <= k:
            return bad("request-consumed", "%s: %s: all %d beats delivered but the request was never accepted" % (ctx, describe(k), n),
                       key="c10:burst2beat-request", cls=cls, cycles=cyc)
        if prod.sent[k][0] != got[-1][0]:
            return bad("request-consumed", "%s: %s: request handshake in cycle %d, last beat handshake in cycle %d" %
                       (ctx, describe(k), prod.sent[k][0], got[-1][0]), key="c10:burst2beat-request", cls=cls, cycles=cyc)
        if k and got[0][0] == cons.got[pos - 1][0] + 1:
            b2b += 1
        pos += n
        # evidence classes
        name = BNAME[b["burst"]] + ("" if supported else "-unsupported")
        for lab in (name, "size=%d" % b["size"], name + ":" + _len_class(n)):
            counts[lab] = counts.get(lab, 0) + 1
        if b["addr"] % (1 << b["size"]):
            counts["unaligned-start"] = counts.get("unaligned-start", 0) + 1
        if b["burst"] == WRAP and supported and any(exp[i + 1] < exp[i] for i in range(n - 1)):
            counts["WRAP-wraps"] = counts.get("WRAP-wraps", 0) + 1
        if b["burst"] == INCR and ((b["addr"] >> b["size"]) + n) << b["size"] & 0xfff == 0:
            counts["INCR-ends-at-4KB"] = counts.get("INCR-ends-at-4KB", 0) + 1
        if b["addr"] >= 0xfffff000:
            counts["top-page"] = counts.get("top-page", 0) + 1
    if len(cons.got) != total:
        c_, tok = cons.got[total]
        return bad("extra-beat", "%s: beat in cycle %d after all %d bursts were complete (addr %#x)" % (ctx, c_, len(bursts), fe.get(tok, "addr")),
                   key="c10:burst2beat-framing", cls=cls, cycles=cyc)
    if len(prod.sent) != len(bursts):
        return bad("request-consumed", "%s: %d request handshakes for %d bursts" % (ctx, len(prod.sent), len(bursts)),
                   key="c10:burst2beat-request", cls=cls, cycles=cyc)
    if cons.stalled:
        cls.append("beat-stalled")
    if b2b:
        cls.append("back-to-back")
    if case.get("garbage") is not None:
        cls.append("idle-garbage")
    nt = cons.stalled > 0 and any(b["len"] >= 1 for b in bursts)
    return ok(nt=nt, cls=cls, counts=counts, cycles=cyc)


# ------------------------------------------------------------------------------------- enumeration of ALL classes

def _h(*parts):
    return int.from_bytes(hashlib.blake2b(("|".join(str(p) for p in parts)).encode(), digest_size=8).digest(), "big")


PAGES = [0x00000000, 0x00001000, 0x7ffff000, 0x80000000, 0xfffff000, 0x12345000, 0xa5a5a000, 0x40000000]


def _addr_incr(length, size, v):
    """legal INCR start address variant v: never crossing the 4 KB page"""
    nb = 1 << size
    total = (length + 1) * nb
    h = _h("incr", length, size, v)
    page = PAGES[h % len(PAGES)]
    room = (4096 - total) // nb          # aligned start slots 0..room
    low = (h >> 8) % nb
    if v % 8 == 0:                        # ends exactly at the page end, unaligned start
        return page + room * nb + low
    if v % 8 == 1:                        # page start, unaligned
        return page + low
    if v % 8 == 2:                        # aligned somewhere
        return page + ((h >> 20) % (room + 1)) * nb
    if v % 8 == 3:                        # page end, aligned
        return page + room * nb
    return page + ((h >> 20) % (room + 1)) * nb + low


def _addr_fixed(length, size, v):
    h = _h("fixed", length, size, v)
    page = PAGES[h % len(PAGES)]
    off = (h >> 8) % 4096
    if v % 4 == 0:
        off = (off >> size) << size
    if v % 8 == 3:
        off = 4095                        # last byte of the page: the transfer stays inside its aligned container
    return page + off


def enum_classes(tier):
    nvar = 1 if tier == "quick" else 8
    bursts = []
    ci = 0
    for size in range(8):
        for length in range(16):
            for v in range(nvar):
                vv = v + ci if nvar == 1 else v
                bursts.append({"burst": FIXED, "len": length, "size": size, "addr": _addr_fixed(length, size, vv)})
            ci += 1
        for length in range(256):
            if ((length + 1) << size) > 4096:
                continue
            for v in range(nvar):
                vv = v + ci if nvar == 1 else v
                bursts.append({"burst": INCR, "len": length, "size": size, "addr": _addr_incr(length, size, vv)})
            ci += 1
        for length in (1, 3, 7, 15):
            total = (length + 1) << size
            for j in range(length + 1):       # every start position inside the wrap window
                for v in range(nvar):
                    h = _h("wrap", length, size, j, v)
                    page = PAGES[h % len(PAGES)]
                    win = (h >> 8) % (4096 // total)
                    if v == 1:
                        win = 4096 // total - 1     # window ends at the page end
                    bursts.append({"burst": WRAP, "len": length, "size": size, "addr": page + win * total + (j << size)})
            ci += 1
    for i, b in enumerate(bursts):
        b["id"] = (i * 7 + 3) % 16
    # deterministic permutation so that long and short, and different types, share a case
    n = len(bursts)
    step = 7919
    while n % step == 0:
        step += 2
    order = [(i * step) % n for i in range(n)]
    assert len(set(order)) == n
    CS = [["const", 1], ["per", [1, 0], 0], ["per", [1, 0], 1], ["per", [1, 1, 0], 0], ["per", [1, 1, 0], 1], ["per", [1, 1, 0], 2],
          ["per", [0, 1, 1, 1], 0], ["per", [0, 1, 1, 1], 2], ["per", [1, 0, 0], 1], ["rle", [[1, 5], [0, 2], [1, 1], [0, 1]]],
          ["rle", [[0, 3], [1, 2], [0, 1], [1, 7]]], ["pre", 5, 0, ["per", [1, 1, 1, 0], 3]]]
    PS = [["const", 1], ["per", [1, 0, 0, 0], 1], ["const", 1], ["per", [1, 0], 0], ["rle", [[0, 4], [1, 1], [0, 1], [1, 2]]]]
    cases = []
    per_case = 4
    for caps in ([FIXED], [FIXED, INCR], [FIXED, INCR, WRAP]):
        for g in range(0, n, per_case):
            i = len(cases)
            cases.append({"caps": caps, "bursts": [bursts[order[x]] for x in range(g, min(n, g + per_case))],
                          "cs": CS[i % len(CS)], "ps": PS[(i // len(CS)) % len(PS)],
                          "garbage": (i * 13 + 1) if i % 3 == 0 else None})
    return cases


# ------------------------------------------------------------------------------------- generated bursts

def st_burst(draw):
    burst = draw(st.sampled_from([INCR, INCR, INCR, WRAP, WRAP, FIXED]))
    size = draw(st.integers(0, 7))
    nb = 1 << size
    page = draw(st.one_of(st.sampled_from(PAGES), st.integers(0, 0xfffff).map(lambda p: p << 12)))
    if burst == WRAP:
        length = draw(st.sampled_from([1, 3, 7, 15]))
        total = (length + 1) * nb
        win = draw(st.integers(0, 4096 // total - 1))
        j = draw(st.integers(0, length))
        addr = page + win * total + j * nb
    elif burst == FIXED:
        length = draw(st.integers(0, 15))
        addr = page + draw(st.integers(0, 4095))
    else:
        lmax = min(255, 4096 // nb - 1)
        length = draw(st.one_of(st.integers(0, min(lmax, 12)), st.integers(0, min(lmax, 12)), st.integers(0, lmax)))
        room = (4096 - (length + 1) * nb) // nb
        slot = draw(st.one_of(st.just(room), st.just(0), st.integers(0, room)))
        low = draw(st.one_of(st.just(0), st.integers(0, nb - 1)))
        addr = page + slot * nb + low
    return {"burst": burst, "len": length, "size": size, "addr": addr, "id": draw(st.integers(0, 15)),
            "lock": draw(st.integers(0, 1)), "prot": draw(st.integers(0, 7)), "cache": draw(st.integers(0, 15))}


def st_b2b(tier):
    @st.composite
    def case(draw):
        caps = draw(st.sampled_from([[FIXED, INCR, WRAP], [FIXED, INCR, WRAP], [FIXED, INCR], [FIXED]]))
        n = draw(st.integers(1, 6))
        return {"caps": caps, "bursts": [st_burst(draw) for _ in range(n)],
                "ps": draw(st.one_of(st.just(["const", 1]), bench.st_schedule())),
                "cs": draw(bench.st_schedule()),
                "garbage": draw(st.one_of(st.none(), st.integers(0, 9999)))}
    return case()


# ===================================================================================== data-width converters

WINDOW = 2048            # bytes of slave memory; the upper half is the error range when the case has one
HALF = WINDOW // 2
BASES = [0x00000000, 0x00001000, 0x40000000, 0xfffff000]


def _log2(n):
    return n.bit_length() - 1


def _op_geometry(draw, direction, nbm, nbs, lo):
    """burst type, len, start offset (relative to the window) of one legal burst inside [lo, lo+HALF)"""
    size = _log2(nbm)
    long_ = draw(st.integers(0, 15)) == 11         # the simulator manages ~300 cycles/s on these DUTs: long bursts are rare
    if direction == "up":
        ratio = nbs // nbm
        kmax = min(256 // ratio, HALF // nbs)                      # wide beats
        wrap_k = [k for k in (2, 4, 8, 16) if k * ratio <= 16 and k <= kmax]
        burst = draw(st.sampled_from([INCR] * 6 + [WRAP])) if wrap_k else INCR
        if burst == WRAP:
            k = draw(st.sampled_from(wrap_k))
            total = k * nbs
            off = lo + draw(st.integers(0, HALF // total - 1)) * total + draw(st.integers(0, k - 1)) * nbs
        else:
            k = draw(st.integers(1, kmax)) if long_ else draw(st.integers(1, min(4, kmax)))
            off = lo + draw(st.integers(0, (HALF - k * nbs) // nbs)) * nbs
        return burst, k * ratio - 1, off, size
    ratio = max(1, nbm // nbs)
    nmax = min(256 // ratio, HALF // nbm)
    if direction == "down" and ratio >= 4 and draw(st.integers(0, 4)) == 0:
        # one beat narrower than the master's bus but wider than the slave's (the whole wide word is transferred, the strobes /
        # the master select the bytes)
        sz = draw(st.integers(_log2(nbs) + 1, size - 1))
        off = lo + draw(st.integers(0, HALF // nbm - 1)) * nbm + (draw(st.integers(0, nbm - 1)) >> sz << sz)
        return INCR, 0, off, sz
    wrap_n = [n for n in (2, 4, 8, 16) if n * ratio <= 16 and n <= nmax]
    burst = draw(st.sampled_from([INCR] * 6 + ([WRAP] if wrap_n else []) + [FIXED]))
    low = draw(st.sampled_from([0, 0, 0, 1, nbm - 1, nbm // 2])) % nbm
    if burst == WRAP:
        n = draw(st.sampled_from(wrap_n))
        total = n * nbm
        off = lo + draw(st.integers(0, HALF // total - 1)) * total + draw(st.integers(0, n - 1)) * nbm
    elif burst == FIXED:
        n = 1 if direction == "down" else draw(st.integers(1, min(16, nmax)))
        off = lo + draw(st.integers(0, HALF // nbm - 1)) * nbm + low
    else:
        n = draw(st.sampled_from([nmax, max(1, nmax - 1), nmax // 2 + 1, nmax // 4 + 1, 5, 7])) if long_ else draw(st.integers(1, min(4, nmax)))
        n = min(n, nmax)
        off = lo + draw(st.integers(0, (HALF - n * nbm) // nbm)) * nbm + low
    return burst, n - 1, off, size


def st_conv(tier):
    @st.composite
    def case(draw):
        kind = draw(st.sampled_from(["up", "up", "down", "down", "conv", "conv"]))
        ratio = draw(st.sampled_from([2, 2, 4, 8]))
        small = draw(st.sampled_from([8, 16, 32, 32, 64, 128]))
        while small * ratio > 256:
            small //= 2
        big = small * ratio
        direction = kind if kind != "conv" else draw(st.sampled_from(["up", "down", "down", "up", "same"]))
        if direction == "up":
            dwm, dws = small, big
        elif direction == "down":
            dwm, dws = big, small
        else:
            dwm = dws = draw(st.sampled_from([small, big]))
        idw = draw(st.sampled_from([1, 4, 4, 8]))
        err = draw(st.integers(0, 3)) == 0
        # (AXIDownConverter's R side-band registers, once a finding excluded here, are repaired - 9f56b8d: R may stall with any id / resp)
        rmode = "free"
        c = {"kind": kind, "dir": direction, "dwm": dwm, "dws": dws, "idw": idw, "base": draw(st.sampled_from(BASES)),
             "K": draw(st.sampled_from([1, 1, 2])), "Q": draw(st.sampled_from([1, 2, 4])),
             "w_after_aw": draw(st.booleans()), "wait_valid": draw(st.booleans()), "w_needs_aw": draw(st.booleans()),
             "gm": draw(st.one_of(st.none(), st.integers(0, 999))), "gs": draw(st.one_of(st.none(), st.integers(0, 999))),
             "seed": draw(st.integers(0, 2 ** 16)), "err": err, "rmode": rmode,
             "ms": axil.st_chan_scheds(draw), "ss": axil.st_chan_scheds(draw)}
        if rmode == "never-stalled":
            c["ms"]["r"] = ["const", 1]
        nbm, nbs = dwm // 8, dws // 8
        ops = []
        for _ in range(draw(st.integers(2, 5 if tier == "quick" else 10))):
            we = draw(st.integers(0, 1))
            in_err = err and draw(st.integers(0, 4)) == 0
            if rmode == "constant-sideband" and not we:
                in_err = False
            burst, length, off, size = _op_geometry(draw, direction, nbm, nbs, HALF if in_err else 0)
            op = {"we": we, "burst": burst, "len": length, "size": size, "addr": c["base"] + off,
                  "id": draw(st.integers(0, 2 ** idw - 1))}
            if rmode == "constant-sideband" and not we:
                op["id"] = 0
            if we:
                op["strb"] = draw(st.sampled_from(["full", "full", "rand", "mixed", "sparse", "none"]))
            ops.append(op)
        c["ops"] = ops
        return c
    return case()


def _write_beats(op, nbm, rng):
    """[[data, strb], ...] of a legal master: strobes only inside the lanes the transfer covers"""
    out = []
    for a in axi4.burst_addresses(op["addr"], op["len"], op["size"], op["burst"]):
        act = 0
        for x in axi4.active_bytes(a, op["size"]):
            act |= 1 << (x % nbm)
        style = op.get("strb", "full")
        if style == "mixed":
            style = rng.choice(["full", "rand", "sparse", "none", "full"])
        if style == "full":
            strb = act
        elif style == "rand":
            strb = rng.getrandbits(nbm) & act
        elif style == "sparse":
            lanes = [i for i in range(nbm) if (act >> i) & 1]
            strb = 1 << rng.choice(lanes)
        else:
            strb = 0
        out.append([rng.getrandbits(8 * nbm), strb])
    return out


def run_conv(case):
    r = _run_conv(case)
    if not r.get("ok") and case["dir"] == "down" and any(op["size"] <= _log2(case["dws"] // 8) and op["size"] < _log2(case["dwm"] // 8) for op in case["ops"]):
        # known finding: transfers not wider than the narrow bus keep their size but are still expanded to `ratio` beats from
        # the wide-aligned address (never generated; the witnesses are replayed)
        r["key"] = "c10:down-narrow-size"
    return r


def _run_conv(case):
    import random
    from migen import Module
    from litex.soc.interconnect import axi
    direction = case["dir"]
    dwm, dws = case["dwm"], case["dws"]
    nbm, nbs = dwm // 8, dws // 8
    base = case["base"]
    m = axi.AXIInterface(data_width=dwm, address_width=32, id_width=case["idw"])
    s = axi.AXIInterface(data_width=dws, address_width=32, id_width=case["idw"])
    top = Module()
    kind = case["kind"]
    try:
        if kind == "up":
            top.submodules.dut = axi.AXIUpConverter(m, s)
        elif kind == "down":
            top.submodules.dut = axi.AXIDownConverter(m, s)
        else:
            top.submodules.dut = axi.AXIConverter(m, s)
    except AssertionError as e:
        # every generated pair of widths is a legal AXI width with an integer ratio 1/2/4/8
        return bad("rejected", "%s rejects %d -> %d bit: %r" % (kind, dwm, dws, e), key="c10:conv-rejected", cycles=0)
    rng = random.Random(case["seed"])
    init = [rng.randrange(256) for _ in range(WINDOW)]
    model = bytearray(init)
    smem = bytearray(init)
    ops = []
    for i, o in enumerate(case["ops"]):
        o = dict(o)
        if o["we"]:
            o["beats"] = _write_beats(o, nbm, random.Random(case["seed"] * 131 + i))
        ops.append(o)
    err_lo = base + HALF if case["err"] else None
    errf = (lambda a: err_lo is not None and a >= err_lo)
    narrow = min(nbm, nbs)
    T = sum((o["len"] + 1) * (max(nbm, nbs) // narrow if direction == "down" else 1) for o in ops)
    until = 60 + 5 * T
    master = axi4.AXI4Master(m, ops, case["ms"], K=case["K"], w_after_aw=case["w_after_aw"], garbage_seed=case["gm"], until=until)
    gs = case["gs"]
    slave = axi4.AXI4MemSlave(s, smem, case["ss"], Q=case["Q"], wait_valid=case["wait_valid"], err=errf, base=base,
                              garbage_b=None if gs is None else gs + 11,
                              garbage_r=None if (gs is None or case["rmode"] == "constant-sideband") else gs + 12,
                              until=until, w_needs_aw=case["w_needs_aw"], pad_seed=case["seed"] + 7)
    cyc = bench.run(top, [master, slave], until + 4 * T + 300, stop=lambda t: master.finished())
    dname = {"up": "AXIUpConverter", "down": "AXIDownConverter", "conv": "AXIConverter"}[kind]
    ctx = "%s %d->%d bit K=%d Q=%d w_after_aw=%r wait_valid=%r w_needs_aw=%r" % (
        dname, dwm, dws, case["K"], case["Q"], case["w_after_aw"], case["wait_valid"], case["w_needs_aw"])
    cls = ["dut:" + dname, "dir:" + direction, "ratio:%d" % (max(nbm, nbs) // narrow), "K=%d" % case["K"]]
    if direction == "down":
        cls.append("rmode:" + case["rmode"])
    kd = direction

    def opdesc(p):
        o = ops[p]
        return "op %d (%s %s addr=%#x len=%d size=%d id=%d)" % (p, "write" if o["we"] else "read", BNAME[o["burst"]], o["addr"], o["len"],
                                                               o["size"], o["id"])

    # ---- hold rule on everything the converter drives
    hv = slave.hold_violations()
    if hv:
        c_, txt = min(hv)
        return bad("slave-side-hold", "%s: cycle %d: %s" % (ctx, c_, txt), key="c10:conv-hold:" + kd, cls=cls, cycles=cyc)
    hv = master.hold_violations()
    if hv:
        c_, txt = min(hv)
        side = direction == "down" and txt.startswith("R changed") and "data" not in txt and "last" not in txt
        return bad("master-side-hold", "%s: cycle %d: %s (towards the master)" % (ctx, c_, txt),
                   key="c10:down-r-sideband" if side else "c10:conv-hold:" + kd, cls=cls, cycles=cyc)
    # ---- what the converter sent to the slave as a master
    if slave.audit:
        return bad("slave-side-burst", "%s: %s" % (ctx, slave.audit[0]), key="c10:conv-burst:" + kd, cls=cls, cycles=cyc)
    # ---- R stream framing (beats received so far, attributed by count)
    for j, p in enumerate(master.ridx):
        n = ops[p]["len"] + 1
        for i, (c_, data, resp, rid, last) in enumerate(master.rres[j]):
            if last != int(i == n - 1):
                return bad("r-last", "%s: %s: R beat %d of %d (cycle %d) has last=%d" % (ctx, opdesc(p), i, n, c_, last),
                           key="c10:conv-framing:" + kd, cls=cls, cycles=cyc)
    if master.extra_r or master.extra_b:
        return bad("extra-response", "%s: responses beyond the requests: %d R beats, %d B" % (ctx, len(master.extra_r), len(master.extra_b)),
                   key="c10:conv-framing:" + kd, cls=cls, cycles=cyc)
    if not master.finished():
        p = next(i for i, d in enumerate(master.done) if not d)
        return bad("termination", "%s: %s never completed (%d cycles; %s)" % (ctx, opdesc(p), cyc, slave.state()),
                   key="c10:conv-hang:" + kd, cls=cls, cycles=cyc)
    # ---- requests: exactly one per burst
    if len(slave.writes) != len(master.widx) or len(slave.reads) != len(master.ridx) or len(slave.aw.got) != len(master.widx):
        return bad("request-count", "%s: %d writes / %d reads issued, %s" % (ctx, len(master.widx), len(master.ridx), slave.state()),
                   key="c10:conv-burst:" + kd, cls=cls, cycles=cyc)
    # ---- scoreboard in program order (conflicting bursts were serialised)
    stalled_multi = False
    wn = rn = 0
    for p, o in enumerate(ops):
        addrs = axi4.burst_addresses(o["addr"], o["len"], o["size"], o["burst"])
        in_err = errf(o["addr"])
        if o["we"]:
            exp = []
            for a, (data, strb) in zip(addrs, o["beats"]):
                for x in axi4.active_bytes(a, o["size"]):
                    lane = x % nbm
                    if (strb >> lane) & 1:
                        exp.append((x, (data >> (8 * lane)) & 0xff))
            got = slave.writes[wn]["bytes"]
            if got != exp:
                k = next((i for i, (g, e) in enumerate(zip(got, exp)) if g != e), min(len(got), len(exp)))
                return bad("write-bytes", "%s: %s: byte writes seen by the slave differ from those sent at position %d: slave %s, master %s "
                           "(%d vs %d bytes; slave-side AW %r)" % (ctx, opdesc(p), k, _fmt(got[k:k + 3]), _fmt(exp[k:k + 3]), len(got), len(exp),
                                                                  slave.writes[wn]["aw"]),
                           key="c10:conv-data:" + kd, cls=cls, cycles=cyc)
            if not in_err:
                for x, v in exp:
                    model[x - base] = v
            c_, resp, bid = master.bres[wn]
            if bid != o["id"]:
                return bad("b-id", "%s: %s answered with B id %d" % (ctx, opdesc(p), bid), key="c10:conv-id:" + kd, cls=cls, cycles=cyc)
            if (resp != 0) != in_err:
                return bad("b-resp", "%s: %s answered with B resp %d (slave: %s)" % (ctx, opdesc(p), resp, "SLVERR" if in_err else "OKAY"),
                           key="c10:conv-resp:" + kd, cls=cls, cycles=cyc)
            c_aw = master.aw.sent[wn][0]
            c_wl = master.w.sent[master.w_lastbeat[wn]][0]
            if c_ <= max(c_aw, c_wl):
                return bad("b-early", "%s: %s: B in cycle %d, AW accepted in cycle %d, last W beat in cycle %d" % (ctx, opdesc(p), c_, c_aw, c_wl),
                           key="c10:conv-framing:" + kd, cls=cls, cycles=cyc)
            wn += 1
        else:
            beats = master.rres[rn]
            for i, (a, (c_, data, resp, rid, last)) in enumerate(zip(addrs, beats)):
                if rid != o["id"]:
                    return bad("r-id", "%s: %s: R beat %d (cycle %d) carries id %d" % (ctx, opdesc(p), i, c_, rid),
                               key="c10:down-r-sideband" if direction == "down" else "c10:conv-id:" + kd, cls=cls, cycles=cyc)
                if (resp != 0) != in_err:
                    return bad("r-resp", "%s: %s: R beat %d (cycle %d) has resp %d (slave: %s on every beat)" %
                               (ctx, opdesc(p), i, c_, resp, "SLVERR" if in_err else "OKAY"),
                               key="c10:down-r-sideband" if direction == "down" else "c10:conv-resp:" + kd, cls=cls, cycles=cyc)
                if in_err:
                    continue
                for x in axi4.active_bytes(a, o["size"]):
                    lane = x % nbm
                    v = (data >> (8 * lane)) & 0xff
                    if v != model[x - base]:
                        return bad("read-data", "%s: %s: R beat %d byte %#x (lane %d) is %#04x, flat memory holds %#04x (beat data %#x)" %
                                   (ctx, opdesc(p), i, x, lane, v, model[x - base], data),
                                   key="c10:conv-data:" + kd, cls=cls, cycles=cyc)
            rn += 1
        if o["len"] >= 1:
            stalled_multi = True
    if bytes(smem[:HALF]) != bytes(model[:HALF]) or (not case["err"] and smem != model):
        k = next(i for i in range(WINDOW) if smem[i] != model[i])
        return bad("slave-memory", "%s: byte %#x of the slave memory is %#04x, model %#04x" % (ctx, base + k, smem[k], model[k]),
                   key="c10:conv-data:" + kd, cls=cls, cycles=cyc)
    counts = {}
    for o in ops:
        for lab in (BNAME[o["burst"]], ("write" if o["we"] else "read") + ":" + _len_class(o["len"] + 1)):
            counts[lab] = counts.get(lab, 0) + 1
        if o["addr"] % nbm:
            counts["unaligned-start"] = counts.get("unaligned-start", 0) + 1
        if errf(o["addr"]):
            counts["error-range-burst"] = counts.get("error-range-burst", 0) + 1
        n_slave = (o["len"] + 1) * (nbm // nbs) if direction == "down" else (o["len"] + 1)
        if direction == "down" and n_slave == 256:
            counts["down:256-beat-slave-burst"] = counts.get("down:256-beat-slave-burst", 0) + 1
    backp = master.mon_r.stalled + master.mon_b.stalled + slave.mon_w.stalled + slave.mon_aw.stalled + slave.mon_ar.stalled
    if master.mon_r.stalled:
        cls.append("R-stalled-by-master")
    if slave.mon_w.stalled:
        cls.append("W-stalled-by-slave")
    if case["K"] > 1:
        cls.append("two-outstanding")
    return ok(nt=bool(stalled_multi and backp), cls=cls, counts=counts, cycles=cyc)


def _fmt(pairs):
    return "[" + ", ".join("%#x<=%#04x" % (a, v) for a, v in pairs) + "]"


# ------------------------------------------------------------------------------------- AXIDownConverter read side-band

def enum_sideband(tier):
    """AXIDownConverter read bursts with a non-zero id / an error response while the master stalls R"""
    cases = []
    widths = [(16, 8), (32, 8), (64, 8), (64, 32)]
    lengths = (0, 1)
    if tier != "quick":
        widths += [(128, 32), (256, 32), (32, 16), (64, 16), (128, 16), (128, 64), (256, 64), (256, 128)]
        lengths = (0, 1, 3)
    rscheds = [("always", ["const", 1]), ("per10-0", ["per", [1, 0], 0]), ("per10-1", ["per", [1, 0], 1]), ("per100", ["per", [1, 0, 0], 2]),
               ("late", ["pre", 12, 0, ["const", 1]])]
    for dwm, dws in widths:
        for length in lengths:
            for rid, err in ((1, False), (15, False), (0, True), (5, True)):
                for rname, rs in rscheds:
                    for garbage in (None, 77):
                        one = ["const", 1]
                        cases.append({"kind": "down", "dir": "down", "dwm": dwm, "dws": dws, "idw": 4, "base": 0, "K": 1, "Q": 1,
                                      "w_after_aw": True, "wait_valid": False, "w_needs_aw": False, "gm": None, "gs": garbage,
                                      "seed": length + dwm, "err": err, "rmode": "free", "rname": rname,
                                      "ms": {"aw": one, "w": one, "ar": one, "b": one, "r": rs},
                                      "ss": {"aw": one, "w": one, "ar": one, "b": one, "r": one},
                                      "ops": [{"we": 0, "burst": INCR, "len": length, "size": _log2(dwm // 8),
                                               "addr": (HALF if err else 0) + 2 * (dwm // 8), "id": rid}]})
    return cases


def subchecks():
    return [
        Sub("burst2beat-classes", run_b2b, enum=enum_classes, exhaustive=True, timeout=(600, 7200),
            rule="every (burst, len, size) class x capability set; quick: 1 start address per class (8 variants rotating), "
                 "thorough: 8 per class; WRAP: every start position of the window"),
        Sub("burst2beat-generated", run_b2b, strategy=st_b2b, examples=(3000, 60000),
            rule="1..6 generated legal bursts, generated offer/ready schedules, idle garbage"),
        Sub("converters", run_conv, strategy=st_conv, examples=(1600, 32000), timeout=(900, 20000),
            rule="Up/Down/AXIConverter ratio 2/4/8, 2..5 (thorough ..10) bursts, 1-2 outstanding, error range, byte scoreboard"),
        Sub("down-r-sideband", run_conv, enum=enum_sideband, exhaustive=True,
            rule="AXIDownConverter: one read burst (len 0/1, thorough 0/1/3) with non-zero id or SLVERR x R ready patterns that stall a valid beat x idle slave zeros/garbage"),
    ]

"""C18 - ECC corrects every single-bit error and flags every double-bit error."""
import itertools

from hypothesis import strategies as st

from vlib.runner import Sub, ok, bad, skip
from vlib import bench

LEVEL = "fault_enumeration"
RULE = ("real ECCEncoder -> XOR flip mask -> real ECCDecoder evaluated in the simulator, one settle per vector; "
        "small k: ALL data words x ALL 0/1/2-flip patterns (exhaustive); larger k: zero/all-ones/generated words x all single "
        "flips, generated double flips (always including parity-bit and adjacent pairs), linearity sub-check; "
        "a case = (k, block of words, pattern set); non-trivial = case contains at least one double flip and one "
        "single flip of a check bit; distinct = canonical JSON of the case")
ASSUMPTIONS = ["Migen's simulator (site-packages) defines FHDL semantics",
               "for k > exhaustive bound, decoder flags are read as depending on the flip pattern only (checked by the linearity sub-check on generated (word, pattern) pairs)"]


def _mn(k):
    m = 1
    while 2 ** m < m + k + 1:
        m += 1
    return m, m + k


def data_bit_indices(k):
    """textbook Hamming layout: code word positions 1..n, powers of two are check bits; bit 0 of the
    ECC word is the overall parity, position p sits at bit p."""
    m, n = _mn(k)
    return [p for p in range(1, n + 1) if p & (p - 1)][:k]


def evaluate(k, vectors):
    """vectors: list of (word, flipmask, enable) -> list of (o, sec, ded, enc_o)"""
    from migen import Module, Signal
    from litex.soc.cores.ecc import ECCEncoder, ECCDecoder

    class Top(Module):
        def __init__(self):
            self.submodules.enc = ECCEncoder(k)
            self.submodules.dec = ECCDecoder(k)
            self.flip = Signal(len(self.enc.o))
            self.comb += self.dec.i.eq(self.enc.o ^ self.flip)

    top = Top()
    res = []

    class Agent:
        def signals(self):
            return [top.dec.o, top.dec.sec, top.dec.ded, top.enc.o]

        def step(self, t, vals):
            if 1 <= t <= len(vectors):
                res.append(tuple(vals))
            if t < len(vectors):
                w, f, en = vectors[t]
                return [top.enc.i.eq(w), top.flip.eq(f), top.dec.enable.eq(en)]
            return None

    bench.run(top, [Agent()], len(vectors) + 2)
    return res


def judge(k, vectors, res):
    m, n = _mn(k)
    dbits = data_bit_indices(k)
    for (w, f, en), (o, sec, ded, enc_o) in zip(vectors, res):
        nf = bin(f).count("1")
        if not en:
            r = enc_o ^ f
            exp = 0
            for i, b in enumerate(dbits):
                exp |= ((r >> b) & 1) << i
            if o != exp:
                return "disabled", "k=%d word=%#x flips=%#x disabled: o=%#x, data bits of input are %#x" % (k, w, f, o, exp)
            continue
        if nf == 0:
            if (o, sec, ded) != (w, 0, 0):
                return "clean", "k=%d word=%#x no flip: o=%#x sec=%d ded=%d" % (k, w, o, sec, ded)
        elif nf == 1:
            parity_bit = (f == 1)
            if o != w:
                return "single-data", "k=%d word=%#x flip bit %d: o=%#x" % (k, w, f.bit_length() - 1, o)
            if ded:
                return "single-ded", "k=%d word=%#x flip bit %d: ded=1" % (k, w, f.bit_length() - 1)
            if not parity_bit and not sec:
                return "single-sec", "k=%d word=%#x flip bit %d (data/check bit): sec=0" % (k, w, f.bit_length() - 1)
            if parity_bit and sec:
                return "single-sec", "k=%d word=%#x flip of the overall parity bit reported as corrected data/check error" % (k, w)
        elif nf == 2:
            if not ded or sec:
                bits = [i for i in range(n + 1) if (f >> i) & 1]
                return "double", "k=%d word=%#x flips %r: sec=%d ded=%d (o=%#x)" % (k, w, bits, sec, ded, o)
    return None


def patterns(nbits, doubles=True):
    out = [0] + [1 << i for i in range(nbits)]
    if doubles:
        out += [(1 << i) | (1 << j) for i, j in itertools.combinations(range(nbits), 2)]
    return out


# ------------------------------------------------------------------------------------ exhaustive small k

def enum_small(tier):
    kmax = 8 if tier == "quick" else 12
    cases = []
    for k in range(1, kmax + 1):
        blk = 16 if k <= 8 else 8
        for lo in range(0, 1 << k, blk):
            cases.append({"k": k, "lo": lo, "hi": min(1 << k, lo + blk)})
    return cases


def run_small(case):
    k = case["k"]
    m, n = _mn(k)
    pats = patterns(n + 1)
    vectors = [(w, f, 1) for w in range(case["lo"], case["hi"]) for f in pats]
    vectors += [(w, f, 0) for w in range(case["lo"], case["hi"]) for f in pats[:n + 2]]
    res = evaluate(k, vectors)
    v = judge(k, vectors, res)
    if v:
        return bad(v[0], v[1], key="ecc:" + v[0], counts={"vectors": len(vectors)})
    return ok(nt=True, cls=["k=%d" % k], counts={"vectors": len(vectors)}, cycles=len(vectors))


# ------------------------------------------------------------------------------------ larger k (generated)

def st_large(tier):
    @st.composite
    def case(draw):
        ks = [9, 10, 11, 12, 13, 16, 24, 25, 26, 27, 32, 56, 57, 58, 64] if tier == "quick" else list(range(9, 129))
        k = draw(st.sampled_from(ks))
        m, n = _mn(k)
        words = [0, (1 << k) - 1] + draw(st.lists(st.integers(0, (1 << k) - 1), min_size=1, max_size=2))
        npairs = 30 if k <= 32 else 12
        pairs = draw(st.lists(st.tuples(st.integers(0, n), st.integers(0, n)).filter(lambda p: p[0] != p[1]),
                              min_size=npairs, max_size=npairs))
        a = draw(st.integers(0, n - 1))
        pairs += [(0, draw(st.integers(1, n))), (a, a + 1), (draw(st.sampled_from([1, 2, 4, 8])), draw(st.integers(0, n)))]
        pairs = [list(p) for p in pairs if p[0] != p[1]]
        return {"k": k, "words": words, "pairs": pairs, "single_from": draw(st.integers(0, n))}
    return case()


def run_large(case):
    k = case["k"]
    m, n = _mn(k)
    words = case["words"]
    singles = [1 << i for i in range(n + 1)]
    if k > 40:
        # all single flips for the first word, a rotating third for the others (cost: 60-240 ms per vector at these widths)
        s0 = case["single_from"]
        part = [singles[(s0 + 3 * i) % (n + 1)] for i in range((n + 1) // 3)]
    vectors = []
    for wi, w in enumerate(words):
        sl = singles if (k <= 40 or wi == 0) else part
        vectors += [(w, 0, 1)] + [(w, f, 1) for f in sl]
        prs = case["pairs"] if wi < 2 else case["pairs"][:6]
        vectors += [(w, (1 << a) | (1 << b), 1) for a, b in prs]
        vectors += [(w, (1 << case["pairs"][0][0]), 0), (w, 0, 0)]
    res = evaluate(k, vectors)
    v = judge(k, vectors, res)
    if v:
        return bad(v[0], v[1], key="ecc:" + v[0], counts={"vectors": len(vectors)})
    # linearity: encoder output is linear, decoder flags depend on the pattern only
    enc = {}
    flags = {}
    for (w, f, en), (o, sec, ded, eo) in zip(vectors, res):
        enc[w] = eo
        if en:
            flags.setdefault(f, set()).add((sec, ded, o ^ w))
    for f, s in flags.items():
        if len(s) > 1:
            return bad("pattern-only", "k=%d: flags/correction for flip pattern %#x depend on the data word: %r" % (k, f, sorted(s)),
                       key="ecc:linearity")
    if len(words) >= 4:
        a, b = words[2], words[3] if len(words) > 3 else words[2]
        x = a ^ b
        if x in enc and enc[a] ^ enc[b] != enc[x] ^ enc[0]:
            return bad("linear", "k=%d: enc(a^b) != enc(a)^enc(b)" % k, key="ecc:linearity")
    return ok(nt=True, cls=["k=%d" % k], counts={"vectors": len(vectors)}, cycles=len(vectors))


# ------------------------------------------------------------------------------------ every width (enumerated)

def enum_widths(tier):
    return [{"k": k, "all": tier != "quick"} for k in range(9, 129)]


def run_widths(case):
    """every data width 9..128: no flip and single flips at the first, last, power-of-two and neighbouring code word positions
    (thorough: at every position) for the all-ones word and a word derived from the width"""
    k = case["k"]
    m, n = _mn(k)
    if case.get("all"):
        pos = list(range(n + 1))
    else:
        pos = sorted({p for p in [0, 1, 2, 3, 4, 5, 7, 8, 9, 15, 16, 17, 31, 32, 33, 63, 64, 65, 127, 128, n - 2, n - 1, n] if 0 <= p <= n})
    words = [(1 << k) - 1, (0x9E3779B97F4A7C15F39CC0605CEDC834 * (k + 1) >> 3) & ((1 << k) - 1)]
    vectors = []
    for w in words:
        vectors += [(w, 0, 1)] + [(w, 1 << p_, 1) for p_ in pos]
    vectors += [(words[1], 1 << pos[-1], 0)]
    res = evaluate(k, vectors)
    v = judge(k, vectors, res)
    if v:
        return bad(v[0], v[1], key="ecc:" + v[0], counts={"vectors": len(vectors)})
    return ok(nt=True, cls=["k=%d" % k], counts={"vectors": len(vectors)}, cycles=len(vectors))


def subchecks():
    return [
        Sub("small-exhaustive", run_small, enum=enum_small, exhaustive=True, timeout=(900, 20000),
            rule="k=1..8 (thorough 1..12): all words x all 0/1/2-flip patterns + disabled pass-through"),
        Sub("all-widths", run_widths, enum=enum_widths, exhaustive=True, timeout=(900, 20000),
            rule="every data width 9..128: single flips at the boundary / power-of-two positions of the code word (thorough: every position)"),
        Sub("large", run_large, strategy=st_large, examples=(48, 1500), timeout=(900, 20000),
            rule="k in 9..128: boundary/generated words x all single flips x generated double flips; linearity"),
    ]

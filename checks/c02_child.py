"""child process of C02/hashseed: reads a case (JSON) on stdin, prints the normalised Verilog text."""
import sys, os, json
HERE = os.path.dirname(os.path.dirname(os.path.abspath(__file__)))
sys.path.insert(0, HERE)
from vlib import env
env.install()
from checks import C02
case = json.load(sys.stdin)
try:
    out = env.isolated(C02._convert, case, 0)
except Exception as e:
    sys.stderr.write(repr(e))
    sys.exit(3)
sys.stdout.write(C02._norm(out.main_source))
for k in sorted(out.data_files):
    sys.stdout.write(k + "\n" + out.data_files[k])

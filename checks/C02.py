"""C02 - Verilog identifiers are unique, legal and reproducible (DESIGN.md section 4, C02)."""
import re

from hypothesis import strategies as st

from vlib.runner import Sub, ok, bad, skip

RULE = ("generated sets of signals with hierarchical back-traces, related chains, name overrides and "
        "request orders (sub 'namespace'), and generated module trees written out as Python source, "
        "elaborated twice and converted (sub 'modules'); non-trivial = at least two signals share a "
        "leaf name, or an override/attribute equals a would-be generated name or a keyword; distinct "
        "= canonical JSON of the case")
ASSUMPTIONS = ["names supplied by users are syntactically legal identifiers (Migen's Signal() rejects others)",
               "keyword oracle: IEEE 1800-2017 Annex B list typed into the harness independently of the repository's table",
               "tracer shim (vlib/env.py) stands in for Migen's byte-code tracer on CPython 3.12"]

# IEEE 1800-2017 Annex B (keywords), typed independently of litex/gen/fhdl/verilog.py
KEYWORDS = set("""
accept_on alias always always_comb always_ff always_latch and assert assign assume automatic before
begin bind bins binsof bit break buf bufif0 bufif1 byte case casex casez cell chandle checker class
clocking cmos config const constraint context continue cover covergroup coverpoint cross deassign
default defparam design disable dist do edge else end endcase endchecker endclass endclocking
endconfig endfunction endgenerate endgroup endinterface endmodule endpackage endprimitive endprogram
endproperty endspecify endsequence endtable endtask enum event eventually expect export extends
extern final first_match for force foreach forever fork forkjoin function generate genvar global
highz0 highz1 if iff ifnone ignore_bins illegal_bins implements implies import incdir include
initial inout input inside instance int integer interconnect interface intersect join join_any
join_none large let liblist library local localparam logic longint macromodule matches medium
modport module nand negedge nettype new nexttime nmos nor noshowcancelled not notif0 notif1 null or
output package packed parameter pmos posedge primitive priority program property protected pull0
pull1 pulldown pullup pulsestyle_ondetect pulsestyle_onevent pure rand randc randcase randsequence
rcmos real realtime ref reg reject_on release repeat restrict return rnmos rpmos rtran rtranif0
rtranif1 s_always s_eventually s_nexttime s_until s_until_with scalared sequence shortint shortreal
showcancelled signed small soft solve specify specparam static string strong strong0 strong1 struct
super supply0 supply1 sync_accept_on sync_reject_on table tagged task this throughout time
timeprecision timeunit tran tranif0 tranif1 tri tri0 tri1 triand trior trireg type typedef union
unique unique0 unsigned until until_with untyped use uwire var vectored virtual void wait
wait_order wand weak weak0 weak1 while wildcard wire with within wor xnor xor
""".split())

IDENT = re.compile(r"^[A-Za-z_][A-Za-z0-9_$]*$")

# small alphabets so that collisions are frequent
STEP_NAMES = ["a", "b", "x", "x_1", "x1", "x0", "x_0", "a_b", "b_1", "a_x", "sink", "data", "mem", "reg", "wire",
              "repeat", "union", "uwire", "always", "fsm", "state", "x_1_1", "a_1", "a1"]
OVERRIDES = STEP_NAMES + ["x_2", "a_b_1", "sink_data", "sys_clk", "x_x", "a_a", "module", "input", "do",
                          "mem_1", "mem_adr0", "mem_dat0", "x_1_2", "fsm_state", "a_b_x"]


def _legal(name):
    return isinstance(name, str) and bool(IDENT.match(name)) and name not in KEYWORDS


# --------------------------------------------------------------------------------- sub: namespace

def st_namespace(tier):
    step = st.tuples(st.sampled_from(STEP_NAMES), st.integers(0, 3))

    @st.composite
    def sigs(draw):
        n = draw(st.integers(2, 14 if tier == "quick" else 40))
        out = []
        # a pool of prefixes so that hierarchies repeat
        prefixes = draw(st.lists(st.lists(step, min_size=0, max_size=3), min_size=1, max_size=4))
        for i in range(n):
            pre = draw(st.sampled_from(prefixes))
            leaf = draw(st.lists(step, min_size=1, max_size=2))
            rel = None
            if i and draw(st.integers(0, 3)) == 0:
                rel = draw(st.integers(0, i - 1))
            ovr = draw(st.one_of(st.none(), st.none(), st.sampled_from(OVERRIDES)))
            out.append({"bt": [list(s) for s in pre + leaf], "rel": rel, "ovr": ovr})
        order = draw(st.permutations(list(range(n))))
        return {"sigs": out, "order": list(order), "shift": draw(st.integers(0, 5))}
    return sigs()


def _depth(sigs, i):
    d = 0
    while sigs[i]["rel"] is not None:
        i = sigs[i]["rel"]
        d += 1
    return d


def _build_ns(case, shift):
    from migen.fhdl.structure import Signal
    from litex.gen.fhdl.namer import build_signal_namespace
    from litex.gen.fhdl.verilog import _ieee_1800_2017_verilog_reserved_keywords as kw
    for _ in range(shift):
        Signal()  # shifts DUIDs: must be irrelevant
    objs = []
    for d in case["sigs"]:
        s = Signal(name_override=d["ovr"])
        s.backtrace = [tuple(x) for x in d["bt"]]
        s.related = objs[d["rel"]] if d["rel"] is not None else None
        objs.append(s)
    ns = build_signal_namespace(set(objs), kw)
    names = {}
    for i in case["order"]:
        names[i] = ns.get_name(objs[i])
    again = {i: ns.get_name(objs[i]) for i in range(len(objs))}
    return names, again


def run_namespace(case):
    sigs = case["sigs"]
    if any(_depth(sigs, i) > 3 for i in range(len(sigs))):
        return skip("related chain deeper than 3")
    names, again = _build_ns(case, 0)
    leafs = [s["bt"][-1][0] for s in sigs]
    ovrs = [s["ovr"] for s in sigs if s["ovr"]]
    nt = (len(set(leafs)) < len(leafs)) or any(o in KEYWORDS or re.search(r"_\d+$", o) for o in ovrs) \
        or any(l in KEYWORDS for l in leafs)
    cls = []
    if any(o in KEYWORDS for o in ovrs) or any(l in KEYWORDS for l in leafs):
        cls.append("keyword-as-name")
    if len(set(ovrs)) < len(ovrs):
        cls.append("equal-overrides")
    if any(s["rel"] is not None for s in sigs):
        cls.append("related")
    # stability
    for i, n in names.items():
        if again[i] != n:
            return bad("stable", "signal %d: first %r later %r" % (i, n, again[i]), key="unstable-name", cls=cls)
    # injectivity
    seen = {}
    for i in case["order"]:
        n = names[i]
        if n in seen:
            return bad("injective", "signals %d and %d both named %r (overrides %r/%r, backtraces %r/%r)" % (
                seen[n], i, n, sigs[seen[n]]["ovr"], sigs[i]["ovr"], sigs[seen[n]]["bt"], sigs[i]["bt"]),
                key="ns-collision", cls=cls)
        seen[n] = i
    # legality
    for i, n in names.items():
        if not _legal(n):
            kind = "keyword" if n in KEYWORDS else "syntax"
            return bad("legal", "signal %d gets %r (%s)" % (i, n, kind), key="illegal-" + kind + ":" + n, cls=cls)
    # reproducibility: an independent copy (other DUIDs) gets the same names
    names2, _ = _build_ns(case, 1 + case["shift"])
    if names2 != names:
        diff = [(i, names[i], names2[i]) for i in names if names[i] != names2[i]]
        return bad("reproducible", "names differ between two constructions: %r" % diff[:4], key="irreproducible", cls=cls)
    return ok(nt=nt, cls=cls)


# --------------------------------------------------------------------------------- sub: modules

VATTRS = ["keep", "no_retiming", "async_reg", "mr_ff", "ars_ff1", ["iostandard", "LVCMOS33"], ["slew", "FAST"], ["drive", 8]]
XLATE = {"keep": ("keep", "true"), "no_retiming": ("dont_touch", "true"), "async_reg": ("async_reg", "true"),
         "mr_ff": ("mr_ff", "true"), "ars_ff1": ("ars_ff1", "true")}

ATTRS = ["a", "b", "x", "x_1", "x1", "a_b", "sink", "data", "reg", "wire", "repeat", "union", "uwire", "state",
         "mem", "mem_1", "always", "x0", "b_1", "storage", "x_2",
         # names the memory generator gives its own address / data registers (<memory>_adr<port>, <memory>_dat<port>)
         "mem_adr0", "mem_dat0", "mem_1_adr0", "storage_dat0",
         # names the clock domains give their own signals
         "sys_clk", "sys_rst", "por_clk", "sys_clk_1",
         # names that differ from others in case only (distinct identifiers in Verilog)
         "X", "A", "Data", "A_b"]


def st_modules(tier):
    @st.composite
    def mods(draw):
        ncls = draw(st.integers(1, 4 if tier == "quick" else 6))
        classes = []
        for ci in range(ncls):
            nsig = draw(st.integers(1, 4))
            sig_attrs = draw(st.lists(st.sampled_from(ATTRS), min_size=nsig, max_size=nsig, unique=True))
            sigs = [{"attr": a, "w": draw(st.integers(1, 4)), "kind": draw(st.sampled_from(["attr", "attr", "local", "named"])),
                     "vattr": [VATTRS[i] for i in draw(st.lists(st.integers(0, len(VATTRS) - 1), max_size=4, unique=True))]}
                    for a in sig_attrs]
            nanon = draw(st.integers(0, 2))
            subs = []
            if ci + 1 < ncls:
                for _ in range(draw(st.integers(0, 3))):
                    subs.append({"attr": draw(st.one_of(st.none(), st.sampled_from(ATTRS))),
                                 "cls": draw(st.integers(ci + 1, ncls - 1))})
            mems = []
            for _ in range(draw(st.integers(0, 2))):
                mems.append({"attr": draw(st.one_of(st.none(), st.sampled_from(["mem", "mem_1", "storage", "reg", "x"]))),
                             "named": draw(st.one_of(st.none(), st.sampled_from(["mem", "mem_1", "wire", "x_1"]))),
                             "read_first": draw(st.booleans())})
            insts = []
            for _ in range(draw(st.integers(0, 2))):
                insts.append({"of": draw(st.sampled_from(["FOO", "BAR", "CELL_X"])),
                              "name": draw(st.one_of(st.none(), st.sampled_from(["u0", "x", "x_1", "FOO", "wire"])))})
            rec = draw(st.booleans())
            cd = "sys" if ci == 0 else draw(st.sampled_from([None, None, "por", "x"]))
            classes.append({"sigs": sigs, "anon": nanon, "subs": subs, "mems": mems, "insts": insts, "rec": rec, "cd": cd})
        for c in classes:
            for k, sub in enumerate(c["subs"]):
                # Migen: submodules with local clock domains cannot be anonymous
                if sub["attr"] is None and classes[sub["cls"]]["cd"]:
                    sub["attr"] = "sub%d" % k
        return {"classes": classes, "pre": draw(st.integers(0, 2)), "sub_ios": draw(st.integers(0, 3)) == 0}
    return mods()


def _source(case):
    """Python source text for the generated module tree (so that the tracer sees real byte-code)."""
    L = ["from migen import Module, Signal, Memory, Instance, ClockDomain, Record, Cat", "from migen.fhdl.specials import READ_FIRST",
         ""]
    classes = case["classes"]
    for ci in reversed(range(len(classes))):
        c = classes[ci]
        L.append("class M%d(Module):" % ci)
        L.append("    def __init__(self):")
        L.append("        self.i = Signal(4)")
        L.append("        self.o = Signal(4)")
        L.append("        acc = [self.i]")
        for s in c["sigs"]:
            va = ""
            if s.get("vattr"):
                va = ", attr={%s}" % ", ".join(repr(tuple(a)) if isinstance(a, list) else repr(a) for a in s["vattr"])
            if s["kind"] == "attr":
                L.append("        self.%s = Signal(%d%s)" % (s["attr"], s["w"], va))
                L.append("        v = self.%s" % s["attr"])
            elif s["kind"] == "local":
                L.append("        %s = Signal(%d%s)" % (s["attr"], s["w"], va))
                L.append("        v = %s" % s["attr"])
            else:
                L.append("        v = Signal(%d, name=%r%s)" % (s["w"], s["attr"], va))
            L.append("        self.sync += v.eq(acc[-1] + 1)")
            L.append("        acc.append(v)")
        if c["anon"]:
            L.append("        anon = [Signal(2) for _ in range(%d)]" % c["anon"])
            L.append("        for v in anon:")
            L.append("            self.comb += v.eq(acc[-1][:2])")
            L.append("            acc.append(v)")
        if c["rec"]:
            L.append("        self.rec = Record([('data', 3), ('x', 1)])")
            L.append("        self.comb += [self.rec.data.eq(acc[-1]), self.rec.x.eq(acc[0][0])]")
            L.append("        acc.append(self.rec.data)")
            L.append("        acc.append(self.rec.x)")
        if c["cd"]:
            L.append("        self.clock_domains.cd_%s = ClockDomain(%r)" % (c["cd"], c["cd"] if c["cd"] != "x" else "x%d" % ci))
            if c["cd"] != "sys":
                L.append("        self.comb += [self.cd_%s.clk.eq(self.i[0]), self.cd_%s.rst.eq(self.i[1])]" % (c["cd"], c["cd"]))
        for k, sub in enumerate(c["subs"]):
            if sub["attr"]:
                L.append("        self.submodules.%s = sub = M%d()" % (sub["attr"] + "_m", sub["cls"]))
            else:
                L.append("        sub = M%d()" % sub["cls"])
                L.append("        self.submodules += sub")
            L.append("        self.comb += sub.i.eq(acc[-1])")
            L.append("        acc.append(sub.o)")
        for k, m in enumerate(c["mems"]):
            nm = (", name=%r" % m["named"]) if m["named"] else ""
            if m["attr"]:
                L.append("        self.specials.%s = mem = Memory(4, 4, init=[1, 2, 3]%s)" % (m["attr"] + "_s", nm))
            else:
                L.append("        mem = Memory(4, 4%s)" % nm)
                L.append("        self.specials += mem")
            L.append("        port = mem.get_port(write_capable=True%s)" % (", mode=READ_FIRST" if m.get("read_first") else ""))
            L.append("        self.specials += port")
            L.append("        self.comb += [port.adr.eq(acc[-1]), port.dat_w.eq(acc[0]), port.we.eq(acc[-1][0])]")
            L.append("        acc.append(port.dat_r)")
        for k, ins in enumerate(c["insts"]):
            nm = (", name=%r" % ins["name"]) if ins["name"] else ""
            L.append("        io%d = Signal(4)" % k)
            L.append("        self.specials += Instance(%r, i_a=acc[-1], o_b=io%d%s)" % (ins["of"], k, nm))
            L.append("        acc.append(io%d)" % k)
        L.append("        r = acc[0]")
        L.append("        for v in acc[1:]:")
        L.append("            r = r ^ v")
        L.append("        self.comb += self.o.eq(r)")
        L.append("")
    return "\n".join(L)


_DATE = re.compile(r"^// (Date|\s*Auto-Generated by LiteX on).*$", re.M)


def _norm(text):
    return _DATE.sub("", text)


_DECL = re.compile(r"^\s*(?:\(\*.*?\*\)\s*)?(?:(?:input|output|inout)\s+)?(?:wire|reg)\s+(?:signed\s+)?(?:\[[^\]]+\]\s*)?([^\s\[;,=]+)", re.M)
_INST = re.compile(r"^// Instance (\S+) of (\S+) Module\.$", re.M)
_MEM = re.compile(r"^// Memory (\S+): ", re.M)


def _convert(case, pre):
    from litex.gen.fhdl.verilog import convert
    from migen import Module, Signal
    src = _source(case)
    g = {}
    exec(compile(src, "<c02-generated>", "exec"), g)
    for _ in range(pre):
        # unrelated construction first: shifts DUIDs and tracer indices, must be irrelevant
        class Unrelated(Module):
            def __init__(self):
                self.a = Signal()
                self.x = Signal()
                self.comb += self.a.eq(self.x)
        Unrelated()
    top = g["M0"]()
    ios = {top.i, top.o, top.cd_sys.clk, top.cd_sys.rst}
    for an in ("sys_clk", "sys_rst", "por_clk", "sys_clk_1"):
        # user signals of the top level that are called like clock-domain signals are ports as well (ports are named first)
        if isinstance(getattr(top, an, None), Signal):
            ios.add(getattr(top, an))
    if case.get("sub_ios"):
        # the i / o signals of the first-level sub-modules are ports as well: equal leaf names (i, o) on several ports
        for sm_name, sm in getattr(top, "_submodules", []):
            for an in ("i", "o"):
                if isinstance(getattr(sm, an, None), Signal):
                    ios.add(getattr(sm, an))
    out = convert(top, ios=ios, name="top", attr_translate=XLATE)
    return out


def _set_duid(n=None):
    from migen.fhdl.structure import DUID
    if n is None:
        return DUID._DUID__next_uid
    DUID._DUID__next_uid = n


def run_modules(case):
    duid0 = _set_duid()
    try:
        out1 = _convert(case, 0)
    except Exception as e:
        # the generated design is not elaborable (e.g. clock-domain clash): outside the premise
        return skip("not elaborable: %s" % type(e).__name__, detail=str(e)[:200])
    t1 = _norm(out1.main_source)
    cls = []
    names = _DECL.findall(t1)
    names = [n for n in names]
    insts = [m[0] for m in _INST.findall(t1)]
    allids = names + insts
    nt = len(case["classes"]) > 1 or any(c["mems"] or c["insts"] for c in case["classes"])
    attrs = [s["attr"] for c in case["classes"] for s in c["sigs"]]
    if len(set(attrs)) < len(attrs):
        cls.append("repeated-attr")
    if any(a in KEYWORDS for a in attrs):
        cls.append("keyword-as-name")
    if any(c["mems"] for c in case["classes"]):
        cls.append("memory")
    if any(c["insts"] for c in case["classes"]):
        cls.append("instance")
    if not names:
        return bad("parse", "no declarations found in emitted text", key="harness-parse")
    seen = set()
    for n in allids:
        if n in seen:
            return bad("injective-text", "identifier %r declared twice" % n, key="text-collision", cls=cls)
        seen.add(n)
    for n in allids:
        if not _legal(n):
            kind = "keyword" if n in KEYWORDS else "syntax"
            return bad("legal-text", "identifier %r is not a legal non-reserved name (%s)" % (n, kind),
                       key="illegal-" + kind + ":" + n, cls=cls)
    # every signal the namespace knows maps injectively as well
    ns = out1.ns
    nm = {}
    for sig in list(ns.sigs.keys()):
        n = ns.get_name(sig)
        if n in nm and nm[n] is not sig:
            return bad("injective-ns", "two signals named %r" % n, key="ns-collision", cls=cls)
        nm[n] = sig
    # the clock of every always block is the identifier the namespace gives to a clock-domain clock (and to nothing else)
    clk_ids = {}
    for cd in getattr(ns, "clock_domains", []):
        try:
            clk_ids[ns.get_name(cd.clk)] = cd.clk
        except Exception:
            pass
    for cn in re.findall(r"always @\(posedge (\w+)\)", t1):
        if cn not in clk_ids:
            return bad("clock-name", "an always block is clocked by %r, which is not the name of any clock domain's clock (%r)" % (cn, sorted(clk_ids)),
                       key="clock-name", cls=cls)
    # reproducibility 1: a second run of the same script (same DUID sequence, as in a new process)
    from vlib import env
    env.reset_case_state()
    _set_duid(duid0)
    out2 = _convert(case, 0)
    t2 = _norm(out2.main_source)
    if t1 != t2:
        l1, l2 = t1.splitlines(), t2.splitlines()
        d = [(a, b) for a, b in zip(l1, l2) if a != b][:3]
        return bad("reproducible", "text differs between two identical runs: %r" % d, key="irreproducible", cls=cls)
    if dict(out1.data_files) != dict(out2.data_files):
        return bad("reproducible", "data files differ", key="irreproducible", cls=cls)
    # reproducibility 2 (metamorphic): unrelated construction first shifts all DUIDs and tracer indices.
    # Only demanded when no name needed a first-come-first-served _<n> suffix (those are handed out in
    # request order, which the property does not pin down).
    if all(n == 0 for n in ns.sigs.values()):
        cls.append("duid-shift-compared")
        out3 = _convert(case, 1 + case["pre"])
        t3 = _norm(out3.main_source)
        if t1 != t3:
            l1, l3 = t1.splitlines(), t3.splitlines()
            d = [(a, b) for a, b in zip(l1, l3) if a != b][:3]
            return bad("reproducible-shift", "text depends on unrelated earlier construction: %r" % d,
                       key="irreproducible-shift", cls=cls)
        # reproducibility 3: the same design elaborated again and again in one process (the tracer's per-class instance numbers
        # and the DUIDs keep growing: 0,1,2 / 3,4,5 / 6,7,8 ...) - same text every time
        for rep in range(3):
            outr = _convert(case, 0)
            tr = _norm(outr.main_source)
            if tr != t1:
                l1, lr = t1.splitlines(), tr.splitlines()
                d = [(a, b) for a, b in zip(l1, lr) if a != b][:3]
                return bad("reproducible-repeat", "elaboration #%d of the same design in one process gives another text: %r" % (rep + 3, d),
                           key="irreproducible-repeat", cls=cls)
        cls.append("repeated-elaboration-compared")
    return ok(nt=nt, cls=cls, idents=len(allids))


def st_keywords(tier):
    return None


def enum_keywords(tier):
    return [{"kw": k, "how": h} for k in sorted(KEYWORDS) for h in ("override", "attr")]


def run_keyword(case):
    """Exhaustive: every IEEE keyword used as a signal name must come out escaped."""
    from migen.fhdl.structure import Signal
    from litex.gen.fhdl.namer import build_signal_namespace
    from litex.gen.fhdl.verilog import _ieee_1800_2017_verilog_reserved_keywords as kw
    k = case["kw"]
    if case["how"] == "override":
        s = Signal(name_override=k)
    else:
        s = Signal()
        s.backtrace = [("top", 0), (k, 0)]
    t = Signal()
    t.backtrace = [("top", 0), ("other", 0)]
    ns = build_signal_namespace({s, t}, kw)
    n = ns.get_name(s)
    if not _legal(n):
        return bad("legal", "signal named %r is emitted as %r" % (k, n), key="illegal-keyword:" + n)
    return ok(nt=True)


FAMILY = ["x", "x_1", "x_2", "x_1_1", "x_3"]


def enum_family(tier):
    """ALL sequences (= multiset x request order) of 2..5 (thorough 6) names from one suffix family, as
    overrides and as hierarchy-derived names."""
    import itertools
    out = []
    kmax = 5 if tier == "quick" else 6
    for k in range(2, kmax + 1):
        for seq in itertools.product(range(len(FAMILY)), repeat=k):
            for how in (("ovr",) if k >= 5 else ("ovr", "bt", "mix")):
                out.append({"seq": list(seq), "how": how})
    return out


def run_family(case):
    sigs = []
    for i, n in enumerate(case["seq"]):
        name = FAMILY[n]
        how = case["how"] if case["how"] != "mix" else ("ovr" if i % 2 else "bt")
        if how == "ovr":
            sigs.append({"bt": [["top", 0], ["s%d" % i, 0]], "rel": None, "ovr": name})
        else:
            sigs.append({"bt": [["m%d" % i, 0], [name, 0]] if case["how"] == "mix" else [[name, 0]], "rel": None, "ovr": None})
    return run_namespace({"sigs": sigs, "order": list(range(len(sigs))), "shift": 0})


def st_hashseed(tier):
    return st_modules(tier)


def run_hashseed(case):
    """two runs = two processes: the text must not depend on the per-process string hash seed"""
    import subprocess, sys, json, os, hashlib
    from vlib import env
    if not any(len(s.get("vattr", [])) >= 2 for c in case["classes"] for s in c["sigs"]) and len(case["classes"]) < 2:
        return skip("no multi-attribute signal and a single class")
    texts = {}
    for hs in ("0", "1", "7"):
        e = dict(os.environ)
        e.update({"PYTHONHASHSEED": hs, "VERIF_REPO": env.REPO, "PYTHONDONTWRITEBYTECODE": "1"})
        p = subprocess.run([sys.executable, os.path.join(env.VERIF, "checks", "c02_child.py")], input=json.dumps(case), text=True,
                           stdout=subprocess.PIPE, stderr=subprocess.PIPE, env=e, cwd=env.VERIF, timeout=300)
        if p.returncode == 3:
            return skip("not elaborable")
        if p.returncode != 0:
            raise RuntimeError("c02_child failed: " + p.stderr[-500:])
        texts[hs] = p.stdout
    if len(set(texts.values())) != 1:
        a, b = [texts[k] for k in ("0", "1")] if texts["0"] != texts["1"] else [texts[k] for k in ("0", "7")]
        d = [(x, y) for x, y in zip(a.splitlines(), b.splitlines()) if x != y][:3]
        return bad("reproducible-process", "text differs between processes with different PYTHONHASHSEED: %r" % d,
                   key="irreproducible-hashseed")
    return ok(nt=True, cls=["multi-attr"] if any(len(s.get("vattr", [])) >= 2 for c in case["classes"] for s in c["sigs"]) else [])


def subchecks():
    return [
        Sub("namespace", run_namespace, strategy=st_namespace, examples=(6000, 200000), isolate=False,
            rule="namespace built from generated signals; names requested in a generated order"),
        Sub("modules", run_modules, strategy=st_modules, examples=(500, 12000),
            rule="module tree elaborated twice and converted; declarations parsed from the text"),
        Sub("keywords", run_keyword, enum=enum_keywords, exhaustive=True, isolate=False, shards=(4, 4),
            rule="all IEEE 1800-2017 keywords x {override, attribute name} (exhaustive)"),
        Sub("suffix-family", run_family, enum=enum_family, exhaustive=True, isolate=False,
            rule="ALL request sequences of 2..5 (thorough 6) names from the family x, x_1, x_2, x_1_1, x_3 (exhaustive)"),
        Sub("hashseed", run_hashseed, strategy=st_hashseed, examples=(64, 800), isolate=False, timeout=(900, 20000),
            rule="generated module trees with multi-attribute signals converted in separate processes with PYTHONHASHSEED 0/1/7"),
    ]

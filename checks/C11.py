"""C11 - A silent or absent slave cannot hang the bus (bus timeouts of the three interconnect standards)."""

from hypothesis import strategies as st

from vlib.runner import Sub, ok, bad, skip
from vlib import bench, c11lib, env

LEVEL = "fault_enumeration"
RULE = ("shared interconnect of each bus standard (wishbone.InterconnectShared, AXILiteInterconnectShared, "
        "AXIInterconnectShared) with timeout_cycles T in {1,2,3,4,8,16} x 1..2 masters x 1..2 slaves behind real "
        "SoCRegion decoders x request programs (reads/writes, mapped and unmapped addresses, gaps, held cyc / AW-W skew, "
        "response back-pressure) x per-request slave latency carried by the request itself (0..T+2 cycles or never) x "
        "absolute silent windows per slave (finite or for ever) x recovery program of every master after the episode; "
        "oracle evaluated per cycle from port traces: termination bound T+c, error indication (all-ones / SLVERR / error "
        "pulse) exactly on forced terminations, requests answered before expiry untouched (slave data, no pulse), exactly one "
        "termination per request, scoreboard per slave; plus crossbars built with timeout_cycles and a CPU-less SoC whose "
        "bus_errors counter must advance by the number of forced terminations; non-trivial = a slave answer within one "
        "cycle of expiry, or a forced termination followed by >= 2 slave-answered requests of another master; "
        "distinct = canonical JSON")
ASSUMPTIONS = ["Migen's simulator (site-packages) defines FHDL semantics",
               "masters keep a request stable until it is terminated and never abort; slaves never assert err",
               "AXI: W is presented ahead of AW only in single-master cases (the shared arbiter releases the write channels between a lone W "
               "and its AW: write interleaving between masters is C08's subject)",
               "registered Wishbone decode needs slave latency >= 1 (code comment), hence T >= 2 there",
               "Wishbone: in the expiry cycle itself either outcome is accepted (slave answer or error termination), but not a mixture",
               "AXI: the timers watch address/data acceptance only (docstring: 'master _has_ to respond correctly'); main class = one "
               "outstanding request per direction, AW-W skew <= T+2, slave answers every request it accepted; the classes outside "
               "that envelope are generated too and carry their own finding keys"]

TS = [1, 2, 3, 4, 8, 16]
ONES = 0xffffffff

# ======================================================================================= Wishbone

WB_WINS = [(0x00000000, 0x1000), (0x00001000, 0x1000), (0x10000000, 0x10000000), (0x40000000, 0x20000000), (0x20000000, 0x100),
           (0x80000000, 0x80000000)]
WB_HOLES = [0x00002000, 0x70000000, 0x20000200, 0x30000000]
FOREVER = 10 ** 6


def _overlap(a, b):
    return a[0] < b[0] + b[1] and b[0] < a[0] + a[1]


def _near(T):
    """latency codes with the weight on the neighbourhood of the expiry"""
    v = [0, 0, 1, T - 2, T - 1, T - 1, T - 1, T, T, T + 1, T + 2, c11lib.NEVER, c11lib.NEVER]
    return [min(14, max(0, x)) if x != c11lib.NEVER else x for x in v]


def st_wb(tier):
    @st.composite
    def case(draw):
        T = draw(st.sampled_from(TS))
        M = draw(st.integers(1, 2))
        S = draw(st.integers(1, 2))
        wins = []
        for idx in draw(st.permutations(list(range(len(WB_WINS))))):
            w = WB_WINS[idx]
            if all(not _overlap(w, x) for x in wins):
                wins.append(w)
            if len(wins) == S:
                break
        register = T >= 2 and draw(st.integers(0, 3)) == 0
        sil = []
        for j in range(S):
            ws = []
            for _ in range(draw(st.sampled_from([0, 0, 1, 1, 2]))):
                dur = draw(st.one_of(st.integers(1, 2 * T + 4), st.integers(1, 2 * T + 4), st.just(FOREVER)))
                ws.append([draw(st.integers(0, 40)), dur])
            sil.append(ws)
        fin = [c0 + d for ws in sil for c0, d in ws if d < FOREVER]
        nb = (max(fin) + 1) if fin else 0
        progs = []
        nmax = 6 if tier == "quick" else 12
        for m in range(M):
            ops = []
            n = draw(st.integers(2, nmax))
            nrec = draw(st.integers(2, 3))
            for k in range(n + nrec):
                rec = k >= n
                hole = (not rec) and draw(st.integers(0, 5)) == 0
                o = {"we": draw(st.integers(0, 1)), "dat": draw(st.integers(0, 0xffffff)), "sel": draw(st.sampled_from([15, 15, 3, 12, 1])),
                     "gap": draw(st.sampled_from([0, 0, 0, 1, 2, 4])), "hold": draw(st.booleans()),
                     "lat": 0 if rec else draw(st.sampled_from(_near(T)))}
                if hole:
                    hs = [h for h in WB_HOLES if all(not _overlap((h, 0x100), w) for w in wins)]
                    o["tgt"] = -1
                    o["badr"] = draw(st.sampled_from(hs)) + 4 * draw(st.integers(0, 3))
                else:
                    j = draw(st.integers(0, S - 1))
                    o["tgt"] = j
                    o["badr"] = wins[j][0] + 4 * draw(st.integers(0, 15))
                if rec:
                    o["nb"] = nb
                    o["rec"] = 1
                ops.append(o)
            progs.append(ops)
        return {"T": T, "M": M, "S": S, "wins": [list(w) for w in wins], "register": register, "progs": progs, "sil": sil,
                "dw": draw(st.sampled_from([32, 32, 64])), "seed": draw(st.integers(0, 2 ** 16))}
    return case()


class _Bus32:
    data_width = 32
    address_width = 32


def _wb_init(seed, j):
    return [(seed * 7 + j * 1000 + i * 13 + 0x01010101 * (i + 1)) & 0xffffffff for i in range(16)]


def run_wb(case):
    from functools import reduce
    from operator import or_
    from migen import Module, Signal
    from litex.soc.interconnect import wishbone
    from litex.soc.integration.soc import SoCRegion
    T, M, S = case["T"], case["M"], case["S"]
    register = bool(case["register"])
    top = Module()
    dw = case.get("dw", 32)              # bus data width: the forced response must be all ones over the whole width
    nb_ = dw // 8
    ash = nb_.bit_length() - 1
    ONES = (1 << dw) - 1

    class _B(_Bus32):
        data_width = dw
    masters = [wishbone.Interface(data_width=dw, adr_width=32 - ash, addressing="word") for _ in range(M)]
    slaves = [wishbone.Interface(data_width=dw, adr_width=32 - ash, addressing="word") for _ in range(S)]
    decs = [(SoCRegion(origin=o, size=s).decoder(_B), sl) for (o, s), sl in zip(case["wins"], slaves)]
    top.submodules.dut = dut = wishbone.InterconnectShared(masters, decs, register=register, timeout_cycles=T)
    if not hasattr(dut, "timeout"):
        return bad("no-timeout", "InterconnectShared(timeout_cycles=%d) has no timeout sub-module" % T, key="c11:wb-no-timeout")
    term = Signal()
    top.comb += term.eq(reduce(or_, [m.ack for m in masters]))
    smods = []
    for j, s in enumerate(slaves):
        sm = c11lib.WBLatSlave(s, 16, _wb_init(case["seed"], j), term, min_latency1=register)
        top.submodules += sm
        smods.append(sm)
    models = []
    for j in range(S):
        iw = _wb_init(case["seed"], j)
        models.append(c11lib.ByteMem(16 * nb_, [(iw[i // nb_] >> (8 * (i % nb_))) & 0xff for i in range(16 * nb_)]))
    mags = []
    nops = 0
    for m in range(M):
        ops = []
        for o in case["progs"][m]:
            ops.append({"we": o["we"], "adr": o["badr"] >> ash, "dat": ((m + 1) << 28) | (o["lat"] << 24) | o["dat"], "sel": o["sel"],
                        "gap": o["gap"], "hold": o["hold"], "nb": o.get("nb", 0)})
            nops += 1
        mags.append(c11lib.WBOpMaster(masters[m], ops))
    sil = case["sil"]
    drv = bench.Driver(lambda t: {smods[j].go: 0 if c11lib.in_windows(sil[j], t) else 1 for j in range(S)})
    mprobe = [bench.Probe([b.cyc, b.stb, b.we, b.adr, b.sel, b.dat_w, b.ack, b.dat_r]) for b in masters]
    sprobe = [bench.Probe([b.cyc, b.stb, b.ack, b.dat_r]) for b in slaves]
    xprobe = bench.Probe([dut.timeout.error, dut.arbiter.rr.grant])
    nbmax = max([o.get("nb", 0) for p in case["progs"] for o in p] + [0])
    limit = 60 + nbmax + nops * (T + 10)
    fin = {"t": None}

    def stop(t):
        if all(a.finished() for a in mags):
            if fin["t"] is None:
                fin["t"] = t
            return t >= fin["t"] + 3
        return False

    cyc = bench.run(top, mags + [drv] + mprobe + sprobe + [xprobe], limit, stop=stop)
    cls = ["T=%d" % T, "M%dS%d" % (M, S), "registered" if register else "comb-decode", "dw%d" % dw]
    ctx = "wishbone shared T=%d %dx%d%s" % (T, M, S, " registered" if register else "")
    n = len(xprobe.trace) - 1         # complete cycles 0..n-1 (trace[c + 1] holds cycle c)

    # ---- per-cycle oracle on the shared bus (reconstructed from the arbiter grant)
    start = None
    prev_open = False
    prev_g = None
    forced = []                       # (cycle, master)
    answered = []                     # (cycle, master, slave, offset)
    near = 0
    for c in range(n):
        e, g = xprobe.trace[c + 1]
        mv = [p.trace[c + 1] for p in mprobe]
        sv = [p.trace[c + 1] for p in sprobe]
        for i in range(M):
            if i != g and mv[i][6]:
                return bad("ack-stray", "%s: cycle %d: master %d is acknowledged while master %d owns the bus" % (ctx, c, i, g),
                           key="c11:wb-ack-stray", cls=cls, cycles=cyc)
        cyc_, stb, we, adr, sel, dat_w, ack, dat_r = mv[g]
        if not (cyc_ and stb):
            if e:
                return bad("spurious-error-pulse", "%s: cycle %d: error pulse with no request on the shared bus" % (ctx, c),
                           key="c11:wb-error-pulse", cls=cls, cycles=cyc)
            if ack:
                return bad("ack-outside", "%s: cycle %d: master %d sees ack without a request" % (ctx, c, g), key="c11:wb-ack-stray",
                           cls=cls, cycles=cyc)
            prev_open = False
            prev_g = g
            continue
        if not (prev_open and prev_g == g):
            start = c
        k = c - start
        ans = [j for j in range(S) if sv[j][0] and sv[j][1] and sv[j][2]]
        if len(ans) > 1:
            return bad("one-slave", "%s: cycle %d: slaves %r answer together" % (ctx, c, ans), key="c11:wb-route", cls=cls, cycles=cyc)
        what = "master %d %s %#x (request visible since cycle %d, offset %d)" % (g, "write" if we else "read", adr << ash, start, k)
        if k > T:
            return bad("bound", "%s: cycle %d: %s is still not terminated, %d cycles after it was granted the bus" % (ctx, c, what, k),
                       key="c11:wb-bound", cls=cls, cycles=cyc)
        if k < T:
            if e:
                return bad("premature-timeout", "%s: cycle %d: error pulse at offset %d < T for %s" % (ctx, c, k, what),
                           key="c11:wb-premature", cls=cls, cycles=cyc)
            if bool(ack) != bool(ans):
                return bad("disturbed", "%s: cycle %d: %s: master ack=%d but slave answer=%r before expiry" % (ctx, c, what, ack, ans),
                           key="c11:wb-disturbed", cls=cls, cycles=cyc)
            if ack and not we and dat_r != sv[ans[0]][3]:
                return bad("disturbed", "%s: cycle %d: %s answered in time by slave %d with %#x, master reads %#x" %
                           (ctx, c, what, ans[0], sv[ans[0]][3], dat_r), key="c11:wb-disturbed", cls=cls, cycles=cyc)
            if ack:
                answered.append((c, g, ans[0], k))
                if k == T - 1:
                    near += 1
        else:  # k == T: the expiry cycle
            if not ack:
                return bad("bound", "%s: cycle %d: %s is not terminated in the expiry cycle (offset T=%d)" % (ctx, c, what, T),
                           key="c11:wb-bound", cls=cls, cycles=cyc)
            if e:
                if dat_r != ONES:
                    return bad("error-indication", "%s: cycle %d: forced termination of %s carries dat_r=%#x, not all ones" % (ctx, c, what, dat_r),
                               key="c11:wb-indication", cls=cls, cycles=cyc)
                forced.append((c, g))
                if ans:
                    near += 1
                    cls.append("answer-in-expiry-cycle")
            else:
                if not ans:
                    return bad("error-indication", "%s: cycle %d: %s terminated at expiry with no slave answer and no error pulse" % (ctx, c, what),
                               key="c11:wb-indication", cls=cls, cycles=cyc)
                if not we and dat_r != sv[ans[0]][3]:
                    return bad("error-indication", "%s: cycle %d: %s: no error pulse but dat_r=%#x differs from the slave's %#x" %
                               (ctx, c, what, dat_r, sv[ans[0]][3]), key="c11:wb-indication", cls=cls, cycles=cyc)
                answered.append((c, g, ans[0], k))
                near += 1
        prev_open = not ack
        prev_g = g

    # ---- every request terminated exactly once
    for m, a in enumerate(mags):
        if a.acks_outside:
            return bad("ack-once", "%s: master %d saw %d ack(s) without a pending request" % (ctx, m, a.acks_outside), key="c11:wb-ack-stray",
                       cls=cls, cycles=cyc)
        if not a.finished():
            return bad("termination", "%s: master %d operation %d %r never terminated (%d cycles)" % (ctx, m, a.i, case["progs"][m][a.i], cyc),
                       key="c11:wb-hang", cls=cls, cycles=cyc)
        if len(a.results) != len(case["progs"][m]):
            return bad("ack-once", "%s: master %d: %d operations, %d terminations" % (ctx, m, len(case["progs"][m]), len(a.results)),
                       key="c11:wb-ack-stray", cls=cls, cycles=cyc)

    # ---- per operation: expected fate from the slave model (hardware latency + silent windows), scoreboard
    fset = set(forced)
    events = []
    for m, a in enumerate(mags):
        for (i, s0, ackc, dat_r, err) in a.results:
            events.append((ackc, m, i, s0, dat_r))
    after_forced_ok = {}
    nforced_seen = 0
    first_forced = None
    for ackc, m, i, s0, dat_r in sorted(events):
        o = case["progs"][m][i]
        isf = (ackc, m) in fset
        # first cycle on the shared bus: the master is granted from some cycle >= s0 on
        g0 = next(c for c in range(s0, ackc + 1) if xprobe.trace[c + 1][1] == m)
        j = o["tgt"]
        if j < 0:
            cls.append("unmapped")
            if not isf:
                return bad("unmapped-answered", "%s: master %d request to unmapped %#x terminated without the error indication" % (ctx, m, o["badr"]),
                           key="c11:wb-indication", cls=cls, cycles=cyc)
        else:
            lat = o["lat"]
            le = max(lat, 1) if register else lat
            quiet = all(not c11lib.in_windows(sil[j], c) for c in range(g0, g0 + min(le, T) + 1))
            if lat != c11lib.NEVER and le < T and quiet:
                if isf or ackc != g0 + le:
                    return bad("undisturbed", "%s: master %d op %d %r: the slave answers %d cycles after the request (granted in cycle %d) but the "
                               "request ended in cycle %d%s" % (ctx, m, i, o, le, g0, ackc, " by timeout" if isf else ""),
                               key="c11:wb-disturbed", cls=cls, cycles=cyc)
            if lat == c11lib.NEVER and not isf:
                return bad("model", "%s: master %d op %d: a never-answering request was answered" % (ctx, m, i), key="c11:wb-harness", cls=cls, cycles=cyc)
            if not quiet:
                cls.append("silent-window-hit")
        word = (o["badr"] >> ash) & 15
        dat_w = ((m + 1) << 28) | (o["lat"] << 24) | o["dat"]
        sl_acked = j >= 0 and sprobe[j].trace[ackc + 1][2] and sprobe[j].trace[ackc + 1][0] and sprobe[j].trace[ackc + 1][1]
        if o["we"]:
            if sl_acked:                      # the slave performed it (also when the expiry cycle reported an error)
                models[j].write(word * nb_, nb_, dat_w, o["sel"])
        elif not isf:
            exp = models[j].read(word * nb_, nb_)
            if dat_r != exp:
                return bad("scoreboard", "%s: master %d read of %#x returned %#x, slave %d memory holds %#x" % (ctx, m, o["badr"], dat_r, j, exp),
                           key="c11:wb-data", cls=cls, cycles=cyc)
        if isf:
            nforced_seen += 1
            if first_forced is None:
                first_forced = m
        elif nforced_seen:
            after_forced_ok[m] = after_forced_ok.get(m, 0) + 1
        if o.get("rec") and j >= 0 and not isf:
            cls.append("recovery-answered")
    recovered = first_forced is not None and any(v >= 2 for mm, v in after_forced_ok.items() if mm != first_forced)
    if forced:
        cls.append("forced-termination")
    if near:
        cls.append("answer-within-1-of-expiry")
    if recovered:
        cls.append("other-master-recovers")
    return ok(nt=bool(near) or recovered, cls=sorted(set(cls)), cycles=cyc, counts={"forced": len(forced), "answered": len(answered)})


def enum_wb(tier):
    """T in 1..4 x every slave answer offset 0..T+2 and 'never' (by request latency and by a silent window that ends at that
    offset) x read/write x mapped/unmapped x 1..2 masters x held cyc x registered decode"""
    out = []
    wins = [list(WB_WINS[0]), list(WB_WINS[1])]
    for T in (1, 2, 3, 4):
        for register in ((False, True) if T >= 2 else (False,)):
            for M in (1, 2):
                for hold in (False, True):
                    for we in (0, 1):
                        variants = [("unmapped", None)]
                        for off in list(range(0, T + 3)) + [None]:
                            variants.append(("lat", off))
                            variants.append(("win", off))
                        for mech, off in variants:
                            gap = 2
                            first = {"we": we, "dat": 0x1234, "sel": 15, "gap": gap, "hold": hold, "lat": 0, "tgt": 0, "badr": wins[0][0] + 8}
                            sil = [[], []]
                            if mech == "unmapped":
                                first.update({"tgt": -1, "badr": WB_HOLES[0]})
                            elif mech == "lat":
                                first["lat"] = c11lib.NEVER if off is None else off
                            else:
                                sil[0] = [[0, FOREVER if off is None else gap + off]]
                            nb = 0 if off is None else gap + T + 6
                            progs = [[first,
                                      {"we": 0, "dat": 0, "sel": 15, "gap": 0, "hold": hold, "lat": 0, "tgt": 0, "badr": wins[0][0] + 8, "nb": nb if mech == "win" else 0, "rec": 1},
                                      {"we": 0, "dat": 0, "sel": 15, "gap": 0, "hold": False, "lat": 0, "tgt": 1, "badr": wins[1][0] + 4, "rec": 1}]]
                            if M == 2:
                                progs.append([{"we": 1, "dat": 0x77, "sel": 15, "gap": gap + 1, "hold": False, "lat": 0, "tgt": 1, "badr": wins[1][0] + 12, "rec": 1},
                                              {"we": 0, "dat": 0, "sel": 15, "gap": 0, "hold": False, "lat": 0, "tgt": 1, "badr": wins[1][0] + 12, "rec": 1},
                                              {"we": 0, "dat": 0, "sel": 15, "gap": 1, "hold": False, "lat": min(1, T - 1), "tgt": 1, "badr": wins[1][0] + 4, "rec": 1}])
                            out.append({"T": T, "M": M, "S": 2, "wins": wins, "register": register, "progs": progs, "sil": sil, "seed": 3})
    return out


# ======================================================================================= AXI-Lite / AXI4 (single beat)

AX_BASE = [0x01000000, 0x02000000]
AX_SIZE = 0x01000000
AX_HOLES = [0x7f000000, 0x00000000, 0x04000000]
K_SILENT = "c11:axi-accepted-then-silent"
K_PIPE = "c11:axi-respond-absorbs-pipelined"
K_SKEW = "c11:axi-b-before-w"
K_RACE = "c11:axi-late-accept-race"
K_MERGED = "c11:axi-error-pulse-merged"
K_HALF = "c11:axi-half-accepted-write"


def _ax_tag(m, lane, i):
    return (m << 7) | (lane << 6) | (i & 63)


def _ax_addr(o, m, lane, i):
    base = AX_BASE[o["tgt"]] if o["tgt"] >= 0 else AX_HOLES[o.get("hole", 0)]
    return base | (_ax_tag(m, lane, i) << 16) | (o["rl"] << 12) | (o["acc"] << 8) | (o["word"] << 2)


def _ax_data(o, m, i):
    return (o.get("wacc", o["acc"]) << 24) | (_ax_tag(m, 0, i) << 16) | (o.get("data", 0) & 0xffff)


def st_axi(std):
    def strat(tier):
        @st.composite
        def case(draw):
            T = draw(st.sampled_from(TS))
            M = draw(st.integers(1, 2))
            S = draw(st.integers(1, 2))
            klass = draw(st.sampled_from(["main"] * 16 + ["partial", "partial", "silent", "pipe", "skew", "race"]))
            codes = [1, 1, 2, T - 1, T, T, T + 2, T + 3, c11lib.NEVER]
            codes = [min(14, max(1, x)) if x != c11lib.NEVER else x for x in codes]
            codes = [x for x in codes if x != T + 1]          # T+1 = ready in the very cycle the timeout absorbs: class 'race'
            slv = []
            fin = []
            for j in range(S):
                # write side: 'atomic' (AW and W taken together once both are valid) or both channels pre-asserted with the
                # same silent windows: neither can be left with half a write.  Class 'partial': independent channels.
                atomic = draw(st.integers(0, 2)) != 0
                pre_w = 0 if atomic else 1
                pre = {"aw": pre_w, "w": pre_w, "ar": draw(st.integers(0, 1))}
                if klass == "partial":
                    atomic = False
                    pre = {"aw": draw(st.integers(0, 1)), "w": draw(st.integers(0, 1)), "ar": pre["ar"]}
                win = {}
                for ch in ("aw", "w", "ar"):
                    ws = []
                    for _ in range(draw(st.sampled_from([0, 0, 0, 1, 1, 2]))):
                        dur = draw(st.one_of(st.integers(1, 2 * T + 4), st.integers(1, 2 * T + 4), st.integers(1, 2 * T + 4), st.just(FOREVER)))
                        ws.append([draw(st.integers(0, 40)), dur])
                    win[ch] = ws
                if klass != "partial":
                    win["w"] = [list(x) for x in win["aw"]]
                for ch in win:
                    fin += [c0 + d for c0, d in win[ch] if d < FOREVER]
                slv.append({"atomic": int(atomic), "pre": pre, "win": win})
            nb = (max(fin) + 1) if fin else 0
            nmax = 3 if tier == "quick" else 6
            mast = []
            for m in range(M):
                lanes = {}
                for lane in ("w", "r"):
                    ops = []
                    n = draw(st.integers(0 if lane == "w" else 1, nmax))
                    nrec = draw(st.integers(1, 2))
                    for k in range(n + nrec):
                        rec = k >= n
                        o = {"tgt": draw(st.integers(0, S - 1)), "word": draw(st.integers(0, 15)), "acc": 1, "rl": draw(st.sampled_from([1, 1, 2, 3, 5])),
                             "gap": draw(st.sampled_from([0, 0, 1, 2, 5])), "bp": draw(st.sampled_from([0, 0, 1, 2, 3, T + 1])), "a_off": 0, "d_off": 0}
                        if lane == "w":
                            o["data"] = draw(st.integers(0, 0xffff))
                            o["strb"] = draw(st.sampled_from([15, 15, 3, 8]))
                            o["wacc"] = 1
                        if rec:
                            o["nb"] = nb
                            o["rec"] = 1
                        else:
                            if draw(st.integers(0, 4)) == 0:
                                o["tgt"] = -1
                                o["hole"] = draw(st.integers(0, len(AX_HOLES) - 1))
                            o["acc"] = draw(st.sampled_from(codes))
                            if lane == "w":
                                o["wacc"] = o["acc"]
                                if klass == "partial" and draw(st.booleans()):
                                    o["wacc"] = draw(st.sampled_from(codes))
                                if o["tgt"] < 0 or slv[o["tgt"]]["atomic"] or klass == "partial":
                                    sk = draw(st.sampled_from([0, 0, 0, 1, T, T + 1, T + 2]))
                                    # W ahead of AW only with a single master: the shared arbiter releases the write channels
                                    # between a lone W and its AW (write interleaving between masters, C08's subject)
                                    o["d_off" if (draw(st.booleans()) or M > 1) else "a_off"] = sk
                                    if o["tgt"] >= 0 and sk + o["acc"] == T + 1 and klass != "partial":
                                        # an atomic slave answers acc cycles after BOTH parts are there: skew + acc = T+1 is class 'race'
                                        o["acc"] = o["wacc"] = min(14, o["acc"] + 1)
                        ops.append(o)
                    lanes[lane] = ops
                mast.append({"w": lanes["w"], "r": lanes["r"], "idle": [draw(st.integers(0, 1)), draw(st.integers(0, 1))]})
            # the classes outside the main envelope (each a finding of its own): modify one operation
            if klass in ("silent", "pipe", "skew", "race"):
                m = draw(st.integers(0, M - 1))
                lane = draw(st.sampled_from(["w", "r"])) if mast[m]["w"] else "r"
                if klass == "skew":
                    lane = "w"
                    if not mast[m]["w"]:
                        mast[m]["w"] = [{"tgt": -1, "hole": 0, "word": 0, "acc": 1, "wacc": 1, "rl": 1, "gap": 1, "bp": 0, "a_off": 0, "d_off": 0,
                                         "data": 1, "strb": 15}]
                ops = mast[m][lane]
                i = draw(st.integers(0, max(0, len(ops) - 2)))
                o = ops[i]
                if klass == "silent":
                    o.update({"tgt": draw(st.integers(0, S - 1)), "acc": 1, "wacc": 1, "rl": c11lib.NEVER, "a_off": 0, "d_off": 0})
                    o.pop("hole", None)
                elif klass == "pipe":
                    o.update({"tgt": -1, "hole": 0})
                    for q in ops[i + 1:]:
                        q["pipe"] = 1
                        q["gap"] = 0
                        q.pop("nb", None)
                elif klass == "skew":
                    o.update({"tgt": -1, "hole": 0, "a_off": 0, "d_off": 0})
                    o["d_off" if (draw(st.booleans()) or M > 1) else "a_off"] = T + 3 + draw(st.integers(0, 3))
                elif klass == "race" and T + 1 <= 14:
                    o.update({"tgt": draw(st.integers(0, S - 1)), "acc": T + 1, "wacc": T + 1, "a_off": 0, "d_off": 0,
                              "rl": draw(st.sampled_from([1, 4, 6]))})
                    o.pop("hole", None)
            return {"std": std, "T": T, "M": M, "S": S, "klass": klass, "mast": mast, "slv": slv, "seed": draw(st.integers(0, 2 ** 16))}
        return case()
    return strat


def _ax_build(case, crossbar=False):
    from migen import Module
    from litex.soc.interconnect import axi
    from litex.soc.integration.soc import SoCRegion
    full = case["std"] == "axi"
    M, S, T = case["M"], case["S"], case["T"]
    if full:
        mk = lambda: axi.AXIInterface(data_width=32, address_width=32, id_width=1)
        IC = axi.AXICrossbar if crossbar else axi.AXIInterconnectShared
    else:
        mk = lambda: axi.AXILiteInterface(data_width=32, address_width=32)
        IC = axi.AXILiteCrossbar if crossbar else axi.AXILiteInterconnectShared
    top = Module()
    masters = [mk() for _ in range(M)]
    slaves = [mk() for _ in range(S)]
    decs = [(SoCRegion(origin=AX_BASE[j], size=AX_SIZE).decoder(masters[0]), slaves[j]) for j in range(S)]
    top.submodules.dut = dut = IC(masters, decs, timeout_cycles=T)
    return top, dut, masters, slaves, full


def _ax_agents(case, masters, slaves, full):
    mags, sags = [], []
    for m, mc in enumerate(case["mast"]):
        wops, rops = [], []
        for i, o in enumerate(mc["w"]):
            wops.append({"addr": _ax_addr(o, m, 0, i), "data": _ax_data(o, m, i), "strb": o.get("strb", 15), "gap": o["gap"], "a_off": o["a_off"],
                         "d_off": o["d_off"], "bp": o["bp"], "pipe": o.get("pipe", 0), "nb": o.get("nb", 0)})
        for i, o in enumerate(mc["r"]):
            rops.append({"addr": _ax_addr(o, m, 1, i), "gap": o["gap"], "a_off": o["a_off"], "bp": o["bp"], "pipe": o.get("pipe", 0),
                         "nb": o.get("nb", 0)})
        mags.append(c11lib.AxMaster(masters[m], wops, rops, full=full, idle_ready=tuple(mc.get("idle", (0, 0)))))
    for j, sc in enumerate(case["slv"]):
        init = [((case["seed"] + 31 * j + 7 * i) * 0x9e3779b1) & 0xff for i in range(64)]
        sags.append(c11lib.AxSlave(slaves[j], c11lib.ByteMem(64, init), sc, full=full))
    return mags, sags


def run_axi(case):
    T, M, S = case["T"], case["M"], case["S"]
    std = case["std"]
    top, dut, masters, slaves, full = _ax_build(case)
    if not hasattr(dut, "timeout"):
        return bad("no-timeout", "%s shared interconnect built with timeout_cycles=%d has no timeout sub-module" % (std, T), key="c11:axi-no-timeout")
    mags, sags = _ax_agents(case, masters, slaves, full)
    mprobe = [bench.Probe([b.aw.valid, b.aw.ready, b.w.valid, b.w.ready, b.b.valid, b.b.ready, b.ar.valid, b.ar.ready, b.r.valid, b.r.ready])
              for b in masters]
    xprobe = bench.Probe([dut.timeout.error, dut.arbiter.rr_write.grant, dut.arbiter.rr_read.grant])
    allops = [(m, ln, i, o) for m, mc in enumerate(case["mast"]) for ln in ("w", "r") for i, o in enumerate(mc[ln])]
    nbmax = max([o.get("nb", 0) for _, _, _, o in allops] + [0])
    limit = 80 + nbmax + len(allops) * (3 * T + 26)
    fin = {"t": None}

    def stop(t):
        if all(a.finished() for a in mags):
            if fin["t"] is None:
                fin["t"] = t
            return t >= fin["t"] + 4
        return False

    cyc = bench.run(top, mags + sags + mprobe + [xprobe], limit, stop=stop)
    klass = case.get("klass", "main")
    cls = ["std:" + std, "T=%d" % T, "M%dS%d" % (M, S), "class:" + klass]
    ctx = "%s shared T=%d %dx%d" % (std, T, M, S)
    n = len(xprobe.trace) - 1
    # preconditions of the findings that live outside the main envelope (a known key is only ever given to a case that
    # fulfils the finding's precondition, so that the same symptom inside the envelope stays a violation)
    has_pipe = any(o.get("pipe") for _, _, _, o in allops)
    has_skew = any(ln == "w" and abs(o["a_off"] - o["d_off"]) > T + 2 for _, ln, _, o in allops)

    def ret(clause, detail, key):
        return bad(clause, "%s: %s" % (ctx, detail), key=key, cls=cls, cycles=cyc)

    def fkey(generic, write_side):
        if has_pipe:
            return K_PIPE
        if has_skew and write_side:
            return K_SKEW
        return generic

    # ---- slave-side logs by tag
    acc = {}      # (tag, channel) -> (slave, cycle)
    for j, sa in enumerate(sags):
        for c, p in sa.aw_got:
            acc.setdefault((sa.tag(p["addr"]), "aw"), (j, c))
        for c, p in sa.w_got:
            acc.setdefault(((p["data"] >> 16) & 0xff, "w"), (j, c))
        for c, p in sa.ar_got:
            acc.setdefault((sa.tag(p["addr"]), "ar"), (j, c))
    dirty = [sa.dirty() for sa in sags]
    if any(dirty):
        cls.append("slave-left-with-half-a-write")
        if klass != "partial":
            return ret("harness", "a slave of class %s was left with half a write" % klass, "c11:axi-harness")

    # ---- per-cycle: stall runs of the granted master's request channels against the error pulse
    exps = {}
    runw = runr = 0
    merged = 0
    for c in range(n):
        e, gw, gr = xprobe.trace[c + 1]
        mw = mprobe[gw].trace[c + 1]
        mr = mprobe[gr].trace[c + 1]
        wst = (mw[0] and not mw[1]) or (mw[2] and not mw[3])
        rst = mr[6] and not mr[7]
        runw = runw + 1 if wst else 0
        runr = runr + 1 if rst else 0
        if runw > T + 1 or runr > T + 1:
            d = "write" if runw > T + 1 else "read"
            return ret("bound", "cycle %d: the %s request channels of master %d have been waiting for %d cycles (T+1 = %d is the last one a "
                       "timeout may leave them waiting)" % (c, d, gw if d == "write" else gr, max(runw, runr), T + 1), "c11:axi-bound")
        xw, xr = runw == T + 1, runr == T + 1
        if bool(e) != (xw or xr):
            if e:
                return ret("spurious-error-pulse", "cycle %d: error pulse although no request channel has been waiting for T+1 = %d cycles "
                           "(write run %d, read run %d)" % (c, T + 1, runw, runr), "c11:axi-error-pulse")
            return ret("error-pulse-missing", "cycle %d: a %s request has been waiting T+1 = %d cycles but no error pulse" %
                       (c, "write" if xw else "read", T + 1), "c11:axi-error-pulse")
        if xw:
            exps.setdefault((gw, "w"), []).append(c)
        if xr:
            exps.setdefault((gr, "r"), []).append(c)
        if xw and xr:
            merged += 1

    # ---- the slave's ready arrives in the very cycle in which the timeout absorbs the request: both take it
    for m, a in enumerate(mags):
        for ln, lane in (("w", a.wl), ("r", a.rl)):
            for i, L in enumerate(lane.log):
                if L["s"] is None:
                    continue
                tag = _ax_tag(m, 0 if ln == "w" else 1, i)
                phases = [("aw" if ln == "w" else "ar", L["a_first"], L["a_hs"])] + ([("w", L["d_first"], L["d_hs"])] if ln == "w" else [])
                for ch, fv, hs in phases:
                    t_acc = acc.get((tag, ch))
                    if t_acc is None or fv is None:
                        continue
                    for x in exps.get((m, ln), []):
                        if fv <= x and t_acc[1] == x + 1:
                            cons = ""
                            for m2, a2 in enumerate(mags):
                                for i2, L2 in enumerate(a2.rl.log):
                                    if L2["resp"] is not None and L2["resp"][1] == c11lib.RESP_OKAY:
                                        o2 = case["mast"][m2]["r"][i2]
                                        rd2 = [r_ for r_ in sags[o2["tgt"]].reads if r_[1] == _ax_tag(m2, 1, i2)] if o2["tgt"] >= 0 else []
                                        if rd2 and rd2[0][3] != L2["resp"][2] and not cons:
                                            cons = "; consequence: master %d read %d of %#x received %#x, the slave had answered %#x" % (
                                                m2, i2, _ax_addr(o2, m2, 1, i2), L2["resp"][2], rd2[0][3])
                            return ret("late-accept-race", "master %d %s %d %r: the timeout fired in cycle %d and absorbs %s in cycle %d, but the "
                                       "slave's ready arrives in that same cycle and slave %d takes the request too (its late response then "
                                       "answers a later request or arrives as a stray)" %
                                       (m, "write" if ln == "w" else "read", i, case["mast"][m][ln][i], x, ch.upper(), x + 1, t_acc[0]) + cons, K_RACE)

    # ---- hang ?
    hung = []
    for m, a in enumerate(mags):
        for ln, lane in (("w", a.wl), ("r", a.rl)):
            if lane.finished():
                continue
            pend = lane.outst[0] if lane.outst else (lane.cur["i"] if lane.cur is not None else lane.nxt)
            o = case["mast"][m][ln][pend]
            tag = _ax_tag(m, 0 if ln == "w" else 1, pend)
            taken = ((tag, "aw") in acc and (tag, "w") in acc) if ln == "w" else (tag, "ar") in acc
            hung.append((not (taken and o["rl"] == c11lib.NEVER), m, ln, pend, o, taken))
    if hung:
        hung.sort(key=lambda h: h[:4])
        _, m, ln, pend, o, taken = hung[0]
        key, why = fkey("c11:axi-hang", ln == "w"), ""
        if key == K_PIPE:
            why = " (pipelined requests: the RESPOND state absorbs every request presented while it waits to answer)"
        elif key == K_SKEW:
            why = " (after a write response issued before both AW and W were absorbed)"
        elif any(dirty):
            key, why = K_HALF, (" (an earlier forced termination left slave %d holding half a write; its mis-paired responses since then have "
                                "desynchronised the interconnect's outstanding-request counters: nothing is waiting on the shared bus, so no timeout fires)" %
                                dirty.index(True))
        elif taken and o["rl"] == c11lib.NEVER:
            key, why = K_SILENT, " (the slave accepted the request and never responds: the timers only watch acceptance)"
        return ret("termination", "master %d %s operation %d %r never completed (%d cycles)%s; %d lane(s) blocked" %
                   (m, "write" if ln == "w" else "read", pend, o, cyc, why, len(hung)), key)

    # ---- per operation
    near = 0
    order = []       # (response cycle, master, forced?)
    for m, a in enumerate(mags):
        for ln, lane in (("w", a.wl), ("r", a.rl)):
            isw = ln == "w"
            if isw and any(dirty):
                # class 'partial': a slave holding half a write pairs it with later requests and answers early or twice; only the
                # clauses that do not depend on what such a slave does are evaluated (bound, error pulse, termination)
                continue
            bv = 4 if isw else 8
            for i, L in enumerate(lane.log):
                o = case["mast"][m][ln][i]
                j = o["tgt"]
                tag = _ax_tag(m, 0 if isw else 1, i)
                what = "master %d %s %d %r" % (m, "write" if isw else "read", i, o)
                if L["early"]:
                    return ret("response-before-request", "%s: response in cycle %d although the request was not yet taken (AW %r, W %r)" %
                               (what, L["resp"][0], L["a_hs"], L["d_hs"]), fkey("c11:axi-early-response", isw))
                phases = [("aw" if isw else "ar", L["a_first"], L["a_hs"])] + ([("w", L["d_first"], L["d_hs"])] if isw else [])
                lo = min(p[1] for p in phases)
                hi = max(p[2] for p in phases)
                xs = [x for x in exps.get((m, ln), []) if lo <= x <= hi]
                rc = L["resp"][0]
                resp = L["resp"][1]
                if len(xs) > 1:
                    return ret("double-timeout", "%s: timed out %d times (cycles %r)" % (what, len(xs), xs), fkey("c11:axi-double-timeout", isw))
                if xs:
                    x = xs[0]
                    for ch, fv, hs in phases:
                        if hs > max(x + 1, fv):
                            return ret("bound", "%s: %s still waiting in cycle %d after the timeout of cycle %d" % (what, ch.upper(), hs, x),
                                       fkey("c11:axi-bound", isw))
                    if resp != c11lib.RESP_SLVERR:
                        return ret("error-indication", "%s: timed out in cycle %d but the response is %d, not SLVERR" % (what, x, resp), "c11:axi-indication")
                    if not isw and L["resp"][2] != ONES:
                        return ret("error-indication", "%s: timed out but read data is %#x, not all ones" % (what, L["resp"][2]), "c11:axi-indication")
                    if not isw and full and not L["resp"][3]:
                        return ret("error-indication", "%s: forced read response without last" % what, "c11:axi-indication")
                    fvr = next((c for c in range(hi, rc + 1) if mprobe[m].trace[c + 1][bv]), None)
                    if fvr is None or fvr > hi + 1:
                        return ret("bound", "%s: absorbed in cycle %d, forced response presented only in cycle %r (expected %d = expiry + 2)" %
                                   (what, hi, fvr, hi + 1), fkey("c11:axi-bound", isw))
                    order.append((rc, m, True))
                    cls.append("forced-write" if isw else "forced-read")
                    if j < 0:
                        cls.append("unmapped")
                    continue
                # no timeout: the slave took every phase itself, in the cycle the master saw the handshake
                for ch, fv, hs in phases:
                    t_acc = acc.get((tag, ch))
                    if t_acc is None or t_acc[1] != hs or t_acc[0] != j:
                        return ret("absorbed-without-timeout", "%s: %s handshake in cycle %d but %s and no timeout was due" %
                                   (what, ch.upper(), hs, "slave %d took it in cycle %d" % t_acc if t_acc else "no slave took it"),
                                   fkey("c11:axi-absorb", isw))
                    if hs - fv in (T - 1, T) and hs - fv > 0:
                        near += 1
                if resp != c11lib.RESP_OKAY:
                    return ret("disturbed", "%s: accepted by slave %d in time but answered with resp %d" % (what, j, resp), fkey("c11:axi-disturbed", isw))
                if isw:
                    wr = [w_ for w_ in sags[j].writes if w_[1] == tag]
                    if len(wr) != 1 or wr[0][2:5] != (_ax_addr(o, m, 0, i), _ax_data(o, m, i), o.get("strb", 15)):
                        return ret("disturbed", "%s: slave %d performed %r" % (what, j, wr), fkey("c11:axi-disturbed", isw))
                else:
                    rd = [r_ for r_ in sags[j].reads if r_[1] == tag]
                    if len(rd) != 1 or rd[0][2] != _ax_addr(o, m, 1, i) or rd[0][3] != L["resp"][2]:
                        return ret("disturbed", "%s: slave %d answered %r, master received %#x" % (what, j, rd, L["resp"][2]), fkey("c11:axi-disturbed", isw))
                order.append((rc, m, False))
                if o.get("rec"):
                    cls.append("recovery-answered")
            if lane.stray:
                return ret("stray-response", "master %d %s lane: responses without a request: %r" % (m, ln, lane.stray[:3]), fkey("c11:axi-stray", isw))
            if lane.hold:
                return ret("response-hold", "master %d %s lane: cycle %d: %s" % (m, ln, lane.hold[0][0], lane.hold[0][1]), fkey("c11:axi-hold", isw))
    order.sort()
    recovered = False
    for k, (rc, m, f) in enumerate(order):
        if f and any(sum(1 for (rc2, m2, f2) in order[k + 1:] if m2 == mm and not f2) >= 2 for mm in range(M) if mm != m):
            recovered = True
    if near:
        cls.append("accepted-within-1-of-expiry")
    if recovered:
        cls.append("other-master-recovers")
    nforced = sum(1 for _, _, f in order if f)
    if merged:
        cls.append("merged-error-pulse")
        return bad("error-count", "%s: %d time(s) a read and a write timeout expired in the same cycle: one error pulse for two forced "
                   "terminations (bus_errors would advance by 1)" % (ctx, merged), key=K_MERGED, cls=sorted(set(cls)), cycles=cyc,
                   nt=bool(near) or recovered)
    return ok(nt=bool(near) or recovered, cls=sorted(set(cls)), cycles=cyc, counts={"forced": nforced})


# ======================================================================================= crossbars

K_XBAR = "c11:crossbar-ignores-timeout"


def enum_xbar(tier):
    out = []
    for std in ("wishbone", "axil", "axi", "soc-wishbone", "soc-axil"):
        for T in (1, 4, 16):
            for tgt in ("unmapped", "silent"):
                if std.startswith("soc") and tgt == "silent":
                    continue
                for we in (0, 1):
                    out.append({"std": std, "T": T, "tgt": tgt, "we": we})
    return out


def run_xbar(case):
    """the crossbar of each standard, built with timeout_cycles=T: a request to an unmapped address or to a slave that never
    answers must be terminated with the error indication within T + c cycles, and a following request must complete"""
    from migen import Module
    std, T, we = case["std"], case["T"], case["we"]
    cls = ["std:" + std, "T=%d" % T, case["tgt"], "write" if we else "read"]
    limit = 6 * T + 80
    ctx = "%s crossbar built with timeout_cycles=%d, %s %s" % (std, T, "write to" if we else "read from",
                                                               "an unmapped address" if case["tgt"] == "unmapped" else "a slave that never answers")
    if std.startswith("soc"):
        from litex.build.sim import SimPlatform
        from litex.soc.integration.soc_core import SoCCore
        from litex.soc.interconnect import wishbone, axi
        bstd = "wishbone" if std == "soc-wishbone" else "axi-lite"
        soc = SoCCore(SimPlatform("SIM", io=[]), clk_freq=int(1e6), cpu_type=None, with_uart=False, with_timer=False, integrated_sram_size=0x100,
                      integrated_rom_size=0, bus_timeout=T, bus_standard=bstd, bus_interconnect="crossbar")
        tb = wishbone.Interface(data_width=32, adr_width=30, addressing="word") if bstd == "wishbone" else axi.AXILiteInterface(data_width=32, address_width=32)
        soc.bus.add_master("tb", tb)
        soc.finalize()
        sram = soc.bus.regions["sram"].origin
        pr = bench.Probe([soc.ctrl._bus_errors.status])
        if bstd == "wishbone":
            # (with T=1 the SRAM's own answer falls into the expiry cycle: no recovery read there)
            ma = c11lib.WBOpMaster(tb, [{"we": we, "adr": 0x70000000 >> 2, "dat": 5, "gap": 2}] + ([{"we": 0, "adr": sram >> 2, "gap": 0}] if T > 1 else []))
        else:
            o = {"addr": 0x70000000, "data": 5, "gap": 2}
            ma = c11lib.AxMaster(tb, [o] if we else [], ([] if we else [o]) + [{"addr": sram, "gap": 0, "nb": 4}])
        cyc = bench.run(soc, [ma, pr], limit, stop=lambda t: ma.finished())
        if not ma.finished():
            return bad("termination", "%s: SoCCore(bus_interconnect='crossbar', bus_timeout=%d): the request is never terminated (%d cycles), "
                       "bus_errors=%d; the crossbar has %s timeout sub-module" % (ctx, T, cyc, pr.trace[-1][0], "a" if hasattr(soc.bus._interconnect, "timeout") else "no"),
                       key=K_XBAR, cls=cls, cycles=cyc)
        if pr.trace[-1][0] != 1:
            return bad("error-count", "%s: terminated but bus_errors=%d" % (ctx, pr.trace[-1][0]), key="c11:xbar-counter", cls=cls, cycles=cyc)
        return ok(nt=True, cls=cls, cycles=cyc)
    if std == "wishbone":
        from litex.soc.interconnect import wishbone
        from litex.soc.integration.soc import SoCRegion
        top = Module()
        m = wishbone.Interface(data_width=32, adr_width=30, addressing="word")
        sl = [wishbone.Interface(data_width=32, adr_width=30, addressing="word") for _ in range(2)]
        decs = [(SoCRegion(origin=o, size=sz).decoder(_Bus32), b) for (o, sz), b in zip(WB_WINS[:2], sl)]
        top.submodules.dut = dut = wishbone.Crossbar([m], decs, timeout_cycles=T)
        for j, b in enumerate(sl):
            top.submodules += c11lib.WBLatSlave(b, 16, _wb_init(1, j), m.ack)
        lat = c11lib.NEVER if case["tgt"] == "silent" else 0
        adr = (WB_WINS[0][0] + 8) if case["tgt"] == "silent" else WB_HOLES[0]
        ma = c11lib.WBOpMaster(m, [{"we": we, "adr": adr >> 2, "dat": (lat << 24) | 0x42, "gap": 2}, {"we": 0, "adr": (WB_WINS[1][0] + 4) >> 2, "dat": 0, "gap": 0}])
        cyc = bench.run(top, [ma], limit, stop=lambda t: ma.finished())
        if not ma.finished():
            return bad("termination", "%s: the request is never terminated (%d cycles); the crossbar has %s timeout sub-module" %
                       (ctx, cyc, "a" if hasattr(dut, "timeout") else "no"), key=K_XBAR, cls=cls, cycles=cyc)
        (_, s0, a0, d0, _), (_, s1, a1, d1, _) = ma.results
        if a0 - s0 > T or (not we and d0 != ONES):
            return bad("bound", "%s: terminated after %d cycles with dat_r=%#x" % (ctx, a0 - s0, d0), key="c11:xbar-bound", cls=cls, cycles=cyc)
        if d1 != _wb_init(1, 1)[1]:
            return bad("recovery", "%s: the following read returned %#x" % (ctx, d1), key="c11:xbar-recovery", cls=cls, cycles=cyc)
        return ok(nt=True, cls=cls, cycles=cyc)
    c = {"std": std, "T": T, "M": 1, "S": 2, "seed": 1,
         "mast": [{"w": [], "r": [], "idle": [0, 0]}],
         "slv": [{"atomic": 1, "pre": {"aw": 0, "w": 0, "ar": 0}, "win": {}}, {"atomic": 1, "pre": {"aw": 0, "w": 0, "ar": 0}, "win": {}}]}
    o = {"tgt": 0 if case["tgt"] == "silent" else -1, "hole": 0, "word": 2, "acc": c11lib.NEVER, "wacc": c11lib.NEVER, "rl": 1, "gap": 2, "bp": 0, "a_off": 0,
         "d_off": 0, "data": 0x42, "strb": 15}
    rec = {"tgt": 1, "word": 1, "acc": 1, "rl": 1, "gap": 0, "bp": 0, "a_off": 0, "d_off": 0}
    c["mast"][0]["w" if we else "r"].append(o)
    c["mast"][0]["r"].append(rec)
    top, dut, masters, slaves, full = _ax_build(c, crossbar=True)
    mags, sags = _ax_agents(c, masters, slaves, full)
    cyc = bench.run(top, mags + sags, limit, stop=lambda t: mags[0].finished())
    lane = mags[0].wl if we else mags[0].rl
    if not lane.finished():
        return bad("termination", "%s: the request is never terminated (%d cycles); the crossbar has %s timeout sub-module" %
                   (ctx, cyc, "a" if hasattr(dut, "timeout") else "no"), key=K_XBAR, cls=cls, cycles=cyc)
    L = lane.log[0]
    if L["resp"][1] != c11lib.RESP_SLVERR or L["resp"][0] - L["a_first"] > T + 2 or (not we and L["resp"][2] != ONES):
        return bad("bound", "%s: terminated with %r, %d cycles after the request" % (ctx, L["resp"], L["resp"][0] - L["a_first"]), key="c11:xbar-bound",
                   cls=cls, cycles=cyc)
    if not mags[0].finished() or mags[0].rl.log[-1]["resp"][1] != 0:
        return bad("recovery", "%s: the following read did not complete normally" % ctx, key="c11:xbar-recovery", cls=cls, cycles=cyc)
    return ok(nt=True, cls=cls, cycles=cyc)


# ======================================================================================= SoC error counter

SCRATCH_RESET = 0x12345678


def st_soc(tier):
    @st.composite
    def case(draw):
        std = draw(st.sampled_from(["wishbone", "wishbone", "axi-lite"]))
        T = draw(st.sampled_from(TS))
        ops = []
        for _ in range(draw(st.integers(3, 10 if tier == "quick" else 24))):
            k = draw(st.sampled_from(["u", "u", "s", "s", "c", "r"]))
            o = {"k": k, "we": draw(st.integers(0, 1)), "word": draw(st.integers(0, 15)), "dat": draw(st.integers(0, 0x7fffffff)),
                 "gap": draw(st.sampled_from([0, 0, 1, 3])), "hole": draw(st.sampled_from([0x70000000, 0x20000000, 0x01000100, 0x00010000]))}
            if std == "axi-lite":
                o["bp"] = draw(st.sampled_from([0, 0, 1, 3]))
            if k == "r":
                # the controller's reset register: hold / release the CPU reset bit (bit 1; bit 0 would reset the SoC) - errors of the
                # other masters are counted all the same
                o["we"], o["dat"] = 1, draw(st.sampled_from([2, 2, 0]))
            ops.append(o)
        # the counter's start value: 0, or close to its maximum (the state after 2**32-k earlier errors) to meet the saturation
        start = draw(st.sampled_from([0, 0, 0, 0xffffffff, 0xfffffffe, 0xfffffffd, 0xfffffffb]))
        return {"std": std, "T": T, "ops": ops, "start": start}
    return case()


def _preload_error_counter(ctrl, value):
    """the register behind the published bus_errors status: found as the source of the status assignment, started at `value`"""
    from migen.fhdl.structure import _Assign, Signal, Constant
    for st_ in ctrl._fragment.comb:          # the module's own statements (get_fragment() may be called only once, by the simulator)
        if isinstance(st_, _Assign) and st_.l is ctrl._bus_errors.status and isinstance(st_.r, Signal):
            st_.r.reset = Constant(value, (len(st_.r), False))
            return True
    return False


def run_soc(case):
    """CPU-less SoCCore with bus_timeout=T and a test master: ctrl.bus_errors advances by exactly the number of forced terminations"""
    from litex.build.sim import SimPlatform
    from litex.soc.integration.soc_core import SoCCore
    from litex.soc.interconnect import wishbone, axi
    std, T = case["std"], case["T"]
    soc = SoCCore(SimPlatform("SIM", io=[]), clk_freq=int(1e6), cpu_type=None, with_uart=False, with_timer=False, integrated_sram_size=0x100,
                  integrated_rom_size=0, bus_timeout=T, bus_standard=std, bus_interconnect="shared")
    tb = wishbone.Interface(data_width=32, adr_width=30, addressing="word") if std == "wishbone" else axi.AXILiteInterface(data_width=32, address_width=32)
    soc.bus.add_master("tb", tb)
    soc.finalize()
    start = case.get("start", 0)
    if start and not _preload_error_counter(soc.ctrl, start):
        start = 0
    sat = lambda v: min(start + v, ONES)
    ic = soc.bus._interconnect
    cls = ["std:" + std, "T=%d" % T]
    ctx = "SoCCore(bus_standard=%r, bus_timeout=%d)" % (std, T)
    if not hasattr(ic, "timeout"):
        return bad("no-timeout", "%s: interconnect %s has no timeout" % (ctx, type(ic).__name__), key="c11:soc-no-timeout", cls=cls)
    sram = soc.bus.regions["sram"].origin
    csr = soc.bus.regions["csr"].origin
    pr = bench.Probe([soc.ctrl._bus_errors.status, ic.timeout.error])

    def addr(o):
        return o["hole"] + 4 * o["word"] if o["k"] == "u" else (sram + 4 * o["word"] if o["k"] == "s" else (csr + 4 if o["k"] == "c" else csr))

    ops = case["ops"]
    limit = 60 + len(ops) * (T + 14)
    if std == "wishbone":
        mops = [{"we": o["we"] if not (T == 1 and o["k"] != "u") else 0, "adr": addr(o) >> 2, "dat": o["dat"], "gap": o["gap"]} for o in ops]
        mops.append({"we": 0, "adr": (csr + 8) >> 2, "dat": 0, "gap": 2})      # bus_errors through the bus
        mops.append({"we": 0, "adr": (csr + 4) >> 2, "dat": 0, "gap": 0})      # scratch (layout sanity)
        ma = c11lib.WBOpMaster(tb, mops)
        cyc = bench.run(soc, [ma, pr], limit + 40, stop=lambda t: ma.finished())
        if not ma.finished():
            return bad("termination", "%s: operation %d %r never terminated" % (ctx, ma.i, mops[ma.i]), key="c11:soc-hang", cls=cls, cycles=cyc)
        forced = 0
        mem = {}
        scratch = SCRATCH_RESET
        for (i, s0, a0, d0, _), o in zip(ma.results, ops):
            we = mops[i]["we"]
            if a0 - s0 > T:
                return bad("bound", "%s: op %d %r terminated %d cycles after the request" % (ctx, i, o, a0 - s0), key="c11:soc-bound", cls=cls, cycles=cyc)
            if o["k"] == "u" or (not we and d0 == ONES and a0 - s0 == T):
                forced += 1
                if not we and d0 != ONES:
                    return bad("error-indication", "%s: op %d to an unmapped address read %#x" % (ctx, i, d0), key="c11:soc-indication", cls=cls, cycles=cyc)
                continue
            if a0 - s0 == T and we:
                return skip("write answered in the expiry cycle: ambiguous")
            if o["k"] == "r":
                cls.append("cpu-reset-bit-written")
                continue
            if we:
                if o["k"] == "s":
                    mem[o["word"]] = o["dat"]
                else:
                    scratch = o["dat"]
            else:
                exp = mem.get(o["word"], 0) if o["k"] == "s" else scratch
                if d0 != exp:
                    return bad("disturbed", "%s: op %d %r read %#x, expected %#x" % (ctx, i, o, d0, exp), key="c11:soc-data", cls=cls, cycles=cyc)
        final = pr.trace[-1][0]
        pulses = sum(v[1] for v in pr.trace[1:])
        (_, sb, ab, db, _), (_, ss, as_, ds, _) = ma.results[-2:]
        f_be = ab - sb == T and db == ONES
        f_sc = as_ - ss == T and ds == ONES
        exp_final = sat(forced + int(f_be) + int(f_sc))
        if start:
            cls.append("counter-near-maximum" + (":saturated" if start + forced + int(f_be) + int(f_sc) >= ONES else ""))
        if final != exp_final:
            return bad("error-count", "%s: counter started at %#x, %d forced terminations, bus_errors=%#x (%d error pulses), expected %#x (saturating)" %
                       (ctx, start, forced + int(f_be) + int(f_sc), final, pulses, exp_final), key="c11:soc-counter", cls=cls, cycles=cyc)
        if not f_be and not f_sc:
            if ds != scratch:
                return skip("unexpected CSR layout")
            if db != sat(forced):
                return bad("error-count", "%s: bus_errors read through the bus = %#x, started at %#x, %d forced terminations" % (ctx, db, start, forced), key="c11:soc-counter",
                           cls=cls, cycles=cyc)
            cls.append("counter-read-through-bus")
        return ok(nt=forced >= 2, cls=cls + ["forced>=2"] * (forced >= 2), cycles=cyc, counts={"forced": forced})
    wops = [{"addr": addr(o), "data": o["dat"], "gap": o["gap"], "bp": o.get("bp", 0)} for o in ops if o["we"]]
    rops = [{"addr": addr(o), "gap": o["gap"], "bp": o.get("bp", 0)} for o in ops if not o["we"]]
    ma = c11lib.AxMaster(tb, wops, rops)
    cyc = bench.run(soc, [ma, pr], limit, stop=lambda t: ma.finished())
    if not ma.finished():
        return bad("termination", "%s: the test master never finished (%d cycles)" % (ctx, cyc), key="c11:soc-hang", cls=cls, cycles=cyc)
    slverr = sum(1 for lane in (ma.wl, ma.rl) for L in lane.log if L["resp"][1] == c11lib.RESP_SLVERR)
    for lane, lops in ((ma.wl, [o for o in ops if o["we"]]), (ma.rl, [o for o in ops if not o["we"]])):
        for L, o in zip(lane.log, lops):
            if o["k"] == "u" and (L["resp"][1] != c11lib.RESP_SLVERR or (not o["we"] and L["resp"][2] != ONES)):
                # reads and writes run concurrently here; AXILiteDecoder routes by its registered select while a request of the other
                # direction is outstanding (finding recorded under C08): an unmapped access can then reach a slave and be answered
                both = any(x["we"] for x in ops) and any(not x["we"] for x in ops)
                return bad("error-indication", "%s: access to unmapped %#x answered %r" % (ctx, addr(o), L["resp"]),
                           key="c11:soc-axil-decoder-concurrent" if both else "c11:soc-indication", cls=cls, cycles=cyc)
    final = pr.trace[-1][0]
    pulses = sum(v[1] for v in pr.trace[1:])
    if start:
        cls.append("counter-near-maximum" + (":saturated" if start + slverr >= ONES else ""))
        if final != sat(slverr) and final != sat(pulses):
            return bad("error-count", "%s: counter started at %#x, %d SLVERR terminations (%d error pulses), bus_errors=%#x, expected %#x (saturating)" %
                       (ctx, start, slverr, pulses, final, sat(slverr)), key="c11:soc-counter", cls=cls, cycles=cyc)
        return ok(nt=slverr >= 2, cls=cls + ["forced>=2"] * (slverr >= 2), cycles=cyc, counts={"forced": slverr})
    if final != slverr:
        if final == pulses and pulses < slverr:
            return bad("error-count", "%s: %d accesses were terminated with SLVERR by the timeout but bus_errors=%d: a read and a write timeout that expire in "
                       "the same cycle share one error pulse" % (ctx, slverr, final), key=K_MERGED, cls=cls + ["merged-error-pulse"], cycles=cyc)
        return bad("error-count", "%s: %d SLVERR terminations, bus_errors=%d, %d error pulses" % (ctx, slverr, final, pulses), key="c11:soc-counter",
                   cls=cls, cycles=cyc)
    return ok(nt=slverr >= 2, cls=cls + ["forced>=2"] * (slverr >= 2), cycles=cyc, counts={"forced": slverr})


# ======================================================================================= buses composed by SoCBusHandler

K_P2P = "c11:socbus-p2p-no-timeout"


def enum_socbus(tier):
    """SoCBusHandler(timeout=T) composing the bus itself: 1..2 masters x 1..2 slaves, the first slave's region at 0 or elsewhere,
    registered / unregistered decode; one master reads a mapped word, an unmapped address, a slave that never answers, and a
    mapped word again"""
    out = []
    for T in (2, 5, 9):
        for M in (1, 2):
            for S in (1, 2):
                for origin in (0, 0x40000000):
                    for register in (False, True):
                        out.append({"T": T, "M": M, "S": S, "origin": origin, "register": register})
    return out


def run_socbus(case):
    from migen import Module, Signal
    from litex.soc.interconnect import wishbone
    from litex.soc.integration.soc import SoCBusHandler, SoCRegion
    T, M, S, origin, register = case["T"], case["M"], case["S"], case["origin"], bool(case["register"])
    top = Module()
    h = SoCBusHandler(standard="wishbone", data_width=32, address_width=32, timeout=T, interconnect="shared", interconnect_register=register)
    masters = [wishbone.Interface(data_width=32, adr_width=30, addressing="word") for _ in range(M)]
    slaves = [wishbone.Interface(data_width=32, adr_width=30, addressing="word") for _ in range(S)]
    bases = [origin, 0x10000000][:S]
    try:
        for i, m in enumerate(masters):
            h.add_master("m%d" % i, m)
        for j, (sl, b) in enumerate(zip(slaves, bases)):
            h.add_slave("s%d" % j, sl, SoCRegion(origin=b, size=0x1000))
    finally:
        env.restore_stderr()
    top.submodules.h = h
    term = Signal()
    from functools import reduce
    from operator import or_
    top.comb += term.eq(reduce(or_, [m.ack for m in masters]))
    for j, sl in enumerate(slaves):
        top.submodules += c11lib.WBLatSlave(sl, 16, _wb_init(7, j), term, min_latency1=register)
    hole = 0x70000000
    lat0 = 1 if register else 0
    mk = lambda we, badr, lat: {"we": we, "adr": badr >> 2, "dat": (1 << 28) | (lat << 24) | 0x1234, "sel": 15, "gap": 1, "hold": False}
    ops = [mk(0, bases[0] + 8, lat0), mk(0, hole, 0), mk(0, bases[0] + 12, c11lib.NEVER), mk(0, bases[0] + 8, lat0), mk(1, hole + 4, 0), mk(0, bases[-1] + 4, lat0)]
    kinds = ["mapped", "unmapped", "silent", "mapped", "unmapped", "mapped"]
    mags = [c11lib.WBOpMaster(masters[0], ops)] + [c11lib.WBOpMaster(m, [mk(0, bases[-1] + 16, lat0)]) for m in masters[1:]]
    limit = 80 + len(ops) * (T + 12)
    cyc = bench.run(top, mags, limit, stop=lambda t: all(a.finished() for a in mags))
    p2p = M == 1 and S == 1 and origin == 0
    cls = ["socbus", "T=%d" % T, "M%dS%d" % (M, S), "origin=%#x" % origin, "registered" if register else "comb-decode"] + (["point-to-point"] if p2p else [])
    ctx = "SoCBusHandler(wishbone, timeout=%d, shared%s) %d master(s), %d slave(s), first region at %#x" % (T, ", registered" if register else "", M, S, origin)
    key = K_P2P if p2p else "c11:socbus"
    for a in mags:
        if not a.finished():
            i = a.i
            return bad("termination", "%s: the %s request #%d (%s %#x) was never terminated (%d cycles): %s" %
                       (ctx, kinds[i] if a is mags[0] else "mapped", i, "write" if a.ops[i]["we"] else "read", a.ops[i]["adr"] << 2, cyc,
                        "the bus is a point-to-point connection without a timeout unit" if not hasattr(h._interconnect, "timeout") else "timeout unit present"),
                       key=key, cls=cls, cycles=cyc)
    init0 = _wb_init(7, 0)
    for (i, s0, ackc, dat_r, err), kd in zip(mags[0].results, kinds):
        if kd == "mapped":
            j = 0 if i != 5 else S - 1
            exp = _wb_init(7, j)[(ops[i]["adr"]) & 15]
            if dat_r != exp:
                return bad("disturbed", "%s: mapped read #%d of %#x returned %#x, the slave holds %#x" % (ctx, i, ops[i]["adr"] << 2, dat_r, exp),
                           key=key, cls=cls, cycles=cyc)
        else:
            if ackc - s0 > (T + 3) * M + 2:          # (waiting for the other master's cycle included; the exact bound is run_wb's)
                return bad("bound", "%s: %s request #%d terminated %d cycles after it was issued" % (ctx, kd, i, ackc - s0), key=key, cls=cls, cycles=cyc)
            if not ops[i]["we"] and dat_r != ONES:
                return bad("error-indication", "%s: %s read #%d was answered with %#x instead of all ones" % (ctx, kd, i, dat_r), key=key, cls=cls, cycles=cyc)
    return ok(nt=True, cls=cls, cycles=cyc)


def subchecks():
    return [
        Sub("wishbone", run_wb, strategy=st_wb, examples=(2000, 40000), timeout=(600, 7200),
            rule="generated shared Wishbone interconnects with per-request slave latencies, silent windows and recovery programs"),
        Sub("wishbone-exhaustive", run_wb, enum=enum_wb, exhaustive=True,
            rule="T=1..4 x ALL answer offsets 0..T+2/never (two mechanisms) x rd/wr x unmapped x 1-2 masters x held cyc x registered"),
        Sub("axi-lite", run_axi, strategy=st_axi("axil"), examples=(1440, 30000), timeout=(600, 7200),
            rule="AXILiteInterconnectShared: request-relative accept latencies around expiry, silent windows per channel, AW-W skew, "
                 "response back-pressure, recovery; classes partial/silent/pipe/skew/race generated, the last four with their own finding keys"),
        Sub("axi", run_axi, strategy=st_axi("axi"), examples=(480, 10000), timeout=(600, 7200),
            rule="AXIInterconnectShared with single-beat bursts, same agents and oracle"),
        Sub("crossbars", run_xbar, enum=enum_xbar, exhaustive=True,
            rule="Crossbar / AXILiteCrossbar / AXICrossbar / SoCCore(bus_interconnect='crossbar') built with timeout T in {1,4,16} x unmapped or silent target x rd/wr"),
        Sub("socbus-timeout", run_socbus, enum=enum_socbus, exhaustive=True, shards=(8, 8),
            rule="buses composed by SoCBusHandler.do_finalize with a timeout configured: mapped / unmapped / never-answered requests"),
        Sub("soc-counter", run_soc, strategy=st_soc, examples=(240, 5000), timeout=(600, 7200),
            rule="CPU-less SoCCore (wishbone / axi-lite, shared) with bus_timeout=T and a test master: programs over unmapped addresses, SRAM and the "
                 "scratch CSR; ctrl.bus_errors (signal and read through the bus) == number of forced terminations"),
    ]

"""C14 - Exported software maps tell the truth about the hardware."""
import json
import os
import re
import tempfile

from hypothesis import strategies as st

from vlib.runner import Sub, ok, bad, skip
from vlib import bench, wb, env

RULE = ("generated CPU-less SoCCore configurations (bus standard wishbone/axi-lite/axi x bus width 32/64 x shared/crossbar x CSR "
        "paging x CSR address width x CSR origin x 1..4 peripherals with generated register sets (storages/statuses 1..70 bit, "
        "fields) and CSR-mapped memories, CSR constants, event managers with fixed or allocated interrupt numbers on a CPU-like "
        "interrupt vector, fixed csr_map slots, integrated SRAM / main RAM / ROM with contents / extra RAMs at generated origins "
        "and sizes incl. sizes that are no power of two and allocator-placed regions) are finalised, exported with "
        "the real functions (C header with accessors, JSON, CSV, SVD, mem header, SoC header, linker regions) and SIMULATED: "
        "a test bus master writes a unique value "
        "through every published writable register's accessor sequence (as the generated C accessors compose it) and the "
        "register's own storage signal must take it while every other storage keeps its value; every status is driven to a "
        "unique value and read through the published address sequence; published memory windows and regions are accessed at "
        "their first/last word (all RAMs written first, read back afterwards; ROM against its image); every peripheral's event "
        "is raised with its enables written through the published registers and the CPU interrupt vector must read exactly "
        "1 << published number; all formats must agree register by register (address, first bit), region by region, constant by "
        "constant, interrupt by interrupt; accessor C types must hold the register; memory images: every source byte must sit at the word and lane a "
        "CPU of the stated endianness reads it from; non-trivial = SoC with >= 2 banks, a multi-word register and a non-default "
        "paging or origin; distinct = canonical JSON")
ASSUMPTIONS = ["Migen's simulator (site-packages) defines FHDL semantics; tracer shim stands in for Migen's byte-code tracer",
               "known findings excluded by construction and replayed: csr_data_width=8 (CSR word i answers at byte i, exports say 4*i), "
               "csr_ordering='little' (accessors/SVD compose big-endian), get_mem_data(big, >= 64 bit) lane order",
               "the test master is a 32-bit Wishbone interface attached through the SoC's own add_master/add_adapter path"]


def _m(w):
    return (1 << w) - 1


def st_soc(tier):
    @st.composite
    def case(draw):
        std = draw(st.sampled_from(["wishbone", "wishbone", "axi-lite", "axi"]))
        c = {"std": std, "dw": draw(st.sampled_from([32, 32, 64])), "ic": draw(st.sampled_from(["shared", "crossbar"])),
             "paging": draw(st.sampled_from([0x800, 0x800, 0x400, 0x1000])), "csr_aw": draw(st.sampled_from([14, 14, 15])),
             "csr_origin": draw(st.sampled_from([None, 0x82000000, 0xf0000000, 0x90000000])),
             "csr_dw": 32, "ordering": "big",
             "sram": draw(st.sampled_from([0x100, 0x1000, 0x2000])), "seed": draw(st.integers(0, 2 ** 16))}
        periphs = []
        pgw_ = c["paging"] // 4
        for pi in range(draw(st.integers(1, 3 if tier == "quick" else 4))):
            regs = []
            for ri in range(draw(st.integers(1, 4))):
                kind = draw(st.sampled_from(["storage", "storage", "status"]))
                size = draw(st.one_of(st.integers(1, 32), st.integers(33, 70), st.sampled_from([32, 64, 33, 8])))
                regs.append({"kind": kind, "size": size})
                if draw(st.integers(0, 3)) == 0:
                    # a register made of fields (published as OFFSET/SIZE macros and SVD bit ranges); fields end at, start at and
                    # cross the CSR word boundary
                    fl, bit = [], 0
                    for fi in range(draw(st.integers(1, 4))):
                        w_ = draw(st.sampled_from([1, 3, 5, 8, 12, 16, 20]))
                        how = draw(st.integers(0, 5))
                        if how == 0 and bit < 32 - w_:
                            off = 32 - w_                  # ends exactly at the word boundary
                        elif how == 1 and bit <= 32:
                            off = 32                       # starts at it
                        elif how == 2 and bit < 32 and 32 - bit < 20:
                            off, w_ = bit, 32 - bit + draw(st.integers(1, 9))      # crosses it
                        else:
                            off = bit + draw(st.sampled_from([0, 0, 1, 4]))
                        if off + w_ > 64:
                            break
                        fl.append(["f%d" % fi, w_, off])
                        bit = off + w_
                    if fl:
                        regs[-1]["fields"] = fl
                        regs[-1]["size"] = fl[-1][2] + fl[-1][1]
                if kind == "storage" and draw(st.integers(0, 2)) == 0:
                    # the whole register changes at once, when the accessor's last word write arrives (the published sequence must end there)
                    regs[-1]["atomic"] = True
            if draw(st.integers(0, 3)) == 0:
                # one register pinned at a fixed location of its bank; lower locations that stay unused get filler registers
                regs[draw(st.integers(0, len(regs) - 1))]["n"] = draw(st.integers(0, 6))
            mem = draw(st.one_of(st.none(), st.none(), st.sampled_from([[32, 8], [32, 16], [8, 16], [16, 8], [64, 8], [40, 12],
                                                                         # larger than one page of this SoC's CSR paging (1, 2, 3 pages; wider than the CSR word)
                                                                         [32, pgw_ + 88], [64, pgw_ // 2 + 44], [8, 2 * pgw_ + 76], [64, pgw_ + 10], [96, pgw_ // 4 + 30]])))
            slot = draw(st.one_of(st.none(), st.none(), st.integers(4, 12)))
            ev = draw(st.one_of(st.none(), st.fixed_dictionaries({"n": st.integers(1, 3), "irq": st.one_of(st.none(), st.none(), st.integers(0, 31))})))
            const = draw(st.one_of(st.none(), st.integers(0, 2 ** 32 - 1)))
            periphs.append({"regs": regs, "mem": mem, "slot": slot, "ev": ev, "const": const})
        slots = [p["slot"] for p in periphs if p["slot"] is not None]
        if len(set(slots)) != len(slots):
            for p in periphs:
                p["slot"] = None
        irqs = [p["ev"]["irq"] for p in periphs if p["ev"] and p["ev"]["irq"] is not None]
        if len(set(irqs)) != len(irqs):
            for p in periphs:
                if p["ev"]:
                    p["ev"]["irq"] = None
        c["periphs"] = periphs
        # a CPU-like interrupt input exists and the IRQ handler is enabled (only with at least one interrupt source: finalising
        # a SoC whose CPU has interrupts but no source at all stops with a ValueError, which is no export matter)
        c["irq"] = draw(st.integers(0, 3)) != 0 and any(p["ev"] for p in periphs)
        # further memory regions: main_ram (default origin), rom with contents (only when the CSRs do not sit at 0), and an
        # extra RAM at a generated origin
        c["main_ram"] = draw(st.sampled_from([0, 0, 0x100, 0x800, 0x1800]))
        c["rom"] = draw(st.sampled_from([0, 0x80, 0x1000])) if c["csr_origin"] is not None else 0
        c["extra"] = draw(st.one_of(st.none(), st.fixed_dictionaries({
            "origin": st.sampled_from([0x20000000, 0x30000000, 0x50000000, 0x50004000, 0x10000400] +
                                      ([0x13000, 0x13000] if c["csr_origin"] is None else [0x3000, 0x7000])),
            "size": st.sampled_from([0x40, 0x400, 0x1000, 0x300])})))
        # a RAM whose size is no power of two (it decodes a window rounded up to one), added last: placed by the SoC's
        # allocator (origin None) or just below the extra RAM so that the rounded window would reach it (such a map must be
        # refused or be truthful)
        c["extra2"] = draw(st.one_of(st.none(), st.fixed_dictionaries({
            "size": st.sampled_from([0x300, 0xc00, 0x1800, 0x3000]), "below": st.sampled_from([False, False, False, True])})))
        return c
    return case()


def _rom_word(i):
    return (0x9e3779b9 * (i + 1)) & 0xffffffff


def _build(case):
    from migen import Module, Memory
    from litex.build.sim import SimPlatform
    from litex.soc.integration.soc_core import SoCCore
    from litex.soc.interconnect import wishbone
    from litex.soc.interconnect.csr import AutoCSR, CSRStorage, CSRStatus, CSRConstant, CSRField
    from litex.soc.interconnect.csr_eventmanager import EventManager, EventSourceLevel
    from migen import Signal
    plat = SimPlatform("SIM", io=[])
    rom = case.get("rom", 0)
    kwargs = dict(cpu_type=None, with_uart=False, with_timer=False, integrated_rom_size=rom,
                  integrated_rom_init=[_rom_word(i) for i in range(rom // 4)] if rom else [],
                  integrated_sram_size=case["sram"],
                  integrated_main_ram_size=case.get("main_ram", 0), bus_standard=case["std"], bus_data_width=case["dw"], bus_interconnect=case["ic"],
                  csr_data_width=case["csr_dw"], csr_paging=case["paging"], csr_ordering=case["ordering"], csr_address_width=case["csr_aw"],
                  bus_timeout=64)
    csr_map = {}
    mem_map = {}
    if case["csr_origin"] is not None:
        mem_map["csr"] = case["csr_origin"]

    class Periph(Module, AutoCSR):
        def __init__(self, spec, idx):
            self.regs = []
            for ri, r in enumerate(spec["regs"]):
                fkw = {"fields": [CSRField(fn, size=fs, offset=fo) for fn, fs, fo in r["fields"]]} if r.get("fields") else {"size": r["size"]}
                if r["kind"] == "storage":
                    o = CSRStorage(name="r%d" % ri, n=r.get("n"), atomic_write=bool(r.get("atomic")), **fkw)
                else:
                    o = CSRStatus(name="r%d" % ri, n=r.get("n"), **fkw)
                setattr(self, "r%d" % ri, o)
                self.regs.append(o)
            if spec["mem"]:
                w, d = spec["mem"]
                self.mem = Memory(w, d, init=[(((idx + 1) * 1000003 * (i + 1)) * 0x9E3779B97F4A7C15 >> 11) & _m(w) for i in range(d)], name="win")
                self.specials += self.mem
            if spec.get("const") is not None:
                self.k = CSRConstant(spec["const"], name="k")
            self.triggers = []
            if spec.get("ev"):
                self.submodules.ev = EventManager()
                for ei in range(spec["ev"]["n"]):
                    src = EventSourceLevel(name="e%d" % ei)
                    setattr(self.ev, "e%d" % ei, src)
                    self.triggers.append(src.trigger)
                self.ev.finalize()

    class TB(SoCCore):
        csr_map = {}

        def __init__(self):
            for pi, p in enumerate(case["periphs"]):
                if p["slot"] is not None:
                    TB.csr_map = dict(TB.csr_map)
            SoCCore.mem_map = dict(SoCCore.mem_map)
            if "csr" in mem_map:
                self.mem_map = dict(SoCCore.mem_map)
                self.mem_map["csr"] = mem_map["csr"]
            SoCCore.__init__(self, plat, int(1e6), **kwargs)
            if case.get("irq"):
                # what a CPU brings: an interrupt input vector and an enabled IRQ handler
                self.cpu.interrupt = Signal(32, name="cpu_interrupt")
                self.cpu.interrupts = {}
                self.irq.enable()
            if case.get("extra"):
                self.add_ram("extra", origin=case["extra"]["origin"], size=case["extra"]["size"])
            if case.get("extra2"):
                size2 = case["extra2"]["size"]
                origin2 = None
                if case["extra2"]["below"] and case.get("extra"):
                    pow2 = 1 << (size2 - 1).bit_length()
                    o2 = case["extra"]["origin"] // pow2 * pow2
                    if case["extra"]["origin"] - o2 >= size2:
                        origin2 = o2
                self.add_ram("extra2", origin=origin2, size=size2)
            self.periphs = []
            for pi, p in enumerate(case["periphs"]):
                per = Periph(p, pi)
                name = "p%d" % pi
                self.add_module(name=name, module=per)
                if p["slot"] is not None:
                    self.csr.add(name, n=p["slot"])
                if p.get("ev") and case.get("irq"):
                    if p["ev"]["irq"] is not None:
                        self.irq.add(name, n=p["ev"]["irq"])
                    else:
                        self.irq.add(name)
                self.periphs.append(per)
            self.tb = wishbone.Interface(data_width=32, address_width=32, addressing="word")
            self.bus.add_master(name="tb", master=self.tb)

    soc = TB()
    soc.finalize()
    return soc


def _parse_header(text):
    defs = {}
    base = 0
    m = re.search(r"#define CSR_BASE (0x[0-9a-f]+)L", text)
    if m:
        base = int(m.group(1), 16)
    for m in re.finditer(r"#define (CSR_\w+_ADDR|CSR_\w+_BASE) (?:\(CSR_BASE \+ (0x[0-9a-f]+)L\)|(0x[0-9a-f]+)L)", text):
        name = m.group(1)
        defs[name] = base + int(m.group(2), 16) if m.group(2) else int(m.group(3), 16)
    sizes = {m.group(1): int(m.group(2)) for m in re.finditer(r"#define (CSR_\w+_SIZE) (\d+)", text)}
    # accessor bodies: sequences of csr_read_simple / csr_write_simple
    funcs = {}
    ctypes = {}
    for m in re.finditer(r"static inline (\w+) (\w+)_(read|write)\(([^)]*)\) \{\n(.*?)\n\}", text, re.S):
        rt, name, rw, arg, body = m.groups()
        ctypes[(name, rw)] = rt if rw == "read" else arg.split()[0]
        seq = []
        for a in re.finditer(r"csr_(read|write)_simple\((?:(v(?: >> (\d+))?), )?(?:\(CSR_BASE \+ (0x[0-9a-f]+)L\)|(0x[0-9a-f]+)L)\)", body):
            addr = base + int(a.group(4), 16) if a.group(4) else int(a.group(5), 16)
            seq.append((addr, int(a.group(3) or 0)))
        shifts = [int(x) for x in re.findall(r"r <<= (\d+);", body)]
        funcs[(name, rw)] = (seq, shifts)
    funcs["ctypes"] = ctypes
    return base, defs, sizes, funcs


def _parse_svd(text):
    """-> (registers {PERIPH: (base, [(name, offset, bit origin or None, owner or None)])}, interrupts {periph: n},
    memory regions {NAME: (base, size)}, constants {NAME: str})"""
    import xml.etree.ElementTree as ET
    root = ET.fromstring(text.split("\n", 1)[1] if text.startswith("<?xml") else text)
    regs, irqs = {}, {}
    fields = {}          # PERIPH -> {svd register name: [(field name, lsb, msb, bitRange text)]}
    for per in root.find("peripherals").findall("peripheral"):
        name = per.findtext("name")
        base = int(per.findtext("baseAddress"), 16)
        lst = []
        for r in per.find("registers").findall("register"):
            d = r.findtext("description") or ""
            m = re.match(r"Bits? (\d+)(?:-(\d+))? of `(\w+)`", d)
            lst.append((r.findtext("name"), int(r.findtext("addressOffset"), 16), int(m.group(1)) if m else None, m.group(3) if m else None))
            fl = r.find("fields")
            for f_ in (fl.findall("field") if fl is not None else []):
                fields.setdefault(name, {}).setdefault(r.findtext("name"), []).append((f_.findtext("name"), int(f_.findtext("lsb")), int(f_.findtext("msb")),
                                                                                     f_.findtext("bitRange")))
        regs[name] = (base, lst)
        it = per.find("interrupt")
        if it is not None:
            irqs[it.findtext("name")] = int(it.findtext("value"))
    mems, consts = {}, {}
    ve = root.find("vendorExtensions")
    mr = ve.find("memoryRegions")
    if mr is not None:
        for m_ in mr.findall("memoryRegion"):
            mems[m_.findtext("name")] = (int(m_.findtext("baseAddress"), 16), int(m_.findtext("size"), 16))
    for c in ve.find("constants").findall("constant"):
        consts[c.get("name")] = c.get("value")
    return regs, irqs, mems, consts, fields


def _k(case, base):
    if case["csr_dw"] == 8:
        return "c14:csr-dw8-stride"
    if case["ordering"] == "little":
        return "c14:csr-ordering-little"
    return base


def _export_crash(ex, case, cls):
    """an exception that escapes from an exporter of the tree under test on a SoC that finalised is a finding, one raised by
    the harness' own code is a harness error (re-raised)"""
    import traceback
    tb = traceback.extract_tb(ex.__traceback__)
    inner = tb[-1]
    if not os.path.realpath(inner.filename).startswith(os.path.realpath(env.REPO) + os.sep):
        raise ex
    return bad("export-crash", "%s(%s) escaped from the exporters at %s:%d (%s)" % (type(ex).__name__, str(ex)[:120],
               os.path.relpath(inner.filename, env.REPO), inner.lineno, inner.name), key="c14:export-crash", cls=cls)


def _acc_pairs(name, r, hfuncs, busword):
    """(address, first bit of the register held there) as the generated accessors compose the register; registers wider
    than 64 bit have no accessor: most significant word first from the published address and size."""
    if (name, "write") in hfuncs and hfuncs[(name, "write")][0]:
        return sorted(hfuncs[(name, "write")][0])
    if (name, "read") in hfuncs and hfuncs[(name, "read")][0]:
        seq, shifts = hfuncs[(name, "read")]
        return sorted((a, sum(shifts[i:])) for i, (a, _) in enumerate(seq))
    return sorted((r["addr"] + 4 * i, (r["size"] - 1 - i) * busword) for i in range(r["size"]))


def _ranges(bits):
    out, bits = [], sorted(bits)
    for b in bits:
        if out and out[-1][1] == b - 1:
            out[-1][1] = b
        else:
            out.append([b, b])
    return [tuple(x) for x in out]


def _formats_more(case, soc, js, hdr, csv, hdefs, hfuncs, cls):
    """SVD, mem header, SoC header, linker regions against the JSON (whose addresses the simulation then visits)."""
    from litex.soc.integration import export
    busword = case["csr_dw"]
    svd_regs, svd_irqs, svd_mems, svd_consts, svd_fields = _parse_svd(export.get_csr_svd(soc, description="x"))
    # -- fields: OFFSET/SIZE macros of the header and the bit ranges of the SVD against the fields the registers are made of
    hoff = {m.group(1): int(m.group(2)) for m in re.finditer(r"#define (CSR_\w+)_OFFSET (\d+)", hdr)}
    hsiz = {m.group(1): int(m.group(2)) for m in re.finditer(r"#define (CSR_\w+)_SIZE (\d+)", hdr)}
    from migen import Memory as _Mem
    for rname, region in soc.csr_regions.items():
        if isinstance(region.obj, _Mem):
            continue
        for c in region.obj:
            fl = list(c.fields.fields) if hasattr(c, "fields") else []
            if not fl:
                continue
            nwords = (c.size + busword - 1) // busword
            per = svd_fields.get(rname.upper(), {})
            subs = [(c.name.upper(), 0)] if nwords == 1 else [((c.name + str(i)).upper(), i * busword) for i in range(nwords)]
            for f in fl:
                mac = "CSR_%s_%s_%s" % (rname.upper(), c.name.upper(), f.name.upper())
                if (hoff.get(mac), hsiz.get(mac)) != (f.offset, f.size):
                    return bad("formats", "field %s of %s_%s sits at bits [%d:%d] of the register; the header publishes offset %r size %r" %
                               (f.name, rname, c.name, f.offset + f.size - 1, f.offset, hoff.get(mac), hsiz.get(mac)), key=_k(case, "c14:formats-field"), cls=cls)
                bits = []
                for sname, org in subs:
                    for (fn, lsb, msb, br) in per.get(sname, []):
                        if fn != f.name:
                            continue
                        if not (0 <= lsb <= msb < busword) or br != "[%d:%d]" % (msb, lsb):
                            return bad("formats", "field %s of %s_%s (bits [%d:%d] of the register): the SVD lists it in %s with bitRange %s lsb %d msb %d" %
                                       (f.name, rname, c.name, f.offset + f.size - 1, f.offset, sname, br, lsb, msb), key=_k(case, "c14:formats-field"), cls=cls)
                        bits += list(range(org + lsb, org + msb + 1))
                if sorted(bits) != list(range(f.offset, f.offset + f.size)):
                    return bad("formats", "field %s of %s_%s sits at bits [%d:%d] of the register; the pieces the SVD publishes cover bits %r" %
                               (f.name, rname, c.name, f.offset + f.size - 1, f.offset, _ranges(bits)), key=_k(case, "c14:formats-field"), cls=cls)
    # -- registers: every (address, bit origin) pair of the SVD must be the one the accessors use
    for name, r in js["csr_registers"].items():
        # the peripheral a register belongs to: a base name that prefixes it (a memory window "p0_win" also has a base, so
        # "p0_win_page" is looked up under every prefixing base, longest first, and the first that lists it decides)
        cands = [b for b in sorted(js["csr_bases"], key=len, reverse=True) if name.startswith(b + "_") and b.upper() in svd_regs]
        if not cands:
            return bad("formats", "register %s: no SVD peripheral for it" % name, key="c14:formats-svd", cls=cls)
        got = []
        for per in cands:
            base, lst = svd_regs[per.upper()]
            short = name[len(per) + 1:]
            if r["size"] == 1:
                got = sorted((base + off, 0) for (n_, off, org, owner) in lst if n_ == short.upper() and owner is None)
            else:
                got = sorted((base + off, org) for (n_, off, org, owner) in lst if owner == name.upper())
            if got:
                break
        want = _acc_pairs(name, r, hfuncs, busword)
        if got != want:
            return bad("formats", "register %s: SVD places it at %s (address, first bit), header/JSON at %s" %
                       (name, [(hex(a), o) for a, o in got], [(hex(a), o) for a, o in want]), key=_k(case, "c14:formats-svd"), cls=cls)
    for name, b in js["csr_bases"].items():
        if name.upper() in svd_regs and svd_regs[name.upper()][0] != b:
            return bad("formats", "bank %s: SVD baseAddress %#x, JSON %#x" % (name, svd_regs[name.upper()][0], b), key="c14:formats-svd", cls=cls)
    # -- memory regions
    memh = export.get_mem_header(soc.mem_regions)
    ld = export.get_linker_regions(soc.mem_regions)
    for name, m in js["memories"].items():
        hb = re.search(r"#define %s_BASE (0x[0-9a-f]+)L" % name.upper(), memh)
        hs = re.search(r"#define %s_SIZE (0x[0-9a-f]+)" % name.upper(), memh)
        if not hb or not hs or int(hb.group(1), 16) != m["base"] or int(hs.group(1), 16) != m["size"]:
            return bad("formats", "region %s: mem header says %s/%s, JSON base %#x size %#x" %
                       (name, hb.group(1) if hb else None, hs.group(1) if hs else None, m["base"], m["size"]), key="c14:formats-mem", cls=cls)
        mm = re.search(r"^memory_region,%s,(0x[0-9a-f]+),(\d+),(\S+)$" % re.escape(name), csv, re.M)
        if not mm or int(mm.group(1), 16) != m["base"] or int(mm.group(2)) != m["size"] or mm.group(3) != m["type"]:
            return bad("formats", "region %s: CSV line %r disagrees with JSON %r" % (name, mm.group(0) if mm else None, m), key="c14:formats-mem", cls=cls)
        if svd_mems.get(name.upper()) != (m["base"], m["size"]):
            return bad("formats", "region %s: SVD says %r, JSON base %#x size %#x" % (name, svd_mems.get(name.upper()), m["base"], m["size"]), key="c14:formats-mem", cls=cls)
        ml = re.search(r"^\t%s : ORIGIN = (0x[0-9a-f]+), LENGTH = (0x[0-9a-f]+)$" % re.escape(name), ld, re.M)
        if not ml or int(ml.group(1), 16) != m["base"] or int(ml.group(2), 16) != m["size"]:
            return bad("formats", "region %s: linker regions say %r, JSON base %#x size %#x" % (name, ml.group(0) if ml else None, m["base"], m["size"]), key="c14:formats-mem", cls=cls)
    if set(svd_mems) != {n.upper() for n in js["memories"]}:
        return bad("formats", "SVD memory regions %r, JSON %r" % (sorted(svd_mems), sorted(js["memories"])), key="c14:formats-mem", cls=cls)
    # -- constants
    soch = export.get_soc_header(soc.constants)
    for name, v in js["constants"].items():
        if name.upper() not in svd_consts or svd_consts[name.upper()].lower() != str(v).lower():
            return bad("formats", "constant %s: SVD %r, JSON %r" % (name, svd_consts.get(name.upper()), v), key="c14:formats-const", cls=cls)
        mm = re.search(r"^constant,%s,(.*),,$" % re.escape(name), csv, re.M)
        if not mm or mm.group(1) != str(v):
            return bad("formats", "constant %s: CSV %r, JSON %r" % (name, mm.group(0) if mm else None, v), key="c14:formats-const", cls=cls)
        if v is None:
            ok_ = re.search(r"^#define %s$" % name.upper(), soch, re.M) is not None
        elif isinstance(v, str):
            ok_ = re.search(r'^#define %s "%s"$' % (name.upper(), re.escape(v)), soch, re.M | re.I) is not None
        else:
            ok_ = re.search(r"^#define %s %d$" % (name.upper(), v), soch, re.M) is not None
        if not ok_:
            mm = re.search(r"^#define %s\b.*$" % name.upper(), soch, re.M)
            return bad("formats", "constant %s: soc.h has %r, JSON %r" % (name, mm.group(0) if mm else None, v), key="c14:formats-const", cls=cls)
    # -- constants that describe the build
    want = {"config_bus_data_width": case["dw"], "config_bus_standard": case["std"].replace("-", "").lower()}
    for name, w in want.items():
        g = js["constants"].get(name)
        if (g.replace("-", "") if isinstance(g, str) else g) != w:
            return bad("constants", "%s = %r, SoC built with %r" % (name.upper(), g, w), key="c14:constants", cls=cls)
    for pi, p_ in enumerate(case["periphs"]):
        if p_.get("const") is not None and js["constants"].get("p%d_k" % pi) != p_["const"]:
            return bad("constants", "CSRConstant p%d.k = %#x published as %r" % (pi, p_["const"], js["constants"].get("p%d_k" % pi)), key="c14:constants", cls=cls)
    # -- interrupt numbers: SVD against the constants (the hardware line is checked in the simulation)
    for pi, p_ in enumerate(case["periphs"]):
        if p_.get("ev") and case.get("irq"):
            cn = js["constants"].get("p%d_interrupt" % pi)
            if cn is None or svd_irqs.get("p%d" % pi) != cn:
                return bad("formats", "interrupt of p%d: constant %r, SVD %r" % (pi, cn, svd_irqs.get("p%d" % pi)), key="c14:formats-irq", cls=cls)
            if p_["ev"]["irq"] is not None and cn != p_["ev"]["irq"]:
                return bad("constants", "p%d asked for interrupt %d, published %r" % (pi, p_["ev"]["irq"], cn), key="c14:irq", cls=cls)
    return None


def run_soc(case):
    from migen import Memory
    from litex.soc.integration import export
    from litex.soc.interconnect.csr import CSRStorage, CSRStatus
    try:
        soc = _build(case)
    except Exception as ex:
        from litex.soc.integration.soc import SoCError
        env.restore_stderr()
        if isinstance(ex, (SoCError, AssertionError, ValueError)):
            return skip("SoC configuration rejected: %s" % type(ex).__name__, detail=str(ex)[:200])
        raise
    cls = ["std:" + case["std"], "dw%d" % case["dw"], case["ic"]]
    csr_base = soc.mem_regions["csr"].origin
    try:
        js = json.loads(export.get_csr_json(soc.csr_regions, soc.constants, soc.mem_regions))
        hdr = export.get_csr_header(soc.csr_regions, soc.constants, csr_base=csr_base)
        csv = export.get_csr_csv(soc.csr_regions, soc.constants, soc.mem_regions)
    except Exception as ex:
        return _export_crash(ex, case, cls)
    hbase, hdefs, hsizes, hfuncs = _parse_header(hdr)
    # ---- formats agree
    for name, r in js["csr_registers"].items():
        h = hdefs.get("CSR_%s_ADDR" % name.upper())
        if h != r["addr"]:
            return bad("formats", "register %s: JSON says %#x, C header says %r" % (name, r["addr"], h), key="c14:formats", cls=cls)
        if hsizes.get("CSR_%s_SIZE" % name.upper()) != r["size"]:
            return bad("formats", "register %s: JSON size %d, header size %r" % (name, r["size"], hsizes.get("CSR_%s_SIZE" % name.upper())), key="c14:formats", cls=cls)
        mm = re.search(r"^csr_register,%s,(0x[0-9a-f]+),(\d+),(\w+)$" % re.escape(name), csv, re.M)
        if not mm or int(mm.group(1), 16) != r["addr"] or int(mm.group(2)) != r["size"]:
            return bad("formats", "register %s: CSV line %r disagrees with JSON %r" % (name, mm.group(0) if mm else None, r), key="c14:formats", cls=cls)
    for name, b in js["csr_bases"].items():
        if hdefs.get("CSR_%s_BASE" % name.upper()) != b:
            return bad("formats", "bank %s: JSON base %#x, header %r" % (name, b, hdefs.get("CSR_%s_BASE" % name.upper())), key="c14:formats", cls=cls)
    if js["constants"].get("config_csr_data_width") != case["csr_dw"]:
        return bad("constants", "CONFIG_CSR_DATA_WIDTH = %r, SoC built with %d" % (js["constants"].get("config_csr_data_width"), case["csr_dw"]), key="c14:constants", cls=cls)
    try:
        r_ = _formats_more(case, soc, js, hdr, csv, hdefs, hfuncs, cls)
    except Exception as ex:
        return _export_crash(ex, case, cls)
    if r_ is not None:
        return r_
    # ---- plan of bus accesses from the PUBLISHED information only
    busword = case["csr_dw"]
    objs = {}       # published name -> CSR object
    for rname, region in soc.csr_regions.items():
        if not isinstance(region.obj, Memory):
            for c in region.obj:
                objs[rname + "_" + c.name] = c
    storages = [(n, o) for n, o in objs.items() if isinstance(o, CSRStorage)]
    statuses = [(n, o) for n, o in objs.items() if isinstance(o, CSRStatus) and re.match(r"p\d+_r\d+$", n)]   # only statuses the bench may drive
    ops = []
    plan = []       # (kind, name, value, op indices)
    k = 0

    def uniq(n, size):
        v = ((case["seed"] + 17) * 2654435761 * (n + 3) + 0x5a5a5a5a5a5a5a5a5a) & _m(size)
        return v or 1

    cbits = {"uint8_t": 8, "uint16_t": 16, "uint32_t": 32, "uint64_t": 64}
    for (name, rw), ct in hfuncs["ctypes"].items():
        if name in objs and cbits.get(ct, 0) < objs[name].size:
            return bad("accessor-type", "%s_%s() uses %s for a %d-bit register" % (name, rw, ct, objs[name].size), key="c14:accessor-type", cls=cls)
    page_regs = {rn + "_page" for rn, rg in soc.csr_regions.items() if isinstance(rg.obj, Memory)}
    for n, (name, o) in enumerate(storages):
        if name in page_regs:
            continue                  # written (and thereby checked) by the window accesses below
        r = js["csr_registers"][name]
        val = uniq(n, o.size)
        if name.endswith("_ev_enable"):
            val = _m(o.size)
        idx = []
        acc = hfuncs.get((name, "write"))
        if acc:
            seq = acc[0]
        else:      # registers wider than 64 bit have no accessor: compose as the accessors do (MSB word first)
            seq = [(r["addr"] + 4 * i, (r["size"] - 1 - i) * busword) for i in range(r["size"])]
        for addr, shift in seq:
            idx.append(len(ops))
            ops.append({"we": 1, "adr": addr >> 2, "dat": (val >> shift) & _m(busword), "sel": 15, "gap": 1})
        plan.append(("storage", name, val, idx))
    status_vals = {}
    for n, (name, o) in enumerate(statuses):
        r = js["csr_registers"][name]
        val = uniq(100 + n, o.size)
        if hasattr(o, "fields") and o.fields.fields:
            # a status made of fields shows its field signals: only the bits fields cover can be non-zero
            cover = 0
            for f in o.fields.fields:
                cover |= _m(f.size) << f.offset
            val &= cover
        status_vals[name] = val
        acc = hfuncs.get((name, "read"))
        if acc:
            seq, shifts = acc
        else:
            seq, shifts = [(r["addr"] + 4 * i, 0) for i in range(r["size"])], [busword] * (r["size"] - 1)
        idx = []
        for addr, _ in seq:
            idx.append(len(ops))
            ops.append({"we": 0, "adr": addr >> 2, "dat": 0, "sel": 15, "gap": 1})
        plan.append(("status", name, val, idx))
    mems = []
    for rname, region in soc.csr_regions.items():
        if isinstance(region.obj, Memory):
            mem = region.obj
            base = js["csr_bases"][rname]
            per = (mem.width + busword - 1) // busword
            pgw = case["paging"] // 4                  # CSR words per page
            wpp = max(1, pgw // per)                   # memory words shown per page
            paged = mem.depth * per > pgw
            words = [0, mem.depth - 1] + ([wpp - 1, wpp, wpp + 1] if paged and mem.depth > wpp + 1 else [])
            for word in words:
                idx = []
                if paged:
                    # a window larger than one page shows the page selected by its published page register
                    pr = js["csr_registers"].get(rname + "_page")
                    if pr is None:
                        return bad("memory-window", "CSR memory %s (%d x %d bit) needs %d CSR words but no page register %s_page is published" %
                                   (rname, mem.depth, mem.width, mem.depth * per, rname), key=_k(case, "c14:memory-window"), cls=cls)
                    idx.append(len(ops))
                    ops.append({"we": 1, "adr": pr["addr"] >> 2, "dat": word // wpp, "sel": 15, "gap": 1})
                idx.append(len(ops))
                ops.append({"we": 0, "adr": (base >> 2) + (word % wpp) * per, "dat": 0, "sel": 15, "gap": 1})
                plan.append(("csrmem", rname, (mem, word, 0), idx))
                if per > 1:           # the last CSR word of the memory word too (its least significant part)
                    plan.append(("csrmem", rname, (mem, word, per - 1), [len(ops)]))
                    ops.append({"we": 0, "adr": (base >> 2) + (word % wpp) * per + per - 1, "dat": 0, "sel": 15, "gap": 1})
    # published memory regions: every RAM gets a unique value at its first and last word, all written first and read back
    # afterwards (two regions answering from the same memory, or a region answering outside its window, then show)
    rams = [(n_, m_) for n_, m_ in js["memories"].items() if n_ in ("sram", "main_ram", "extra", "extra2")]
    wr = []
    for ri, (rname, m_) in enumerate(rams):
        for wi, word in enumerate((0, m_["size"] // 4 - 1)):
            val = (0x11223344 + 0x01010101 * (2 * ri + wi) * 7) & 0xffffffff
            wr.append((rname, m_, word, val, len(ops)))
            ops.append({"we": 1, "adr": (m_["base"] >> 2) + word, "dat": val, "sel": 15, "gap": 1})
    for rname, m_, word, val, iw in wr:
        plan.append(("region", rname, (word, val, m_), [iw, len(ops)]))
        ops.append({"we": 0, "adr": (m_["base"] >> 2) + word, "dat": 0, "sel": 15, "gap": 1})
    romr = js["memories"].get("rom")
    if romr and case.get("rom"):
        for word in (0, romr["size"] // 4 - 1):
            plan.append(("rom", "rom", (word, _rom_word(word), romr), [len(ops)]))
            ops.append({"we": 0, "adr": (romr["base"] >> 2) + word, "dat": 0, "sel": 15, "gap": 1})
    master = wb.WBMaster(soc.tb, ops, max_wait=400)
    drive = {}
    for n, o in statuses:
        if hasattr(o, "fields") and o.fields.fields:
            for f in o.fields.fields:
                drive[getattr(o.fields, f.name)] = (status_vals[n] >> f.offset) & _m(f.size)
        else:
            drive[o.status] = status_vals[n]
    # interrupt lines: once the bus accesses are over (all event enables written), the event sources of one peripheral
    # at a time are raised and the CPU-side interrupt vector is sampled
    irqp = [(pi, soc.periphs[pi]) for pi, p_ in enumerate(case["periphs"]) if p_.get("ev") and case.get("irq")]
    t0 = {"t": None}

    def drv_fn(t):
        d = dict(drive)
        if irqp:
            if t0["t"] is None and master.finished():
                t0["t"] = t
            for j, (pi, per) in enumerate(irqp):
                on = t0["t"] is not None and t0["t"] + 8 * j + 1 <= t <= t0["t"] + 8 * j + 6
                for k_, trg in enumerate(per.triggers):
                    d[trg] = int(on and k_ == len(per.triggers) - 1)
        return d
    drv = bench.Driver(drv_fn)
    probe = bench.Probe([o.storage for _, o in storages])
    fsigs = [(name, f.name, getattr(o.fields, f.name)) for name, o in storages if hasattr(o, "fields") for f in o.fields.fields
             if not getattr(f, "pulse", False)]          # pulse fields show their bits for one cycle only
    fprobe = bench.Probe([sg for _, _, sg in fsigs])
    agents = [master, drv, probe, fprobe]
    if irqp:
        iprobe = bench.Probe([soc.cpu.interrupt])
        agents.append(iprobe)
    limit = 300 + 60 * len(ops) + 8 * len(irqp) + 20
    cyc = bench.run(soc, agents, limit, stop=lambda t: master.finished() and (not irqp or (t0["t"] is not None and t > t0["t"] + 8 * len(irqp) + 4)))
    ctx = "SoC(%s %d-bit %s, csr paging %#x origin %#x)" % (case["std"], case["dw"], case["ic"], case["paging"], csr_base)
    if master.aborted or not master.finished():
        i = master.aborted[0][0] if master.aborted else master.i
        kind, name = next(((p[0], p[1]) for p in plan if i in p[3]), ("?", "?"))
        return bad("no-answer", "%s: access %d (%s %s at bus word %#x) was never acknowledged" % (ctx, i, kind, name, ops[i]["adr"] << 2),
                   key=_k(case, "c14:no-answer"), cls=cls, cycles=cyc)
    res = {i: (dat_r, err, ackc) for (i, start, ackc, dat_r, err) in master.results}
    for i, (dat_r, err, ackc) in res.items():
        if err:
            kind, name = next(((p[0], p[1]) for p in plan if i in p[3]), ("?", "?"))
            return bad("bus-error", "%s: access to published %s %s (%#x) answered with a bus error" % (ctx, kind, name, ops[i]["adr"] << 2),
                       key=_k(case, "c14:bus-error"), cls=cls, cycles=cyc)
    for j, (pi, per) in enumerate(irqp):
        loc = js["constants"]["p%d_interrupt" % pi]
        for c_ in (t0["t"] + 8 * j + 4, t0["t"] + 8 * j + 5):
            if c_ < len(iprobe.trace) and iprobe.trace[c_][0] != 1 << loc:
                return bad("interrupt", "%s: event of p%d raised (all its events enabled through the published registers): published "
                           "interrupt number %d, CPU interrupt vector reads %#x" % (ctx, pi, loc, iprobe.trace[c_][0]),
                           key="c14:irq", cls=cls, cycles=cyc)
    final = probe.trace[len(probe.trace) - 1 if not irqp else min(t0["t"], len(probe.trace) - 1)]
    # the hardware's field signals hold the bits the header's OFFSET / SIZE macros name
    ffinal = fprobe.trace[len(fprobe.trace) - 1 if not irqp else min(t0["t"], len(fprobe.trace) - 1)] if fsigs else []
    written = {name: val for kind, name, val, idx in plan if kind == "storage"}
    for k_, (name, fname, _) in enumerate(fsigs):
        if name not in written:
            continue
        mac = "CSR_%s_%s" % (name.upper(), fname.upper())
        mo, ms_ = re.search(r"#define %s_OFFSET (\d+)" % mac, hdr), re.search(r"#define %s_SIZE (\d+)" % mac, hdr)
        if mo and ms_:
            exp = (written[name] >> int(mo.group(1))) & _m(int(ms_.group(1)))
            if ffinal[k_] != exp:
                return bad("field", "%s: register %s written with %#x: field %s (published offset %s size %s) holds %#x in the hardware, "
                           "the published bits are %#x" % (ctx, name, written[name], fname, mo.group(1), ms_.group(1), ffinal[k_], exp),
                           key=_k(case, "c14:field"), cls=cls, cycles=cyc)
            cls.append("fields")
    expected_final = {}
    multi = False
    for kind, name, val, idx in plan:
        if kind == "storage":
            o = objs[name]
            pos = [n for n, _ in storages].index(name)
            if final[pos] != val:
                return bad("register-write", "%s: %d-bit register %s published at %#x (size %d): wrote %#x through the accessor sequence, its storage holds %#x" %
                           (ctx, o.size, name, js["csr_registers"][name]["addr"], js["csr_registers"][name]["size"], val, final[pos]),
                           key=_k(case, "c14:register-write"), cls=cls, cycles=cyc)
            if len(idx) > 1:
                multi = True
            # nothing else changed during this register's write cycles: compare snapshots around the sequence
            c0 = res[idx[0]][2] - 2
            c1 = res[idx[-1]][2] + 3
            if 0 <= c0 < len(probe.trace) and c1 < len(probe.trace):
                before, after = probe.trace[max(c0, 0)], probe.trace[c1]
                for p2, (n2, _) in enumerate(storages):
                    if n2 != name and before[p2] != after[p2]:
                        return bad("side-effect", "%s: writing %s also changed %s (%#x -> %#x)" % (ctx, name, n2, before[p2], after[p2]),
                                   key=_k(case, "c14:side-effect"), cls=cls, cycles=cyc)
        elif kind == "status":
            o = objs[name]
            acc = hfuncs.get((name, "read"))
            got = 0
            shifts = acc[1] if acc else [busword] * (len(idx) - 1)
            for n_, i in enumerate(idx):
                got = (got << shifts[n_ - 1]) | (res[i][0] & _m(busword)) if n_ else (res[i][0] & _m(busword))
            if got != val:
                return bad("register-read", "%s: %d-bit status %s published at %#x: hardware holds %#x, the accessor sequence reads %#x" %
                           (ctx, o.size, name, js["csr_registers"][name]["addr"], val, got), key=_k(case, "c14:register-read"), cls=cls, cycles=cyc)
            if len(idx) > 1:
                multi = True
        elif kind == "csrmem":
            mem, word, sub = val
            per = (mem.width + busword - 1) // busword
            exp = mem.init[word] if mem.init and word < len(mem.init) else 0
            exp_word = (exp >> ((per - 1 - sub) * busword)) & _m(busword)      # most significant part at the lowest address
            if (res[idx[-1]][0] & _m(min(busword, mem.width))) != (exp_word & _m(min(busword, mem.width))):
                return bad("memory-window", "%s: CSR memory %s published at %#x: word %d reads %#x, memory holds %#x" %
                           (ctx, name, js["csr_bases"][name], word, res[idx[-1]][0], exp), key=_k(case, "c14:memory-window"), cls=cls, cycles=cyc)
        elif kind == "region":
            word, v, m_ = val
            if res[idx[1]][0] != v:
                return bad("region", "%s: region %s published at %#x size %#x: word %d written %#x reads back %#x" %
                           (ctx, name, m_["base"], m_["size"], word, v, res[idx[1]][0]), key=_k(case, "c14:region"), cls=cls, cycles=cyc)
        elif kind == "rom":
            word, v, m_ = val
            if res[idx[0]][0] != v:
                return bad("region", "%s: region rom published at %#x size %#x: word %d reads %#x, the image holds %#x" %
                           (ctx, m_["base"], m_["size"], word, res[idx[0]][0], v), key=_k(case, "c14:region"), cls=cls, cycles=cyc)
    nbanks = len(js["csr_bases"])
    nt = nbanks >= 2 and multi and (case["paging"] != 0x800 or case["csr_origin"] is not None)
    cls = cls + (["irq:%d" % len(irqp)] if irqp else []) + ["regions:%d" % (len(rams) + (1 if romr and case.get("rom") else 0))]
    return ok(nt=nt, cls=cls + (["multi-word"] if multi else []) + (["csr-memory"] if mems or any(p[0] == "csrmem" for p in plan) else []), cycles=cyc)


# ------------------------------------------------------------------------------------ memory images

def st_image(tier):
    @st.composite
    def case(draw):
        dw = draw(st.sampled_from([32, 32, 64, 128]))
        endian = draw(st.sampled_from(["little", "big"]))
        if endian == "big" and dw > 32:
            dw = 32          # known finding c14:mem-data-big-wide excluded by construction
        n = draw(st.integers(1, 70))
        return {"dw": dw, "endian": endian, "data": [draw(st.integers(0, 255)) for _ in range(n)],
                "multi": draw(st.booleans()), "gap": draw(st.sampled_from([0, 16, 64]))}
    return case()


def run_image(case):
    from litex.soc.integration.common import get_mem_data
    B = case["dw"] // 8
    d = tempfile.mkdtemp(prefix="c14_")
    try:
        data = bytes(case["data"])
        f1 = os.path.join(d, "a.bin")
        open(f1, "wb").write(data)
        placed = {i: b for i, b in enumerate(data)}
        if case["multi"]:
            f2 = os.path.join(d, "b.bin")
            d2 = bytes((x * 7 + 1) & 0xff for x in case["data"][:9])
            open(f2, "wb").write(d2)
            base2 = ((len(data) + case["gap"] + B - 1) // B) * B
            regions = {f1: "00000000", f2: "%08x" % base2}
            for i, b in enumerate(d2):
                placed[base2 + i] = b
            words = get_mem_data(regions, data_width=case["dw"], endianness=case["endian"])
        else:
            words = get_mem_data(f1, data_width=case["dw"], endianness=case["endian"])
    finally:
        for fn in os.listdir(d):
            os.unlink(os.path.join(d, fn))
        os.rmdir(d)
    for k, b in placed.items():
        w = k // B
        lane = k % B if case["endian"] == "little" else B - 1 - (k % B)
        if w >= len(words):
            return bad("image-length", "byte %d of the source has no word (list of %d %d-bit words)" % (k, len(words), case["dw"]), key="c14:image")
        got = (words[w] >> (8 * lane)) & 0xff
        if got != b:
            return bad("image-lane", "get_mem_data(data_width=%d, endianness=%s): source byte %d (%#x) should be word %d lane %d, found %#x there" %
                       (case["dw"], case["endian"], k, b, w, lane, got),
                       key="c14:mem-data-big-wide" if (case["endian"] == "big" and case["dw"] > 32) else "c14:image")
    return ok(nt=len(case["data"]) % B != 0 or case["multi"], cls=["dw%d" % case["dw"], case["endian"]])


def subchecks():
    return [
        Sub("soc", run_soc, strategy=st_soc, examples=(400, 8000), timeout=(1200, 20000),
            rule="finalised SoCs: export -> parsed accessor -> bus cycles -> register signal"),
        Sub("image", run_image, strategy=st_image, examples=(1500, 40000), isolate=False,
            rule="get_mem_data byte placement for generated files, widths, endianness, multi-region maps"),
    ]

"""C14 - Exported software maps tell the truth about the hardware."""
import json
import os
import re
import tempfile

from hypothesis import strategies as st

from vlib.runner import Sub, ok, bad, skip
from vlib import bench, wb, env

RULE = ("generated CPU-less SoCCore configurations (bus standard wishbone/axi-lite/axi x bus width 32/64 x shared/crossbar x CSR "
        "paging x CSR address width x CSR origin x 1..4 peripherals with generated register sets (storages/statuses 1..70 bit, "
        "fields) and CSR-mapped memories, fixed csr_map slots, integrated SRAM of generated size) are finalised, exported with "
        "the real functions (C header, JSON, CSV, SVD, mem header) and SIMULATED: a test bus master writes a unique value "
        "through every published writable register's accessor sequence (as the generated C accessors compose it) and the "
        "register's own storage signal must take it while every other storage keeps its value; every status is driven to a "
        "unique value and read through the published address sequence; published memory windows and regions are accessed at "
        "their first/last word; the four formats must agree; memory images: every source byte must sit at the word and lane a "
        "CPU of the stated endianness reads it from; non-trivial = SoC with >= 2 banks, a multi-word register and a non-default "
        "paging or origin; distinct = canonical JSON")
ASSUMPTIONS = ["Migen's simulator (site-packages) defines FHDL semantics; tracer shim stands in for Migen's byte-code tracer",
               "known findings excluded by construction and replayed: csr_data_width=8 (CSR word i answers at byte i, exports say 4*i), "
               "csr_ordering='little' (accessors/SVD compose big-endian), get_mem_data(big, >= 64 bit) lane order",
               "the test master is a 32-bit Wishbone interface attached through the SoC's own add_master/add_adapter path"]


def _m(w):
    return (1 << w) - 1


def st_soc(tier):
    @st.composite
    def case(draw):
        std = draw(st.sampled_from(["wishbone", "wishbone", "axi-lite", "axi"]))
        c = {"std": std, "dw": draw(st.sampled_from([32, 32, 64])), "ic": draw(st.sampled_from(["shared", "crossbar"])),
             "paging": draw(st.sampled_from([0x800, 0x800, 0x400, 0x1000])), "csr_aw": draw(st.sampled_from([14, 14, 15])),
             "csr_origin": draw(st.sampled_from([None, 0x82000000, 0xf0000000, 0x90000000])),
             "csr_dw": 32, "ordering": "big",
             "sram": draw(st.sampled_from([0x100, 0x1000, 0x2000])), "seed": draw(st.integers(0, 2 ** 16))}
        periphs = []
        for pi in range(draw(st.integers(1, 3 if tier == "quick" else 4))):
            regs = []
            for ri in range(draw(st.integers(1, 4))):
                kind = draw(st.sampled_from(["storage", "storage", "status"]))
                size = draw(st.one_of(st.integers(1, 32), st.integers(33, 70), st.sampled_from([32, 64, 33, 8])))
                regs.append({"kind": kind, "size": size})
            mem = draw(st.one_of(st.none(), st.none(), st.sampled_from([[32, 8], [32, 16], [8, 16], [16, 8]])))
            slot = draw(st.one_of(st.none(), st.none(), st.integers(4, 12)))
            periphs.append({"regs": regs, "mem": mem, "slot": slot})
        slots = [p["slot"] for p in periphs if p["slot"] is not None]
        if len(set(slots)) != len(slots):
            for p in periphs:
                p["slot"] = None
        c["periphs"] = periphs
        return c
    return case()


def _build(case):
    from migen import Module, Memory
    from litex.build.sim import SimPlatform
    from litex.soc.integration.soc_core import SoCCore
    from litex.soc.interconnect import wishbone
    from litex.soc.interconnect.csr import AutoCSR, CSRStorage, CSRStatus
    plat = SimPlatform("SIM", io=[])
    kwargs = dict(cpu_type=None, with_uart=False, with_timer=False, integrated_rom_size=0, integrated_sram_size=case["sram"],
                  integrated_main_ram_size=0, bus_standard=case["std"], bus_data_width=case["dw"], bus_interconnect=case["ic"],
                  csr_data_width=case["csr_dw"], csr_paging=case["paging"], csr_ordering=case["ordering"], csr_address_width=case["csr_aw"],
                  bus_timeout=64)
    csr_map = {}
    mem_map = {}
    if case["csr_origin"] is not None:
        mem_map["csr"] = case["csr_origin"]

    class Periph(Module, AutoCSR):
        def __init__(self, spec, idx):
            self.regs = []
            for ri, r in enumerate(spec["regs"]):
                if r["kind"] == "storage":
                    o = CSRStorage(r["size"], name="r%d" % ri)
                else:
                    o = CSRStatus(r["size"], name="r%d" % ri)
                setattr(self, "r%d" % ri, o)
                self.regs.append(o)
            if spec["mem"]:
                w, d = spec["mem"]
                self.mem = Memory(w, d, init=[((idx + 1) * 1000003 * (i + 1)) & _m(w) for i in range(d)], name="win")
                self.specials += self.mem

    class TB(SoCCore):
        csr_map = {}

        def __init__(self):
            for pi, p in enumerate(case["periphs"]):
                if p["slot"] is not None:
                    TB.csr_map = dict(TB.csr_map)
            SoCCore.mem_map = dict(SoCCore.mem_map)
            if "csr" in mem_map:
                self.mem_map = dict(SoCCore.mem_map)
                self.mem_map["csr"] = mem_map["csr"]
            SoCCore.__init__(self, plat, int(1e6), **kwargs)
            self.periphs = []
            for pi, p in enumerate(case["periphs"]):
                per = Periph(p, pi)
                name = "p%d" % pi
                self.add_module(name=name, module=per)
                if p["slot"] is not None:
                    self.csr.add(name, n=p["slot"])
                self.periphs.append(per)
            self.tb = wishbone.Interface(data_width=32, address_width=32, addressing="word")
            self.bus.add_master(name="tb", master=self.tb)

    soc = TB()
    soc.finalize()
    return soc


def _parse_header(text):
    defs = {}
    base = 0
    m = re.search(r"#define CSR_BASE (0x[0-9a-f]+)L", text)
    if m:
        base = int(m.group(1), 16)
    for m in re.finditer(r"#define (CSR_\w+_ADDR|CSR_\w+_BASE) (?:\(CSR_BASE \+ (0x[0-9a-f]+)L\)|(0x[0-9a-f]+)L)", text):
        name = m.group(1)
        defs[name] = base + int(m.group(2), 16) if m.group(2) else int(m.group(3), 16)
    sizes = {m.group(1): int(m.group(2)) for m in re.finditer(r"#define (CSR_\w+_SIZE) (\d+)", text)}
    # accessor bodies: sequences of csr_read_simple / csr_write_simple
    funcs = {}
    for m in re.finditer(r"static inline \w+ (\w+)_(read|write)\(([^)]*)\) \{\n(.*?)\n\}", text, re.S):
        name, rw, _, body = m.groups()
        seq = []
        for a in re.finditer(r"csr_(read|write)_simple\((?:(v(?: >> (\d+))?), )?(?:\(CSR_BASE \+ (0x[0-9a-f]+)L\)|(0x[0-9a-f]+)L)\)", body):
            addr = base + int(a.group(4), 16) if a.group(4) else int(a.group(5), 16)
            seq.append((addr, int(a.group(3) or 0)))
        shifts = [int(x) for x in re.findall(r"r <<= (\d+);", body)]
        funcs[(name, rw)] = (seq, shifts)
    return base, defs, sizes, funcs


def _k(case, base):
    if case["csr_dw"] == 8:
        return "c14:csr-dw8-stride"
    if case["ordering"] == "little":
        return "c14:csr-ordering-little"
    return base


def run_soc(case):
    from migen import Memory
    from litex.soc.integration import export
    from litex.soc.interconnect.csr import CSRStorage, CSRStatus
    try:
        soc = _build(case)
    except Exception as ex:
        from litex.soc.integration.soc import SoCError
        env.restore_stderr()
        if isinstance(ex, (SoCError, AssertionError, ValueError)):
            return skip("SoC configuration rejected: %s" % type(ex).__name__, detail=str(ex)[:200])
        raise
    cls = ["std:" + case["std"], "dw%d" % case["dw"], case["ic"]]
    csr_base = soc.mem_regions["csr"].origin
    js = json.loads(export.get_csr_json(soc.csr_regions, soc.constants, soc.mem_regions))
    hdr = export.get_csr_header(soc.csr_regions, soc.constants, csr_base=csr_base)
    csv = export.get_csr_csv(soc.csr_regions, soc.constants, soc.mem_regions)
    hbase, hdefs, hsizes, hfuncs = _parse_header(hdr)
    # ---- formats agree
    for name, r in js["csr_registers"].items():
        h = hdefs.get("CSR_%s_ADDR" % name.upper())
        if h != r["addr"]:
            return bad("formats", "register %s: JSON says %#x, C header says %r" % (name, r["addr"], h), key="c14:formats", cls=cls)
        if hsizes.get("CSR_%s_SIZE" % name.upper()) != r["size"]:
            return bad("formats", "register %s: JSON size %d, header size %r" % (name, r["size"], hsizes.get("CSR_%s_SIZE" % name.upper())), key="c14:formats", cls=cls)
        mm = re.search(r"^csr_register,%s,(0x[0-9a-f]+),(\d+),(\w+)$" % re.escape(name), csv, re.M)
        if not mm or int(mm.group(1), 16) != r["addr"] or int(mm.group(2)) != r["size"]:
            return bad("formats", "register %s: CSV line %r disagrees with JSON %r" % (name, mm.group(0) if mm else None, r), key="c14:formats", cls=cls)
    for name, b in js["csr_bases"].items():
        if hdefs.get("CSR_%s_BASE" % name.upper()) != b:
            return bad("formats", "bank %s: JSON base %#x, header %r" % (name, b, hdefs.get("CSR_%s_BASE" % name.upper())), key="c14:formats", cls=cls)
    if js["constants"].get("config_csr_data_width") != case["csr_dw"]:
        return bad("constants", "CONFIG_CSR_DATA_WIDTH = %r, SoC built with %d" % (js["constants"].get("config_csr_data_width"), case["csr_dw"]), key="c14:constants", cls=cls)
    # ---- plan of bus accesses from the PUBLISHED information only
    busword = case["csr_dw"]
    objs = {}       # published name -> CSR object
    for rname, region in soc.csr_regions.items():
        if not isinstance(region.obj, Memory):
            for c in region.obj:
                objs[rname + "_" + c.name] = c
    storages = [(n, o) for n, o in objs.items() if isinstance(o, CSRStorage)]
    statuses = [(n, o) for n, o in objs.items() if isinstance(o, CSRStatus) and re.match(r"p\d+_", n)]   # only statuses the bench may drive
    ops = []
    plan = []       # (kind, name, value, op indices)
    k = 0

    def uniq(n, size):
        v = ((case["seed"] + 17) * 2654435761 * (n + 3) + 0x5a5a5a5a5a5a5a5a5a) & _m(size)
        return v or 1

    for n, (name, o) in enumerate(storages):
        r = js["csr_registers"][name]
        val = uniq(n, o.size)
        idx = []
        acc = hfuncs.get((name, "write"))
        if acc:
            seq = acc[0]
        else:      # registers wider than 64 bit have no accessor: compose as the accessors do (MSB word first)
            seq = [(r["addr"] + 4 * i, (r["size"] - 1 - i) * busword) for i in range(r["size"])]
        for addr, shift in seq:
            idx.append(len(ops))
            ops.append({"we": 1, "adr": addr >> 2, "dat": (val >> shift) & _m(busword), "sel": 15, "gap": 1})
        plan.append(("storage", name, val, idx))
    status_vals = {}
    for n, (name, o) in enumerate(statuses):
        r = js["csr_registers"][name]
        val = uniq(100 + n, o.size)
        status_vals[name] = val
        acc = hfuncs.get((name, "read"))
        if acc:
            seq, shifts = acc
        else:
            seq, shifts = [(r["addr"] + 4 * i, 0) for i in range(r["size"])], [busword] * (r["size"] - 1)
        idx = []
        for addr, _ in seq:
            idx.append(len(ops))
            ops.append({"we": 0, "adr": addr >> 2, "dat": 0, "sel": 15, "gap": 1})
        plan.append(("status", name, val, idx))
    mems = []
    for rname, region in soc.csr_regions.items():
        if isinstance(region.obj, Memory):
            mem = region.obj
            base = js["csr_bases"][rname]
            per = (mem.width + busword - 1) // busword
            for word in (0, mem.depth - 1):
                idx = [len(ops)]
                ops.append({"we": 0, "adr": (base >> 2) + word * per, "dat": 0, "sel": 15, "gap": 1})
                plan.append(("csrmem", rname, (mem, word), idx))
    sram = js["memories"].get("sram")
    if sram:
        for word, val in ((0, 0x11223344), (sram["size"] // 4 - 1, 0xa1b2c3d4)):
            i0 = len(ops)
            ops.append({"we": 1, "adr": (sram["base"] >> 2) + word, "dat": val, "sel": 15, "gap": 1})
            ops.append({"we": 0, "adr": (sram["base"] >> 2) + word, "dat": 0, "sel": 15, "gap": 1})
            plan.append(("sram", "sram", (word, val), [i0, i0 + 1]))
    master = wb.WBMaster(soc.tb, ops, max_wait=400)
    drive = {o.status: status_vals[n] for n, o in statuses}
    drv = bench.Driver(lambda t: drive)
    probe = bench.Probe([o.storage for _, o in storages])
    limit = 300 + 60 * len(ops)
    cyc = bench.run(soc, [master, drv, probe], limit, stop=lambda t: master.finished())
    ctx = "SoC(%s %d-bit %s, csr paging %#x origin %#x)" % (case["std"], case["dw"], case["ic"], case["paging"], csr_base)
    if master.aborted or not master.finished():
        i = master.aborted[0][0] if master.aborted else master.i
        kind, name = next(((p[0], p[1]) for p in plan if i in p[3]), ("?", "?"))
        return bad("no-answer", "%s: access %d (%s %s at bus word %#x) was never acknowledged" % (ctx, i, kind, name, ops[i]["adr"] << 2),
                   key=_k(case, "c14:no-answer"), cls=cls, cycles=cyc)
    res = {i: (dat_r, err, ackc) for (i, start, ackc, dat_r, err) in master.results}
    for i, (dat_r, err, ackc) in res.items():
        if err:
            kind, name = next(((p[0], p[1]) for p in plan if i in p[3]), ("?", "?"))
            return bad("bus-error", "%s: access to published %s %s (%#x) answered with a bus error" % (ctx, kind, name, ops[i]["adr"] << 2),
                       key=_k(case, "c14:bus-error"), cls=cls, cycles=cyc)
    final = probe.trace[-1]
    expected_final = {}
    multi = False
    for kind, name, val, idx in plan:
        if kind == "storage":
            o = objs[name]
            pos = [n for n, _ in storages].index(name)
            if final[pos] != val:
                return bad("register-write", "%s: %d-bit register %s published at %#x (size %d): wrote %#x through the accessor sequence, its storage holds %#x" %
                           (ctx, o.size, name, js["csr_registers"][name]["addr"], js["csr_registers"][name]["size"], val, final[pos]),
                           key=_k(case, "c14:register-write"), cls=cls, cycles=cyc)
            if len(idx) > 1:
                multi = True
            # nothing else changed during this register's write cycles: compare snapshots around the sequence
            c0 = res[idx[0]][2] - 2
            c1 = res[idx[-1]][2] + 3
            if 0 <= c0 < len(probe.trace) and c1 < len(probe.trace):
                before, after = probe.trace[max(c0, 0)], probe.trace[c1]
                for p2, (n2, _) in enumerate(storages):
                    if n2 != name and before[p2] != after[p2]:
                        return bad("side-effect", "%s: writing %s also changed %s (%#x -> %#x)" % (ctx, name, n2, before[p2], after[p2]),
                                   key=_k(case, "c14:side-effect"), cls=cls, cycles=cyc)
        elif kind == "status":
            o = objs[name]
            acc = hfuncs.get((name, "read"))
            got = 0
            for n_, i in enumerate(idx):
                got = (got << busword) | (res[i][0] & _m(busword)) if n_ else (res[i][0] & _m(busword))
            if got != val:
                return bad("register-read", "%s: %d-bit status %s published at %#x: hardware holds %#x, the accessor sequence reads %#x" %
                           (ctx, o.size, name, js["csr_registers"][name]["addr"], val, got), key=_k(case, "c14:register-read"), cls=cls, cycles=cyc)
            if len(idx) > 1:
                multi = True
        elif kind == "csrmem":
            mem, word = val
            per = (mem.width + busword - 1) // busword
            exp = mem.init[word] if mem.init and word < len(mem.init) else 0
            exp_word = (exp >> ((per - 1) * busword)) & _m(busword) if per > 1 else exp & _m(busword)
            if (res[idx[0]][0] & _m(min(busword, mem.width))) != (exp_word & _m(min(busword, mem.width))):
                return bad("memory-window", "%s: CSR memory %s published at %#x: word %d reads %#x, memory holds %#x" %
                           (ctx, name, js["csr_bases"][name], word, res[idx[0]][0], exp), key=_k(case, "c14:memory-window"), cls=cls, cycles=cyc)
        else:
            word, v = val
            if res[idx[1]][0] != v:
                return bad("region", "%s: region sram published at %#x size %#x: word %d written %#x reads back %#x" %
                           (ctx, sram["base"], sram["size"], word, v, res[idx[1]][0]), key=_k(case, "c14:region"), cls=cls, cycles=cyc)
    nbanks = len(js["csr_bases"])
    nt = nbanks >= 2 and multi and (case["paging"] != 0x800 or case["csr_origin"] is not None)
    return ok(nt=nt, cls=cls + (["multi-word"] if multi else []) + (["csr-memory"] if mems or any(p[0] == "csrmem" for p in plan) else []), cycles=cyc)


# ------------------------------------------------------------------------------------ memory images

def st_image(tier):
    @st.composite
    def case(draw):
        dw = draw(st.sampled_from([32, 32, 64, 128]))
        endian = draw(st.sampled_from(["little", "big"]))
        if endian == "big" and dw > 32:
            dw = 32          # known finding c14:mem-data-big-wide excluded by construction
        n = draw(st.integers(1, 70))
        return {"dw": dw, "endian": endian, "data": [draw(st.integers(0, 255)) for _ in range(n)],
                "multi": draw(st.booleans()), "gap": draw(st.sampled_from([0, 16, 64]))}
    return case()


def run_image(case):
    from litex.soc.integration.common import get_mem_data
    B = case["dw"] // 8
    d = tempfile.mkdtemp(prefix="c14_")
    try:
        data = bytes(case["data"])
        f1 = os.path.join(d, "a.bin")
        open(f1, "wb").write(data)
        placed = {i: b for i, b in enumerate(data)}
        if case["multi"]:
            f2 = os.path.join(d, "b.bin")
            d2 = bytes((x * 7 + 1) & 0xff for x in case["data"][:9])
            open(f2, "wb").write(d2)
            base2 = ((len(data) + case["gap"] + B - 1) // B) * B
            regions = {f1: "00000000", f2: "%08x" % base2}
            for i, b in enumerate(d2):
                placed[base2 + i] = b
            words = get_mem_data(regions, data_width=case["dw"], endianness=case["endian"])
        else:
            words = get_mem_data(f1, data_width=case["dw"], endianness=case["endian"])
    finally:
        for fn in os.listdir(d):
            os.unlink(os.path.join(d, fn))
        os.rmdir(d)
    for k, b in placed.items():
        w = k // B
        lane = k % B if case["endian"] == "little" else B - 1 - (k % B)
        if w >= len(words):
            return bad("image-length", "byte %d of the source has no word (list of %d %d-bit words)" % (k, len(words), case["dw"]), key="c14:image")
        got = (words[w] >> (8 * lane)) & 0xff
        if got != b:
            return bad("image-lane", "get_mem_data(data_width=%d, endianness=%s): source byte %d (%#x) should be word %d lane %d, found %#x there" %
                       (case["dw"], case["endian"], k, b, w, lane, got),
                       key="c14:mem-data-big-wide" if (case["endian"] == "big" and case["dw"] > 32) else "c14:image")
    return ok(nt=len(case["data"]) % B != 0 or case["multi"], cls=["dw%d" % case["dw"], case["endian"]])


def subchecks():
    return [
        Sub("soc", run_soc, strategy=st_soc, examples=(400, 8000), timeout=(1200, 20000),
            rule="finalised SoCs: export -> parsed accessor -> bus cycles -> register signal"),
        Sub("image", run_image, strategy=st_image, examples=(1500, 40000), isolate=False,
            rule="get_mem_data byte placement for generated files, widths, endianness, multi-region maps"),
    ]

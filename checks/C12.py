"""C12 - CSR banks give software exact, side-effect-free register semantics."""
from hypothesis import strategies as st

from vlib.runner import Sub, ok, bad, skip
from vlib import bench

RULE = ("generated register sets (raw CSRs, storages with/without atomic write, device-writable storages, statuses incl. "
        "writable ones, fields with offsets/gaps/pulse/reset, widths 1..>2 bus words, fixed locations) on bus width 8/32, "
        "big/little ordering, bank address and paging; history of 10..80 cycles of bus writes/reads (this bank, other "
        "bank, words beyond the last register), idle cycles and device-side status changes / device writes; a "
        "cycle-accurate reference register file written from the docstrings predicts dat_r, every storage, every "
        "re/we strobe and every field in every cycle; non-trivial = a register wider than the bus word was written "
        "with all its words and read back, with an access to another register in between; distinct = canonical JSON")
ASSUMPTIONS = ["Migen's simulator (site-packages) defines FHDL semantics",
               "a device write coinciding with a bus write: the addressed word takes the bus value (the property: a bus write changes exactly the addressed bits), all other words the device value",
               "pulse fields are 1 bit wide with reset 0 (as the docstring requires)",
               "atomic_write commits on the last address of the register in both orderings (docstring; little ordering repaired by ade5497, witness replayed)"]


def _m(w):
    return (1 << w) - 1


# ------------------------------------------------------------------------------------ strategies

def st_fields(draw, maxbits):
    fields = []
    off = 0
    n = draw(st.integers(1, 4))
    for i in range(n):
        gap = draw(st.sampled_from([0, 0, 1, 3]))
        pulse = draw(st.integers(0, 3)) == 0
        size = 1 if pulse else draw(st.integers(1, 9))
        explicit = draw(st.booleans())
        off += gap if explicit else 0
        if off + size > maxbits:
            break
        fields.append({"name": "f%d" % i, "size": size, "offset": off if explicit else None, "pulse": pulse,
                       "reset": 0 if pulse else draw(st.integers(0, _m(size)))})
        off += size
    return fields


def st_regs(tier, busword):
    @st.composite
    def regs(draw):
        out = []
        for i in range(draw(st.integers(1, 6))):
            kind = draw(st.sampled_from(["storage", "storage", "status", "csr", "storage_f", "status_f"]))
            if kind == "csr":
                out.append({"kind": "csr", "size": draw(st.integers(1, busword))})
                continue
            size = draw(st.one_of(st.integers(1, busword), st.integers(busword + 1, 3 * busword + 5), st.sampled_from([busword, 2 * busword, busword + 1])))
            r = {"kind": kind.split("_")[0], "size": size}
            if kind.endswith("_f"):
                r["fields"] = st_fields(draw, 3 * busword)
                if not r["fields"]:
                    r.pop("fields")
                elif r["kind"] == "status":
                    for f in r["fields"]:
                        f["pulse"] = False
            if r["kind"] == "storage":
                r["reset"] = draw(st.integers(0, _m(size)))
                r["atomic"] = draw(st.booleans())
                r["wfd"] = draw(st.integers(0, 3)) == 0
                r["reset_less"] = draw(st.integers(0, 5)) == 0
            else:
                r["reset"] = draw(st.integers(0, _m(size)))
                r["read_only"] = draw(st.integers(0, 3)) != 0
            out.append(r)
        return out
    return regs()


def st_case(tier):
    @st.composite
    def case(draw):
        busword = draw(st.sampled_from([8, 32]))
        ordering = draw(st.sampled_from(["big", "big", "little"]))
        regs = draw(st_regs(tier, busword))
        paging = draw(st.sampled_from([0x400, 0x800, 0x800, 0x1000, 0x4000]))
        address = draw(st.integers(0, 3))
        nsteps = draw(st.integers(10, 40 if tier == "quick" else 80))
        # number of simple CSRs (words) to aim at
        nwords = 0
        for r in regs:
            size = r["size"]
            if "fields" in r:
                size = max((f["offset"] if f["offset"] is not None else 0) + f["size"] for f in r["fields"])
            nwords += 1 if r["kind"] == "csr" else (size + busword - 1) // busword
        nwords += 6
        steps = []
        for _ in range(nsteps):
            k = draw(st.integers(0, 9))
            if k <= 3:
                s = {"op": "w", "idx": draw(st.integers(0, nwords)), "page": address if draw(st.integers(0, 7)) else address + 1,
                     "dat": draw(st.integers(0, _m(busword))), "alias": draw(st.sampled_from([0, 0, 0, 0, 1, 2, 3]))}
            elif k <= 6:
                s = {"op": "r", "idx": draw(st.integers(0, nwords)), "page": address if draw(st.integers(0, 7)) else address + 1,
                     "alias": draw(st.sampled_from([0, 0, 0, 0, 1, 2, 3]))}
            elif k == 7:
                s = {"op": "seq", "reg": draw(st.integers(0, len(regs) - 1)), "val": draw(st.integers(0, (1 << 110) - 1)), "rd": draw(st.booleans())}
            elif k == 8:
                s = {"op": "dev", "reg": draw(st.integers(0, len(regs) - 1)), "val": draw(st.integers(0, (1 << 110) - 1))}
                if draw(st.booleans()):
                    # a bus write to some word in the very same cycle (the property: a bus write changes exactly the
                    # addressed bits - so the addressed word takes the bus value, the rest the device value)
                    s["bus_idx"] = draw(st.integers(0, nwords))
                    s["bus_dat"] = draw(st.integers(0, _m(busword)))
            else:
                s = {"op": "idle", "n": draw(st.integers(1, 3))}
            steps.append(s)
        return {"busword": busword, "ordering": ordering, "regs": regs, "paging": paging, "address": address, "steps": steps}
    return case()


# ------------------------------------------------------------------------------------ build + model

def _build(case):
    from migen import Module
    from litex.soc.interconnect import csr, csr_bus
    bw = case["busword"]
    descr = []
    for i, r in enumerate(case["regs"]):
        name = "r%d" % i
        if r["kind"] == "csr":
            descr.append(csr.CSR(r["size"], name=name))
        elif r["kind"] == "storage":
            fields = [csr.CSRField(f["name"], size=f["size"], offset=f["offset"], pulse=f["pulse"], reset=f["reset"]) for f in r.get("fields", [])]
            descr.append(csr.CSRStorage(r["size"], reset=r["reset"], reset_less=r.get("reset_less", False), fields=fields,
                                        atomic_write=r.get("atomic", False), write_from_dev=r.get("wfd", False), name=name))
        else:
            fields = [csr.CSRField(f["name"], size=f["size"], offset=f["offset"], reset=f["reset"]) for f in r.get("fields", [])]
            descr.append(csr.CSRStatus(r["size"], reset=r["reset"], fields=fields, read_only=r.get("read_only", True), name=name))
    bus = csr_bus.Interface(data_width=bw, address_width=14)
    bank = csr_bus.CSRBank(descr, address=case["address"], bus=bus, paging=case["paging"], ordering=case["ordering"])
    return bank, bus, descr


class Model:
    """cycle-accurate reference register file (from the docstrings of csr.py / csr_bus.py)"""

    def __init__(self, case, descr):
        self.bw = bw = case["busword"]
        self.ordering = case["ordering"]
        self.regs = []
        self.words = []          # (reg index, word number i (bit i*bw), nbits)
        for k, (r, d) in enumerate(zip(case["regs"], descr)):
            size = d.size
            if r["kind"] == "csr":
                self.regs.append({"kind": "csr", "size": size})
                self.words.append((k, 0, size))
                continue
            nw = (size + bw - 1) // bw
            order = list(reversed(range(nw))) if self.ordering == "big" else list(range(nw))
            for i in order:
                self.words.append((k, i, min(size - i * bw, bw)))
            reg = {"kind": r["kind"], "size": size, "nw": nw, "last_word": order[-1]}
            if r["kind"] == "storage":
                reset = r["reset"] if "fields" not in r else sum(f["reset"] << foff for f, foff in zip(r["fields"], self._offsets(r["fields"])))
                reg.update({"storage": reset & _m(size), "back": 0, "re": 0, "atomic": r.get("atomic", False) and nw > 1})
            else:
                reset = r["reset"] if "fields" not in r else sum(f["reset"] << foff for f, foff in zip(r["fields"], self._offsets(r["fields"])))
                reg.update({"status": reset & _m(size), "r": 0, "re": 0, "read_only": r.get("read_only", True), "has_fields": "fields" in r})
            self.regs.append(reg)
        self.dat_r = 0
        ap = case["paging"] // 4
        self.page_shift = ap.bit_length() - 1
        self.address = case["address"]

    @staticmethod
    def _offsets(fields):
        off = 0
        out = []
        for f in fields:
            if f["offset"] is not None:
                off = f["offset"]
            out.append(off)
            off += f["size"]
        return out

    def comb(self, bus):
        """strobes during this cycle: {word index: (re, we)}"""
        adr, we, re, dat_w = bus
        sel = (adr >> self.page_shift) == self.address
        idx = adr & ((1 << self.page_shift) - 1)
        return sel, idx

    def step(self, bus, dev):
        """advance one clock edge. bus = (adr, we, re, dat_w) during the cycle; dev = {reg: ("status"|"write", value)}"""
        adr, we, re, dat_w = bus
        sel, idx = self.comb(bus)
        # read mux (registered)
        nd = 0
        if sel and idx < len(self.words):
            k, i, nbits = self.words[idx]
            reg = self.regs[k]
            if reg["kind"] == "csr":
                nd = dev.get(("w", k), 0) & _m(nbits)
            elif reg["kind"] == "storage":
                nd = (reg["storage"] >> (i * self.bw)) & _m(nbits)
            else:
                nd = (reg["status"] >> (i * self.bw)) & _m(nbits)
        # strobes
        for reg in self.regs:
            if reg["kind"] != "csr":
                reg["re_next"] = 0
        for k, reg in enumerate(self.regs):
            if reg["kind"] == "storage" and ("write", k) in dev:
                reg["storage"] = dev[("write", k)] & _m(reg["size"])
        if sel and we and idx < len(self.words):
            k, i, nbits = self.words[idx]
            reg = self.regs[k]
            v = dat_w & _m(nbits)
            if reg["kind"] == "storage":
                if reg["atomic"]:
                    # docstring: writes to the first addresses go to a back-buffer which is copied to the
                    # register, together with the word being written, when the LAST address is written
                    lo = i * self.bw
                    if i != reg["last_word"]:
                        reg["back"] = (reg["back"] & ~(_m(nbits) << lo)) | (v << lo)
                    else:
                        full = (reg["back"] & ~(_m(nbits) << lo)) | (v << lo)
                        reg["storage"] = full & _m(reg["size"])
                else:
                    lo = i * self.bw
                    reg["storage"] = (reg["storage"] & ~(_m(nbits) << lo)) | (v << lo)
                if i == reg["last_word"]:
                    reg["re_next"] = 1
            elif reg["kind"] == "status":
                if not reg["read_only"]:
                    lo = i * self.bw
                    reg["r"] = (reg["r"] & ~(_m(nbits) << lo)) | (v << lo)
                if i == reg["last_word"]:
                    reg["re_next"] = 1
        for reg in self.regs:
            if reg["kind"] != "csr":
                reg["re"] = reg.pop("re_next")
        self.dat_r = nd


def _expand(case, model_words, regs_n):
    """turn steps into per-cycle bus/device actions"""
    bw = case["busword"]
    ps = (case["paging"] // 4).bit_length() - 1
    cyc = []

    def widx(s):
        # aliases of the word index inside the page: +half page, +quarter page, mirrored from the top
        i = s["idx"]
        a = s.get("alias", 0)
        if a == 1:
            i += 1 << (ps - 1)
        elif a == 2:
            i += 1 << (ps - 2)
        elif a == 3:
            i = (1 << ps) - 1 - i
        return i & ((1 << ps) - 1)
    for s in case["steps"]:
        if s["op"] == "w":
            cyc.append({"bus": ((s["page"] << ps) | widx(s), 1, 0, s["dat"])})
        elif s["op"] == "r":
            cyc.append({"bus": ((s["page"] << ps) | widx(s), 0, 1, 0)})
        elif s["op"] == "idle":
            for _ in range(s["n"]):
                cyc.append({})
        elif s["op"] == "dev":
            c_ = {"dev": (s["reg"], s["val"])}
            if "bus_idx" in s:
                c_["bus"] = ((case["address"] << ps) | (s["bus_idx"] & ((1 << ps) - 1)), 1, 0, s["bus_dat"])
            cyc.append(c_)
        else:
            # full accessor sequence for register s["reg"]: all its words in address order
            k = s["reg"]
            ws = [(n, w) for n, w in enumerate(model_words) if w[0] == k]
            for n, (kk, i, nbits) in ws:
                cyc.append({"bus": ((case["address"] << ps) | n, 1, 0, (s["val"] >> (i * bw)) & _m(nbits))})
            if s["rd"]:
                cyc.append({})
                for n, (kk, i, nbits) in ws:
                    cyc.append({"bus": ((case["address"] << ps) | n, 0, 1, 0), "rdreg": (k, i)})
    return cyc


def run_case(case):
    try:
        bank, bus, descr = _build(case)
    except (ValueError, AssertionError) as ex:
        return skip("configuration rejected by the code: %s" % type(ex).__name__, detail=str(ex)[:200])
    model = Model(case, descr)
    cycles = _expand(case, model.words, len(descr))
    cycles += [{}, {}]
    # observation lists
    obs = [bus.dat_r]
    layout = []
    for k, (r, d) in enumerate(zip(case["regs"], descr)):
        if r["kind"] == "csr":
            obs += [d.re, d.r, d.we]
            layout.append(("csr", k, 3))
        elif r["kind"] == "storage":
            fs = [getattr(d.fields, f["name"]) for f in r.get("fields", [])] if "fields" in r else []
            obs += [d.storage, d.re] + fs
            layout.append(("storage", k, 2 + len(fs)))
        else:
            extra = [d.r] if not r.get("read_only", True) else []
            obs += [d.we, d.re] + extra
            layout.append(("status", k, 2 + len(extra)))
    trace = []
    devlog = []

    class Agent:
        def __init__(self):
            self.w = bench.Writer()

        def signals(self):
            return obs

        def step(self, t, vals):
            trace.append(list(vals))
            out = []
            c = cycles[t] if t < len(cycles) else {}
            b = c.get("bus", (0, 0, 0, 0))
            self.w.set(out, bus.adr, b[0])
            self.w.set(out, bus.we, b[1])
            self.w.set(out, bus.re, b[2])
            self.w.set(out, bus.dat_w, b[3])
            dv = {}
            for k, (r, d) in enumerate(zip(case["regs"], descr)):
                if r["kind"] == "storage" and r.get("wfd"):
                    self.w.set(out, d.we, 0)
            if "dev" in c:
                k, val = c["dev"]
                r, d = case["regs"][k], descr[k]
                if r["kind"] == "status" and "fields" not in r:
                    self.w.set(out, d.status, val)
                    dv[("status", k)] = val & _m(d.size)
                elif r["kind"] == "storage" and r.get("wfd"):
                    self.w.set(out, d.we, 1)
                    self.w.set(out, d.dat_w, val)
                    dv[("write", k)] = val & _m(d.size)
                elif r["kind"] == "csr":
                    self.w.set(out, d.w, val)
                    dv[("wset", k)] = val & _m(d.size)
            devlog.append(dv)
            return out

    n = len(cycles) + 1
    bench.run(bank, [Agent()], n)
    # ---- replay the model alongside.  trace[t] = values during cycle t-1 (cycle -1 = reset state)
    cls = ["bus%d" % case["busword"], case["ordering"]]
    csr_w = {}
    wide_rw = False
    # the cycle before the first activation: all bus inputs at their reset value 0 (word 0 of page 0 is addressed)
    model.step((0, 0, 0, 0), {})
    for t in range(1, len(trace)):
        c = t - 1                       # cycle whose values trace[t] holds; inputs of cycle c were written at activation c
        cy = cycles[c] if c < len(cycles) else {}
        b = cy.get("bus", (0, 0, 0, 0))
        dv = devlog[c] if c < len(devlog) else {}
        # device-side status changes are visible from cycle c on (comb)
        for (kind, k), val in dv.items():
            if kind == "status":
                model.regs[k]["status"] = val
            elif kind == "wset":
                csr_w[k] = val
        vals = trace[t]
        # compare registered state (as of cycle c) and comb strobes of cycle c
        sel, idx = model.comb(b)
        pos = 1
        if vals[0] != model.dat_r:
            return bad("dat_r", "cycle %d: dat_r=%#x, model %#x (previous cycle bus=%r) | %s" % (c, vals[0], model.dat_r, cycles[c - 1].get("bus") if c else None, _descr(case)),
                       key="csr:dat_r", cls=cls)
        for kind, k, nobs in layout:
            reg = model.regs[k]
            v = vals[pos:pos + nobs]
            pos += nobs
            hit = [n_ for n_, w in enumerate(model.words) if w[0] == k]
            if kind == "csr":
                e_re = int(sel and idx == hit[0] and b[1])
                e_we = int(sel and idx == hit[0] and b[2])
                if v[0] != e_re or v[2] != e_we:
                    return bad("strobe", "cycle %d: raw CSR r%d re=%d we=%d, model re=%d we=%d (bus=%r) | %s" % (c, k, v[0], v[2], e_re, e_we, b, _descr(case)), key="csr:strobe", cls=cls)
                if e_re and v[1] != (b[3] & _m(reg["size"])):
                    return bad("r", "cycle %d: raw CSR r%d r=%#x during re, bus wrote %#x" % (c, k, v[1], b[3]), key="csr:r", cls=cls)
            elif kind == "storage":
                if v[0] != reg["storage"]:
                    return bad("storage", "cycle %d: r%d.storage=%#x, model %#x (bus=%r) | %s" % (c, k, v[0], reg["storage"], b, _descr(case)),
                               key="csr:storage" + (":atomic-little" if (reg["atomic"] and case["ordering"] == "little") else ""), cls=cls)
                if v[1] != reg["re"]:
                    return bad("re", "cycle %d: r%d.re=%d, model %d | %s" % (c, k, v[1], reg["re"], _descr(case)), key="csr:re", cls=cls)
                r = case["regs"][k]
                if "fields" in r:
                    for f, off, fv in zip(r["fields"], Model._offsets(r["fields"]), v[2:]):
                        e = (reg["storage"] >> off) & _m(f["size"])
                        if f["pulse"] and not reg["re"]:
                            e = 0
                        if fv != e:
                            return bad("field", "cycle %d: r%d field %s=%#x, model %#x (storage %#x re %d) | %s" %
                                       (c, k, f["name"], fv, e, reg["storage"], reg["re"], _descr(case)), key="csr:field", cls=cls)
            else:
                last_n = [n_ for n_ in hit if model.words[n_][1] == reg["last_word"]][0]
                e_we = int(sel and idx == last_n and b[2])
                if v[0] != e_we:
                    return bad("status-we", "cycle %d: r%d.we=%d, model %d (bus=%r) | %s" % (c, k, v[0], e_we, b, _descr(case)), key="csr:strobe", cls=cls)
                if v[1] != reg["re"]:
                    return bad("status-re", "cycle %d: r%d.re=%d, model %d | %s" % (c, k, v[1], reg["re"], _descr(case)), key="csr:re", cls=cls)
                if nobs == 3 and reg["re"] and v[2] != reg["r"]:
                    return bad("status-r", "cycle %d: writable status r%d.r=%#x, model %#x" % (c, k, v[2], reg["r"]), key="csr:r", cls=cls)
        # advance the model over the edge at the end of cycle c
        mdev = {}
        for (kind, k), val in dv.items():
            if kind == "write":
                mdev[("write", k)] = val
        for k, val in csr_w.items():
            mdev[("w", k)] = val
        model.step(b, mdev)
        if "rdreg" in cy and model.regs[cy["rdreg"][0]].get("nw", 1) > 1:
            wide_rw = True
    return ok(nt=wide_rw, cls=cls + (["wide-seq"] if wide_rw else []), cycles=n)


def _descr(case):
    return "bus %d %s paging %#x address %d regs %r" % (case["busword"], case["ordering"], case["paging"], case["address"],
                                                        [(r["kind"], r["size"], r.get("atomic", False), bool(r.get("fields"))) for r in case["regs"]])


def subchecks():
    from checks import c12_sram          # csr_bus.SRAM windows; CSRBankArray + gatherer + Interconnect(Shared)
    return [
        Sub("bank", run_case, strategy=st_case, examples=(3000, 100000),
            rule="CSRBank over generated register sets vs cycle-accurate model"),
    ] + c12_sram.subchecks()

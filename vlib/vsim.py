"""vsim: an IEEE 1364-2005 evaluator for the Verilog subset LiteX emits (DESIGN.md, C01).

Two-state.  Expression sizing/signedness per 1364-2005 5.4/5.5: self-determined width/type computed
statically, context width/type propagated down to context-determined operands, leaves extended to the
context width (sign-extended only if the propagated type is signed), every result reduced modulo 2^W.
Unknown text is a loud error (VsimError), never skipped.
"""
import re


class VsimError(Exception):
    pass


class VsimOutOfRange(VsimError):
    """a memory word outside the declared range was read (x in Verilog, clamped by Migen's simulator: semantic-gap class iv)"""


# ------------------------------------------------------------------------------------ tokenizer

_TOK = re.compile(r"""
    (?P<ws>\s+|//[^\n]*|/\*.*?\*/|\(\*(?!\s*\)).*?\*\)) |
    (?P<num>\d+\s*'\s*[sS]?[dDhHbBoO]\s*[0-9a-fA-F_xXzZ]+|\d+) |
    (?P<str>"[^"]*") |
    (?P<id>[A-Za-z_$][A-Za-z0-9_$]*) |
    (?P<op><<<|>>>|<=|>=|==|!=|<<|>>|&&|\|\||[-+*/%&|^~!<>=?:;,.(){}\[\]@#])
""", re.X | re.S)


def tokenize(text):
    out = []
    pos = 0
    n = len(text)
    while pos < n:
        m = _TOK.match(text, pos)
        if not m:
            raise VsimError("cannot tokenize at: %r" % text[pos:pos + 40])
        pos = m.end()
        k = m.lastgroup
        if k == "ws":
            continue
        out.append((k, m.group(k)))
    out.append(("eof", ""))
    return out


# ------------------------------------------------------------------------------------ AST

class N:
    __slots__ = ("k", "a", "L", "S")

    def __init__(self, k, *a):
        self.k = k
        self.a = a
        self.L = None
        self.S = None

    def __repr__(self):
        return "N(%s,%s)" % (self.k, ",".join(repr(x) for x in self.a))


def _m(w):
    return (1 << w) - 1


class Parser:
    def __init__(self, toks):
        self.t = toks
        self.i = 0

    def peek(self, k=0):
        return self.t[self.i + k]

    def next(self):
        t = self.t[self.i]
        self.i += 1
        return t

    def accept(self, val):
        if self.t[self.i][1] == val:
            self.i += 1
            return True
        return False

    def expect(self, val):
        t = self.next()
        if t[1] != val:
            raise VsimError("expected %r, got %r near %r" % (val, t[1], " ".join(x[1] for x in self.t[max(0, self.i - 8):self.i + 4])))
        return t

    # -- expressions (precedence climbing) -------------------------------------------------
    BIN = [("||",), ("&&",), ("|",), ("^",), ("&",), ("==", "!="), ("<", "<=", ">", ">="), ("<<", ">>", "<<<", ">>>"), ("+", "-"), ("*",)]

    def expr(self):
        c = self.binary(0)
        if self.accept("?"):
            a = self.expr()
            self.expect(":")
            b = self.expr()
            return N("?:", c, a, b)
        return c

    def binary(self, lvl):
        if lvl == len(self.BIN):
            return self.unary()
        l = self.binary(lvl + 1)
        while self.peek()[0] == "op" and self.peek()[1] in self.BIN[lvl]:
            op = self.next()[1]
            r = self.binary(lvl + 1)
            l = N("bin", op, l, r)
        return l

    def unary(self):
        t = self.peek()
        if t[0] == "op" and t[1] in ("~", "-", "!", "+"):
            self.next()
            return N("un", t[1], self.unary())
        return self.primary()

    def number(self, s):
        s = s.replace(" ", "").replace("_", "")
        if "'" not in s:
            return N("num", int(s), 32, True)
        w, rest = s.split("'")
        signed = rest[0] in "sS"
        if signed:
            rest = rest[1:]
        base = {"d": 10, "h": 16, "b": 2, "o": 8}[rest[0].lower()]
        if any(c in "xXzZ" for c in rest[1:]):
            raise VsimError("x/z literal not supported: " + s)
        return N("num", int(rest[1:], base) & _m(int(w)), int(w), signed)

    def primary(self):
        t = self.next()
        if t[0] == "num":
            return self.number(t[1])
        if t[1] == "(":
            e = self.expr()
            self.expect(")")
            return e
        if t[1] == "{":
            first = self.expr()
            if self.accept("{"):
                inner = [self.expr()]
                while self.accept(","):
                    inner.append(self.expr())
                self.expect("}")
                self.expect("}")
                return N("rep", first, N("cat", inner) if len(inner) > 1 else inner[0])
            items = [first]
            while self.accept(","):
                items.append(self.expr())
            self.expect("}")
            return N("cat", items)
        if t[0] == "id":
            if t[1] == "$signed" or t[1] == "$unsigned":
                self.expect("(")
                e = self.expr()
                self.expect(")")
                return N("signed" if t[1] == "$signed" else "unsigned", e)
            node = N("id", t[1])
            while self.peek()[1] == "[":
                self.next()
                a = self.expr()
                if self.accept(":"):
                    b = self.expr()
                    self.expect("]")
                    node = N("part", node, a, b)
                else:
                    self.expect("]")
                    node = N("idx", node, a)
            return node
        raise VsimError("unexpected token %r in expression" % (t[1],))

    # -- statements ---------------------------------------------------------------------------
    def statement(self):
        t = self.peek()
        if t[1] == "begin":
            self.next()
            body = []
            while not self.accept("end"):
                body.append(self.statement())
            return N("block", body)
        if t[1] == "if":
            self.next()
            self.expect("(")
            c = self.expr()
            self.expect(")")
            a = self.statement()
            b = None
            if self.accept("else"):
                b = self.statement()
            return N("if", c, a, b)
        if t[1] == "case":
            self.next()
            self.expect("(")
            e = self.expr()
            self.expect(")")
            items = []
            default = None
            while not self.accept("endcase"):
                if self.accept("default"):
                    self.accept(":")
                    default = self.statement()
                else:
                    keys = [self.expr()]
                    while self.accept(","):
                        keys.append(self.expr())
                    self.expect(":")
                    items.append((keys, self.statement()))
            return N("case", e, items, default)
        if t[0] == "id" and t[1] in ("$display", "$finish", "$readmemh"):
            name = self.next()[1]
            args = []
            if self.accept("("):
                while not self.accept(")"):
                    tt = self.next()
                    if tt[1] != ",":
                        args.append(tt)
            self.expect(";")
            return N("sys", name, args)
        if t[1] == ";":
            self.next()
            return N("block", [])
        lhs = self.lvalue()
        op = self.next()[1]
        if op not in ("=", "<="):
            raise VsimError("expected assignment, got %r" % op)
        rhs = self.expr()
        self.expect(";")
        return N("assign", op, lhs, rhs)

    def lvalue(self):
        if self.accept("{"):
            items = [self.lvalue()]
            while self.accept(","):
                items.append(self.lvalue())
            self.expect("}")
            return N("cat", items)
        t = self.next()
        if t[0] != "id":
            raise VsimError("bad lvalue %r" % (t[1],))
        node = N("id", t[1])
        while self.peek()[1] == "[":
            self.next()
            a = self.expr()
            if self.accept(":"):
                b = self.expr()
                self.expect("]")
                node = N("part", node, a, b)
            else:
                self.expect("]")
                node = N("idx", node, a)
        return node


# ------------------------------------------------------------------------------------ module

class Module:
    def __init__(self, text, data_files=None, track_div=False):
        self.track_div = track_div
        self._pending_taint = set()
        self.data_files = data_files or {}
        self.width = {}      # name -> width
        self.signed = {}
        self.init = {}       # name -> int initial value
        self.mems = {}       # name -> (width, depth)
        self.ports = {}      # name -> direction
        self.kind = {}       # name -> "wire" | "reg"
        self.assigns = []    # (lhs, rhs)
        self.comb = []       # statements (always @*)
        self.sync = []       # (clk name, statement)
        self.initials = []
        self.instances = []
        self._parse(text)
        self.reset_state()

    # -- parsing -------------------------------------------------------------------------------
    def _decl(self, p, direction=None):
        """after optional direction: wire|reg [signed] [range] name [mem range] [= expr]"""
        kind = p.next()[1]
        if kind not in ("wire", "reg"):
            raise VsimError("expected wire/reg, got %r" % kind)
        signed = p.accept("signed")
        w = 1
        if p.accept("["):
            hi = self._const(p.expr())
            p.expect(":")
            lo = self._const(p.expr())
            p.expect("]")
            w = hi - lo + 1
        name = p.next()[1]
        if p.peek()[1] == "[":
            p.next()
            a = self._const(p.expr())
            p.expect(":")
            b = self._const(p.expr())
            p.expect("]")
            self.mems[name] = (w, abs(b - a) + 1)
            self.kind[name] = kind
            return name
        if name in self.width:
            raise VsimError("identifier declared twice: " + name)
        self.width[name] = w
        self.signed[name] = signed
        self.kind[name] = kind
        if direction:
            self.ports[name] = direction
        if p.accept("="):
            e = p.expr()
            self.init[name] = e
        return name

    def _const(self, e):
        if e.k == "num":
            return e.a[0]
        if e.k == "bin" and e.a[1].k == "num" and e.a[2].k == "num":
            a, b = e.a[1].a[0], e.a[2].a[0]
            return {"+": a + b, "-": a - b, "*": a * b}[e.a[0]]
        raise VsimError("constant expected")

    def _parse(self, text):
        text = re.sub(r"`timescale[^\n]*", "", text)
        p = Parser(tokenize(text))
        p.expect("module")
        self.name = p.next()[1]
        if p.accept("("):
            while not p.accept(")"):
                if p.accept(","):
                    continue
                d = p.next()[1]
                if d not in ("input", "output", "inout"):
                    raise VsimError("port direction expected, got %r" % d)
                self._decl(p, d)
        p.expect(";")
        while True:
            t = p.peek()
            if t[1] == "endmodule":
                break
            if t[0] == "eof":
                raise VsimError("endmodule missing")
            if t[1] in ("wire", "reg"):
                self._decl(p)
                p.expect(";")
            elif t[1] == "assign":
                p.next()
                lhs = p.lvalue()
                p.expect("=")
                rhs = p.expr()
                p.expect(";")
                self.assigns.append((lhs, rhs))
            elif t[1] == "initial":
                p.next()
                self.initials.append(p.statement())
            elif t[1] == "always":
                p.next()
                p.expect("@")
                p.expect("(")
                if p.accept("*"):
                    p.expect(")")
                    self.comb.append(p.statement())
                else:
                    p.expect("posedge")
                    clk = p.next()[1]
                    p.expect(")")
                    self.sync.append((clk, p.statement()))
            elif t[0] == "id":
                # instance: NAME [#(...)] inst (...);  parsed structurally, not executed
                of = p.next()[1]
                depth = 0
                raw = []
                while True:
                    tt = p.next()
                    if tt[0] == "eof":
                        raise VsimError("unterminated instance")
                    if tt[1] == "(":
                        depth += 1
                    elif tt[1] == ")":
                        depth -= 1
                    elif tt[1] == ";" and depth == 0:
                        break
                    raw.append(tt[1])
                self.instances.append((of, raw))
            else:
                raise VsimError("unexpected %r at module level" % (t[1],))
        # static sizing
        for lhs, rhs in self.assigns:
            self._size(lhs)
            self._size(rhs)
        for s in self.comb:
            self._size_stmt(s)
        for _, s in self.sync:
            self._size_stmt(s)
        for name, e in self.init.items():
            self._size(e)

    def _size_stmt(self, s):
        if s is None:
            return
        k = s.k
        if k == "block":
            for x in s.a[0]:
                self._size_stmt(x)
        elif k == "if":
            self._size(s.a[0])
            self._size_stmt(s.a[1])
            self._size_stmt(s.a[2])
        elif k == "case":
            self._size(s.a[0])
            for keys, st in s.a[1]:
                for kk in keys:
                    self._size(kk)
                self._size_stmt(st)
            self._size_stmt(s.a[2])
        elif k == "assign":
            self._size(s.a[1])
            self._size(s.a[2])

    def _size(self, e):
        """self-determined width L and type S (1364-2005 table 5-22)"""
        k = e.k
        if k == "num":
            e.L, e.S = e.a[1], e.a[2]
        elif k == "id":
            n = e.a[0]
            if n in self.mems:
                e.L, e.S = self.mems[n][0], False
            elif n in self.width:
                e.L, e.S = self.width[n], self.signed[n]
            else:
                raise VsimError("undeclared identifier " + n)
        elif k == "idx":
            self._size(e.a[0])
            self._size(e.a[1])
            base = e.a[0]
            if base.k == "id" and base.a[0] in self.mems:
                e.L, e.S = self.mems[base.a[0]][0], False
            else:
                e.L, e.S = 1, False
        elif k == "part":
            self._size(e.a[0])
            hi, lo = self._const(e.a[1]), self._const(e.a[2])
            e.L, e.S = hi - lo + 1, False
        elif k == "cat":
            for x in e.a[0]:
                self._size(x)
            e.L, e.S = sum(x.L for x in e.a[0]), False
        elif k == "rep":
            n = self._const(e.a[0])
            self._size(e.a[1])
            e.L, e.S = n * e.a[1].L, False
        elif k in ("signed", "unsigned"):
            self._size(e.a[0])
            e.L, e.S = e.a[0].L, k == "signed"
        elif k == "un":
            self._size(e.a[1])
            if e.a[0] == "!":
                e.L, e.S = 1, False
            else:
                e.L, e.S = e.a[1].L, e.a[1].S
        elif k == "bin":
            op, a, b = e.a
            self._size(a)
            self._size(b)
            if op in ("==", "!=", "<", "<=", ">", ">=", "&&", "||"):
                e.L, e.S = 1, False
            elif op in ("<<", ">>", "<<<", ">>>"):
                e.L, e.S = a.L, a.S
            else:
                e.L, e.S = max(a.L, b.L), a.S and b.S
        elif k == "?:":
            for x in e.a:
                self._size(x)
            e.L, e.S = max(e.a[1].L, e.a[2].L), e.a[1].S and e.a[2].S
        else:
            raise VsimError("cannot size " + k)

    # -- state ---------------------------------------------------------------------------------
    def reset_state(self):
        self.v = {n: 0 for n in self.width}
        self.m = {n: [0] * d for n, (w, d) in self.mems.items()}
        self.div = {n: False for n in self.width}       # width-divergence taint (tier 2)
        for name, e in self.init.items():
            self.v[name] = self.ev(e, self.width[name], e.S) & _m(self.width[name])
        for st in self.initials:
            self._run_initial(st)
        self.settle()

    def _run_initial(self, st):
        if st.k == "block":
            for x in st.a[0]:
                self._run_initial(x)
        elif st.k == "sys" and st.a[0] == "$readmemh":
            args = [a for a in st.a[1]]
            fname = args[0][1].strip('"')
            mem = args[1][1]
            if fname not in self.data_files:
                raise VsimError("data file %s not provided" % fname)
            words = [int(l, 16) for l in self.data_files[fname].split() if l.strip()]
            w, d = self.mems[mem]
            for i, x in enumerate(words[:d]):
                self.m[mem][i] = x & _m(w)
        else:
            raise VsimError("unsupported initial statement " + st.k)

    # -- expression evaluation -----------------------------------------------------------------
    def ev(self, e, W, S, inf=False):
        """value of e in a context of width W and type S; result in [0, 2^W).  inf=True: evaluate as if the
        context were infinitely wide (returns a Python int, possibly negative): used for the width-divergence taint."""
        k = e.k
        if k == "bin":
            op, a, b = e.a
            if op in ("+", "-", "*", "&", "|", "^"):
                x = self.ev(a, W, S, inf)
                y = self.ev(b, W, S, inf)
                r = {"+": x + y, "-": x - y, "*": x * y, "&": x & y, "|": x | y, "^": x ^ y}[op]
                return r if inf else r & _m(W)
            if op in ("<<", "<<<", ">>", ">>>"):
                x = self.ev(a, W, S, inf)
                n = self.ev(b, b.L, b.S) & _m(b.L)
                if n > 4096:
                    n = 4096
                if op in ("<<", "<<<"):
                    r = x << n
                    return r if inf else r & _m(W)
                if inf:
                    return x >> n        # unbounded reading (what Migen's integers do): always arithmetic
                if op == ">>>" and S and (x >> (W - 1)) & 1:
                    x -= 1 << W
                return (x >> n) & _m(W)
            # comparisons / logical: self-determined operands, result 1 bit zero-extended
            if op in ("&&", "||"):
                x = self.ev(a, a.L, a.S, inf) != 0
                y = self.ev(b, b.L, b.S, inf) != 0
                return int(x and y) if op == "&&" else int(x or y)
            w = max(a.L, b.L)
            s = a.S and b.S
            if inf:
                # "as if infinitely wide": operands are not reduced modulo 2^w (what Migen's unbounded integers do)
                x = self.ev(a, w, s, True)
                y = self.ev(b, w, s, True)
                return int({"==": x == y, "!=": x != y, "<": x < y, "<=": x <= y, ">": x > y, ">=": x >= y}[op])
            x = self.ev(a, w, s)
            y = self.ev(b, w, s)
            if s:
                if (x >> (w - 1)) & 1:
                    x -= 1 << w
                if (y >> (w - 1)) & 1:
                    y -= 1 << w
            return int({"==": x == y, "!=": x != y, "<": x < y, "<=": x <= y, ">": x > y, ">=": x >= y}[op])
        if k == "un":
            op, a = e.a
            if op == "!":
                return int(self.ev(a, a.L, a.S, inf) == 0)
            x = self.ev(a, W, S, inf)
            if op == "-":
                return -x if inf else (-x) & _m(W)
            if op == "+":
                return x
            return ~x if inf else (~x) & _m(W)
        if k == "?:":
            c = self.ev(e.a[0], e.a[0].L, e.a[0].S, inf)
            return self.ev(e.a[1] if c else e.a[2], W, S, inf)
        # ---- self-determined sub-expressions: evaluate at own width/type, then extend to the context
        L = e.L
        if k == "num":
            x = e.a[0]
        elif k == "id":
            x = self.v[e.a[0]]
        elif k == "idx":
            base = e.a[0]
            i = self.ev(e.a[1], e.a[1].L, e.a[1].S)
            if base.k == "id" and base.a[0] in self.mems:
                mem = self.m[base.a[0]]
                if i >= len(mem):
                    raise VsimOutOfRange("memory %s read out of range (%d)" % (base.a[0], i))
                x = mem[i]
            else:
                x = (self.ev(base, base.L, base.S) >> i) & 1
        elif k == "part":
            base = e.a[0]
            lo = self._const(e.a[2])
            x = (self.ev(base, base.L, base.S) >> lo) & _m(L)
        elif k == "cat":
            x = 0
            for it in e.a[0]:
                x = (x << it.L) | (self.ev(it, it.L, it.S) & _m(it.L))
        elif k == "rep":
            n = self._const(e.a[0])
            v = self.ev(e.a[1], e.a[1].L, e.a[1].S) & _m(e.a[1].L)
            x = 0
            for _ in range(n):
                x = (x << e.a[1].L) | v
        elif k in ("signed", "unsigned"):
            a0 = e.a[0]
            if inf and k == "signed" and a0.k == "cat" and len(a0.a[0]) == 2 and a0.a[0][0].k == "num" and a0.a[0][0].a[0] == 0 \
                    and a0.a[0][0].L == 1:
                # the printer's promotion idiom $signed({1'd0, X}) stands for "X, unsigned, in a signed expression":
                # in the unbounded reading it is simply the unbounded value of X
                X = a0.a[0][1]
                return self.ev(X, X.L, X.S, True)
            x = self.ev(e.a[0], e.a[0].L, e.a[0].S) & _m(L)
        else:
            raise VsimError("cannot evaluate " + k)
        x &= _m(L)
        if inf:
            # extended to an infinitely wide context: sign-extended only if the propagated type is signed
            if S and (x >> (L - 1)) & 1:
                return x - (1 << L)
            return x
        if W > L and S and (x >> (L - 1)) & 1:
            x |= _m(W) & ~_m(L)
        return x & _m(W)

    # -- statements ---------------------------------------------------------------------------
    def _lwidth(self, l):
        return l.L

    def _assign(self, lhs, val, nba, taint=False):
        """val already truncated to lhs width"""
        k = lhs.k
        if k == "cat":
            # {a, b} = val : a takes the high part
            sh = lhs.L
            for it in lhs.a[0]:
                sh -= it.L
                self._assign(it, (val >> sh) & _m(it.L), nba, taint)
            return
        if k == "id":
            self._store(nba, ("s", lhs.a[0], 0, lhs.L, val, taint))
        elif k == "idx":
            base = lhs.a[0]
            i = self.ev(lhs.a[1], lhs.a[1].L, lhs.a[1].S)
            if base.k == "id" and base.a[0] in self.mems:
                self._store(nba, ("m", base.a[0], i, 0, self.mems[base.a[0]][0], val))
            else:
                if i < self.width[base.a[0]]:
                    self._store(nba, ("s", base.a[0], i, 1, val & 1, taint))
        elif k == "part":
            base = lhs.a[0]
            lo = self._const(lhs.a[2])
            if base.k == "idx":   # mem[adr][hi:lo]
                mem = base.a[0].a[0]
                i = self.ev(base.a[1], base.a[1].L, base.a[1].S)
                self._store(nba, ("m", mem, i, lo, lhs.L, val))
            else:
                self._store(nba, ("s", base.a[0], lo, lhs.L, val, taint))
        else:
            raise VsimError("bad assignment target " + k)

    def _store(self, nba, w):
        if nba is not None:
            nba.append(w)
        else:
            self._apply(w)

    def _apply(self, w):
        if w[0] == "s":
            _, name, lo, width, val, taint = w
            mask = _m(width) << lo
            self.v[name] = (self.v[name] & ~mask) | ((val & _m(width)) << lo)
            if taint:
                self.div[name] = True
            elif lo == 0 and width == self.width[name]:
                self.div[name] = False
        else:
            _, name, i, lo, width, val = w
            mem = self.m[name]
            if i < len(mem):
                mask = _m(width) << lo
                mem[i] = (mem[i] & ~mask) | ((val & _m(width)) << lo)

    def _reads_tainted(self, e):
        k = e.k
        if k == "id":
            return self.div.get(e.a[0], False)
        for x in e.a:
            if isinstance(x, N) and self._reads_tainted(x):
                return True
            if isinstance(x, list) and any(isinstance(y, N) and self._reads_tainted(y) for y in x):
                return True
        return False

    def _do_assign(self, lhs, rhs, nba):
        W = max(lhs.L, rhs.L)
        val = self.ev(rhs, W, rhs.S) & _m(lhs.L)
        taint = False
        if self.track_div:
            x = self.ev(rhs, W, rhs.S, inf=True)
            taint = (x & _m(lhs.L)) != val or self._reads_tainted(rhs)
        self._assign(lhs, val, nba, taint)

    def exec(self, s, nba):
        k = s.k
        if k == "block":
            for x in s.a[0]:
                self.exec(x, nba)
        elif k == "assign":
            op, lhs, rhs = s.a
            self._do_assign(lhs, rhs, nba if op == "<=" else None)
        elif k == "if":
            c = self.ev(s.a[0], s.a[0].L, s.a[0].S)
            if self.track_div and (self._reads_tainted(s.a[0]) or bool(c) != bool(self.ev(s.a[0], s.a[0].L, s.a[0].S, True))):
                self._taint_targets(s)
            if c:
                self.exec(s.a[1], nba)
            elif s.a[2] is not None:
                self.exec(s.a[2], nba)
        elif k == "case":
            e = s.a[0]
            w = e.L
            allsigned = e.S
            for keys, _ in s.a[1]:
                for kk in keys:
                    w = max(w, kk.L)
                    allsigned = allsigned and kk.S
            x = self.ev(e, w, allsigned)
            if self.track_div and (self._reads_tainted(e) or (self.ev(e, w, allsigned, True) & _m(w)) != x):
                self._taint_targets(s)
            for keys, st in s.a[1]:
                if any(self.ev(kk, w, allsigned) == x for kk in keys):
                    self.exec(st, nba)
                    return
            if s.a[2] is not None:
                self.exec(s.a[2], nba)
        elif k == "sys":
            pass
        else:
            raise VsimError("cannot execute " + k)

    def _taint_targets(self, s):
        if s is None:
            return
        if s.k == "assign":
            l = s.a[1]
            while l.k in ("idx", "part"):
                l = l.a[0]
            if l.k == "id" and l.a[0] in self.div:
                self.div[l.a[0]] = True
                self._pending_taint.add(l.a[0])      # survives the untainting full-width default assignment of the block
            elif l.k == "cat":
                for it in l.a[0]:
                    self._taint_targets(N("assign", "=", it, None))
        elif s.k == "block":
            for x in s.a[0]:
                self._taint_targets(x)
        elif s.k == "if":
            self._taint_targets(s.a[1])
            self._taint_targets(s.a[2])
        elif s.k == "case":
            for _, st in s.a[1]:
                self._taint_targets(st)
            self._taint_targets(s.a[2])

    def legality(self):
        """violations of IEEE 1364 6.1 / 9.2: continuous assignments drive nets, procedural assignments drive variables"""
        cont = self.targets(which="assign")
        proc = self.targets(which="always")
        out = []
        for nm in sorted(cont):
            if self.kind.get(nm) == "reg":
                out.append("continuous assignment to the variable (reg) %s" % nm)
        for nm in sorted(proc):
            if self.kind.get(nm) == "wire":
                out.append("procedural assignment to the net (wire) %s" % nm)
        for nm in sorted(cont & proc):
            out.append("%s is driven by a continuous assignment and by an always block" % nm)
        return out

    def targets(self, which="all"):
        """names assigned anywhere in the module (continuous, always blocks); memories included"""
        out = set()

        def lv(l):
            if l.k == "cat":
                for it in l.a[0]:
                    lv(it)
                return
            while l.k in ("idx", "part"):
                l = l.a[0]
            if l.k == "id":
                out.add(l.a[0])

        def walk(s_):
            if s_ is None:
                return
            if s_.k == "assign":
                lv(s_.a[1])
            elif s_.k == "block":
                for x in s_.a[0]:
                    walk(x)
            elif s_.k == "if":
                walk(s_.a[1])
                walk(s_.a[2])
            elif s_.k == "case":
                for _, st in s_.a[1]:
                    walk(st)
                walk(s_.a[2])
        if which in ("all", "assign"):
            for lhs, _ in self.assigns:
                lv(lhs)
        if which in ("all", "always"):
            for s_ in self.comb:
                walk(s_)
            for _, s_ in self.sync:
                walk(s_)
        return out

    def settle(self):
        """assigns and always @(*) blocks to a fix-point"""
        for it in range(200):
            snap = (dict(self.v), dict(self.div) if self.track_div else None)
            for lhs, rhs in self.assigns:
                self._do_assign(lhs, rhs, None)
            for s in self.comb:
                nba = []
                self._pending_taint = set()
                self.exec(s, nba)
                for w in nba:
                    self._apply(w)
                for nm in self._pending_taint:
                    self.div[nm] = True
            if snap[0] == self.v and (not self.track_div or snap[1] == self.div):
                return
        raise VsimError("combinational logic does not settle (loop?)")

    def step(self, rising=(), inputs=None):
        """one instant: clocks in `rising` (signal names) rise; then the new input values apply."""
        if rising:
            nba = []
            self._pending_taint = set()
            for clk, s in self.sync:
                if clk in rising:
                    self.exec(s, nba)
            for w in nba:
                self._apply(w)
            for nm in self._pending_taint:
                self.div[nm] = True
        if inputs:
            for name, val in inputs.items():
                self.v[name] = val & _m(self.width[name])
                self.div[name] = False
        self.settle()

    def get(self, name):
        return self.v[name]

"""Process environment for every harness script (DESIGN.md section 2).

* puts the repository under test first on sys.path (VERIF_REPO, default /repo);
* installs a replacement for migen.fhdl.tracer.get_var_name that understands
  CPython >= 3.11 byte-code (Migen lives in site-packages and is not ours to change);
* silences LiteX logging, protects sys.stderr against SoCError;
* per-case isolation helpers (fresh thread, cleared tracer tables).

Never star-import from migen/litex in harness code.
"""
import os
import sys
import dis
import threading
import logging

REPO = os.environ.get("VERIF_REPO", "/repo")
VERIF = os.path.dirname(os.path.dirname(os.path.abspath(__file__)))

if sys.path[0] != REPO:
    sys.path.insert(0, REPO)
if VERIF not in sys.path:
    sys.path.insert(1, VERIF)
_deps = os.path.join(VERIF, ".deps")
if os.path.isdir(_deps) and _deps not in sys.path:
    sys.path.append(_deps)

sys.setrecursionlimit(20000)
threading.stack_size(64 * 1024 * 1024)

_REAL_STDERR = sys.stderr

# ---------------------------------------------------------------------------- tracer shim

_instr_cache = {}

_SKIP = {"LOAD_GLOBAL", "LOAD_ATTR", "LOAD_FAST", "LOAD_DEREF", "LOAD_NAME", "COPY", "BUILD_LIST",
         "CACHE", "LOAD_FAST_CHECK", "LOAD_FAST_AND_CLEAR", "LOAD_METHOD", "PUSH_NULL",
         "LOAD_FAST_LOAD_FAST", "LOAD_CLOSURE"}
_CALLS = {"CALL", "CALL_KW", "CALL_FUNCTION_EX", "CALL_FUNCTION", "CALL_FUNCTION_KW", "CALL_METHOD"}
_STORES = {"STORE_NAME", "STORE_ATTR", "STORE_FAST", "STORE_DEREF", "STORE_GLOBAL"}


def _code_table(code):
    t = _instr_cache.get(code)
    if t is None:
        ins = [i for i in dis.get_instructions(code) if i.opname != "CACHE"]
        t = ({i.offset: n for n, i in enumerate(ins)}, ins)
        _instr_cache[code] = t
    return t


def get_var_name(frame):
    code = frame.f_code
    index, ins = _code_table(code)
    n = index.get(frame.f_lasti)
    if n is None or ins[n].opname not in _CALLS:
        return None
    n += 1
    while n < len(ins):
        op = ins[n].opname
        if op in _STORES:
            return ins[n].argval
        if op in _SKIP:
            n += 1
            continue
        return None
    return None


def install():
    import migen.fhdl.tracer as tracer
    tracer.get_var_name = get_var_name
    logging.disable(logging.CRITICAL)
    # litex must come from REPO
    import litex
    import litex.soc.interconnect
    m = sys.modules.get("litex.soc.interconnect.stream_sim")
    if m is not None:
        m.noticed = True   # no 2 s "compat notice" sleep when something walks sys.modules
    lp = os.path.realpath(os.path.dirname(litex.__file__))
    if not lp.startswith(os.path.realpath(REPO) + os.sep):
        raise RuntimeError("litex imported from %s, expected below %s" % (lp, REPO))
    return tracer


_tracer = None


def reset_case_state():
    """Clear every piece of process-global state the code under test keeps."""
    global _tracer
    if _tracer is None:
        _tracer = install()
    _tracer.classname_to_objs.clear()
    _tracer.name_to_idx.clear()
    sys.stderr = _REAL_STDERR
    try:
        from litex.gen import LiteXContext
        LiteXContext.top = None
        LiteXContext.platform = None
        LiteXContext.toolchain = None
        LiteXContext.soc = None
    except Exception:
        pass


def restore_stderr():
    sys.stderr = _REAL_STDERR


class CaseError(Exception):
    """An exception escaped from a case: harness error unless the check handles it."""


def isolated(fn, *args, **kw):
    """Run fn in a freshly started thread (empty Python stack) after clearing global state."""
    reset_case_state()
    box = {}

    def target():
        try:
            box["r"] = fn(*args, **kw)
        except BaseException as e:  # re-raised in the caller
            box["e"] = e

    th = threading.Thread(target=target)
    th.start()
    th.join()
    restore_stderr()
    if "e" in box:
        raise box["e"]
    return box["r"]

"""C11 helpers: request-relative bus agents for the timeout property.

The generic agents of vlib.wb / vlib.axil are driven by absolute-cycle schedules.  The timeout property is about
alignments *relative to the request* (a slave answering T-1, T, T+1 cycles after the request became visible), so the
agents here carry the wanted latency inside the request itself:

* Wishbone: `WBLatSlave` answers `dat_w[24:28]` cycles after it first saw cyc & stb of a request (15 = never); the
  bench tells it when a request ended (OR of the master-side acks) because a forced termination is invisible at the
  slave port.  It is hardware (a Migen module in the bench top) so that latency 0 exists.
* AXI-Lite / single-beat AXI4: `AxMaster` (two independent lanes, request-relative AW/W skew and response
  back-pressure, optional pipelining) and `AxSlave` (accept latency taken from address bits [8:12] / W data bits
  [24:28], response latency from address bits [12:16], 15 = never; optional pre-asserted ready; absolute-cycle silent
  windows per channel).  The slave logs everything it accepted and answered, keyed by the tag in address bits [16:24].

All agents follow the bench discipline: step(t, values of cycle t-1) -> statements visible in cycle t.
"""
from migen import Module, Signal, Memory, Replicate, If

from vlib import bench
from vlib.wb import ByteMem          # noqa: F401  (re-exported for the check)

NEVER = 15
RESP_OKAY, RESP_SLVERR = 0, 2


def in_windows(wins, t):
    for c0, dur in wins:
        if c0 <= t < c0 + dur:
            return True
    return False


# ------------------------------------------------------------------------------------ Wishbone

class WBLatSlave(Module):
    """ack = cyc & stb & go & (cycles since the request became visible >= dat_w[24:28]) ; 15 = never.
    `term` ends the current request (bench wiring: OR of the acks seen by the masters)."""

    def __init__(self, bus, depth, init_words, term, min_latency1=False):
        dw = len(bus.dat_w)
        self.go = Signal(reset=1)
        self.bus = bus
        mem = Memory(dw, depth, init=list(init_words))
        rp = mem.get_port(async_read=True)
        wp = mem.get_port(write_capable=True, we_granularity=8)
        self.specials += mem, rp, wp
        abits = max(1, (depth - 1).bit_length())
        cnt = Signal(5)
        lat = Signal(4)
        req = Signal()
        ack = Signal()
        self.ack = ack
        self.comb += [
            req.eq(bus.cyc & bus.stb),
            lat.eq(bus.dat_w[24:28]),
            ack.eq(req & self.go & (lat != NEVER) & (cnt >= lat) & (cnt >= (1 if min_latency1 else 0))),
            bus.ack.eq(ack),
            rp.adr.eq(bus.adr[:abits]),
            wp.adr.eq(bus.adr[:abits]),
            wp.dat_w.eq(bus.dat_w),
            wp.we.eq(bus.sel & Replicate(ack & bus.we, dw // 8)),
            If(ack, bus.dat_r.eq(rp.dat_r)).Else(bus.dat_r.eq(int("a5" * (dw // 8), 16))),
        ]
        self.sync += If(req & ~term, If(cnt != 31, cnt.eq(cnt + 1))).Else(cnt.eq(0))


# ------------------------------------------------------------------------------------ AXI-Lite / AXI4 single beat

def _sig(ep, name):
    return getattr(ep, name, None)


class _Lane:
    """one direction (write or read) of AxMaster"""

    def __init__(self, ops, is_write):
        self.ops = ops
        self.is_write = is_write
        self.nxt = 0               # next op to start
        self.cur = None            # op in its request phase: {"i", "s", "a_hs", "d_hs"}
        self.outst = []            # op indices waiting for their response
        self.gap = ops[0].get("gap", 0) if ops else 0
        self.log = [dict(i=i, s=None, a_first=None, a_hs=None, d_first=None, d_hs=None, resp=None, early=False)
                    for i in range(len(ops))]
        self.stray = []            # responses with no request behind them: (cycle, resp, data)
        self.hold = []             # response hold violations
        self.vcnt = 0
        self.prev = None
        self.d_av = 0
        self.d_dv = 0
        self.d_rr = 0

    def finished(self):
        return self.nxt >= len(self.ops) and self.cur is None and not self.outst


class AxMaster:
    """ops: {"addr", "data", "strb", "gap", "a_off", "d_off", "bp", "pipe", "nb"}  (nb: not started before that cycle)
       a_off / d_off: the address / data channel is offered that many cycles after the operation starts;
       bp: 0 = response ready pre-asserted, k >= 1 = the response is stalled exactly k cycles;
       pipe: start without waiting for the previous response (more than one outstanding)."""

    def __init__(self, bus, wops, rops, full=False, idle_ready=(0, 0), size=2):
        self.bus = bus
        self.full = full
        self.size = size
        self.wl = _Lane(wops, True)
        self.rl = _Lane(rops, False)
        self.idle_ready = idle_ready
        self.w = bench.Writer()
        b = bus
        self.sigs = [b.aw.ready, b.w.ready, b.b.valid, b.b.resp, b.ar.ready, b.r.valid, b.r.resp, b.r.data]
        if full:
            self.sigs.append(b.r.last)

    def signals(self):
        return self.sigs

    def finished(self):
        return self.wl.finished() and self.rl.finished()

    def _lane(self, t, lane, a_ready, d_ready, r_valid, r_tok, out, a_ep, d_ep, r_ep):
        c = t - 1
        cur = lane.cur
        # ---- what happened in cycle c
        if cur is not None:
            L = lane.log[cur["i"]]
            if lane.d_av:
                if L["a_first"] is None:
                    L["a_first"] = c
                if a_ready:
                    L["a_hs"] = c
                    cur["a_hs"] = c
            if lane.d_dv:
                if L["d_first"] is None:
                    L["d_first"] = c
                if d_ready:
                    L["d_hs"] = c
                    cur["d_hs"] = c
        if lane.prev is not None:
            if not r_valid:
                lane.hold.append((c, "response valid withdrawn before ready"))
            elif r_tok != lane.prev:
                lane.hold.append((c, "response changed while stalled: %r -> %r" % (lane.prev, r_tok)))
        lane.prev = None
        if r_valid:
            if lane.d_rr:
                lane.vcnt = 0
                if lane.outst:
                    i = lane.outst.pop(0)
                    lane.log[i]["resp"] = (c,) + tuple(r_tok)
                elif cur is not None and lane.log[cur["i"]]["resp"] is None:
                    lane.log[cur["i"]]["resp"] = (c,) + tuple(r_tok)
                    lane.log[cur["i"]]["early"] = True
                else:
                    lane.stray.append((c,) + tuple(r_tok))
            else:
                lane.vcnt += 1
                lane.prev = r_tok
        else:
            lane.vcnt = 0
        # ---- request phase finished ?
        if cur is not None and cur["a_hs"] is not None and (cur["d_hs"] is not None or not lane.is_write):
            if lane.log[cur["i"]]["resp"] is None:
                lane.outst.append(cur["i"])
            lane.cur = cur = None
            lane.gap = lane.ops[lane.nxt].get("gap", 0) if lane.nxt < len(lane.ops) else 0
        # ---- start the next operation ?
        if cur is None and lane.nxt < len(lane.ops):
            op = lane.ops[lane.nxt]
            if (not lane.outst or op.get("pipe")) and t >= op.get("nb", 0):
                if lane.gap > 0:
                    lane.gap -= 1
                else:
                    cur = lane.cur = {"i": lane.nxt, "s": t, "a_hs": None, "d_hs": None}
                    lane.log[lane.nxt]["s"] = t
                    lane.nxt += 1
        # ---- drive cycle t
        w = self.w
        av = dv = 0
        if cur is not None:
            op = lane.ops[cur["i"]]
            av = 1 if (cur["a_hs"] is None and t >= cur["s"] + op.get("a_off", 0)) else 0
            w.set(out, a_ep.addr, op["addr"])
            if self.full:
                w.set(out, a_ep.len, 0)
                w.set(out, a_ep.size, self.size)
                w.set(out, a_ep.burst, 1)
                w.set(out, a_ep.id, op.get("id", 0))
            if lane.is_write:
                dv = 1 if (cur["d_hs"] is None and t >= cur["s"] + op.get("d_off", 0)) else 0
                w.set(out, d_ep.data, op["data"])
                w.set(out, d_ep.strb, op.get("strb", 0xf))
                if self.full:
                    w.set(out, d_ep.last, 1)
        w.set(out, a_ep.valid, av)
        if lane.is_write:
            w.set(out, d_ep.valid, dv)
        lane.d_av, lane.d_dv = av, dv
        # response ready
        ro = lane.outst[0] if lane.outst else (cur["i"] if cur is not None and lane.log[cur["i"]]["resp"] is None else None)
        if ro is None:
            rr = self.idle_ready[0 if lane.is_write else 1]
        else:
            bp = lane.ops[ro].get("bp", 0)
            rr = 1 if (bp == 0 or lane.vcnt >= bp) else 0
        w.set(out, r_ep.ready, rr)
        lane.d_rr = rr

    def step(self, t, v):
        out = []
        b = self.bus
        aw_r, w_r, b_v, b_resp, ar_r, r_v, r_resp, r_data = v[:8]
        r_last = v[8] if self.full else 1
        self._lane(t, self.wl, aw_r, w_r, b_v, (b_resp,), out, b.aw, b.w, b.b)
        self._lane(t, self.rl, ar_r, 0, r_v, (r_resp, r_data, r_last), out, b.ar, None, b.r)
        return out


class _Rx:
    """request channel receiver of AxSlave"""

    def __init__(self, ep, fields, pre, wins, code, gate):
        self.ep = ep
        self.fields = fields
        self.pre = pre
        self.wins = wins
        self.code = code
        self.gate = gate
        self.pend = None
        self.drive = 0
        self.got = []            # (cycle, payload dict)
        self.withdrawn = 0       # valid dropped without a handshake (what a forced termination looks like here)
        self.sigs = [ep.valid] + [getattr(ep, f) for f in fields]

    def step(self, t, vals, out, w):
        c = t - 1
        valid = vals[0]
        pay = dict(zip(self.fields, vals[1:]))
        if valid and self.drive:
            self.got.append((c, pay))
            self.pend = None
        elif valid:
            if self.pend is None:
                self.pend = c
        else:
            if self.pend is not None:
                self.withdrawn += 1
            self.pend = None
        if in_windows(self.wins, t) or not self.gate():
            nxt = 0
        elif self.pend is not None:
            k = self.code(pay)
            nxt = 1 if (k != NEVER and t >= self.pend + max(1, k)) else 0
        else:
            nxt = 1 if self.pre else 0
        self.drive = nxt
        w.set(out, self.ep.ready, nxt)


class _Tx:
    """response channel of AxSlave: in-order queue of (not before cycle, payload dict); holds valid until ready"""

    def __init__(self, ep, fields):
        self.ep = ep
        self.fields = fields
        self.q = []
        self.offering = None
        self.sent = []           # (cycle, payload, tag)
        self.sigs = [ep.ready]

    def step(self, t, vals, out, w):
        c = t - 1
        if self.offering is not None and vals[0]:
            self.sent.append((c,) + self.offering)
            self.offering = None
        if self.offering is None and self.q and t >= self.q[0][0]:
            _, pay, tag = self.q.pop(0)
            self.offering = (pay, tag)
        if self.offering is not None:
            w.set(out, self.ep.valid, 1)
            for f in self.fields:
                w.set(out, getattr(self.ep, f), self.offering[0].get(f, 0))
        else:
            w.set(out, self.ep.valid, 0)
            for f in self.fields:
                w.set(out, getattr(self.ep, f), 0)


class _RxPair:
    """AW and W taken together, in one cycle, once both are valid (awready = wready = f(awvalid & wvalid)): such a slave
    never holds half a write, so a forced termination cannot leave it with an orphan address or data word."""

    def __init__(self, aw, w, afields, wins, code, gate):
        self.aw, self.w = aw, w
        self.afields = afields
        self.wins = wins
        self.code = code
        self.gate = gate
        self.pend = None
        self.drive = 0
        self.got_aw = []
        self.got_w = []
        self.sigs = [aw.valid] + [getattr(aw, f) for f in afields] + [w.valid, w.data, w.strb]

    def step(self, t, vals, out, wr):
        c = t - 1
        na = len(self.afields)
        apay = dict(zip(self.afields, vals[1:1 + na]))
        wpay = {"data": vals[2 + na], "strb": vals[3 + na]}
        both = vals[0] and vals[1 + na]
        if both and self.drive:
            self.got_aw.append((c, apay))
            self.got_w.append((c, wpay))
            self.pend = None
        elif both:
            if self.pend is None:
                self.pend = c
        else:
            self.pend = None
        nxt = 0
        if self.pend is not None and not in_windows(self.wins, t) and self.gate():
            k = self.code(apay)
            nxt = 1 if (k != NEVER and t >= self.pend + max(1, k)) else 0
        self.drive = nxt
        wr.set(out, self.aw.ready, nxt)
        wr.set(out, self.w.ready, nxt)


class AxSlave:
    """Memory backed AXI-Lite / single-beat AXI4 slave.
    cfg = {"atomic": 0/1, "pre": {"aw":0/1,"w":0/1,"ar":0/1}, "win": {"aw":[[c0,dur],..],"w":[..],"ar":[..]}, "Q": n}
    atomic: AW and W are taken together (windows of "aw" apply); otherwise the two channels are independent.
    address layout inside the slave's window: [2:6] word, [8:12] accept latency code, [12:16] response latency code,
    [16:24] tag;  W accept latency code in data bits [24:28], tag in data bits [16:24]."""

    def __init__(self, bus, mem, cfg, full=False):
        self.bus = bus
        self.mem = mem
        self.full = full
        self.nb = len(bus.w.data) // 8
        Q = cfg.get("Q", 2)
        pre, win = cfg.get("pre", {}), cfg.get("win", {})
        af = ["addr"] + (["id"] if full else [])
        acode = lambda p: (p["addr"] >> 8) & 15
        if cfg.get("atomic"):
            pair = _RxPair(bus.aw, bus.w, af, win.get("aw", []), acode, lambda: len(self.aw_got) - len(self.b.sent) < Q)
            self.aw_got, self.w_got = pair.got_aw, pair.got_w
            rx = [pair]
        else:
            aw = _Rx(bus.aw, af, pre.get("aw", 0), win.get("aw", []), acode, lambda: len(self.aw_got) - len(self.b.sent) < Q)
            wch = _Rx(bus.w, ["data", "strb"], pre.get("w", 0), win.get("w", []), lambda p: (p["data"] >> 24) & 15,
                      lambda: len(self.w_got) - len(self.b.sent) < Q)
            self.aw_got, self.w_got = aw.got, wch.got
            rx = [aw, wch]
        ar = _Rx(bus.ar, af, pre.get("ar", 0), win.get("ar", []), acode, lambda: len(self.ar_got) - len(self.r.sent) < Q)
        self.ar_got = ar.got
        self.b = _Tx(bus.b, ["resp"] + (["id"] if full else []))
        self.r = _Tx(bus.r, ["resp", "data"] + (["id", "last"] if full else []))
        self.rx = rx + [ar]
        self.tx = [self.b, self.r]
        self.parts = self.rx + self.tx
        self.sizes = [len(p.sigs) for p in self.parts]
        self.w = bench.Writer()
        self.npair = 0
        self.nar = 0
        self.writes = []       # (cycle both parts were in, tag, addr, data, strb, answered?)
        self.reads = []        # (cycle, tag, addr, data returned, answered?)

    def signals(self):
        out = []
        for p in self.parts:
            out += p.sigs
        return out

    @staticmethod
    def tag(addr):
        return (addr >> 16) & 0xff

    def step(self, t, vals):
        out = []
        pos = 0
        chunks = []
        for n in self.sizes:
            chunks.append(vals[pos:pos + n])
            pos += n
        nrx = len(self.rx)
        for p, ch in zip(self.rx, chunks[:nrx]):
            p.step(t, ch, out, self.w)
        while self.npair < len(self.aw_got) and self.npair < len(self.w_got):
            ca, pa = self.aw_got[self.npair]
            cw, pw = self.w_got[self.npair]
            self.npair += 1
            addr = pa["addr"]
            self.mem.write(((addr >> 2) & 15) * self.nb, self.nb, pw["data"], pw["strb"])
            rl = (addr >> 12) & 15
            c = max(ca, cw)
            self.writes.append((c, self.tag(addr), addr, pw["data"], pw["strb"], rl != NEVER))
            if rl != NEVER:
                self.b.q.append((c + max(1, rl), {"resp": RESP_OKAY, "id": pa.get("id", 0)}, self.tag(addr)))
        while self.nar < len(self.ar_got):
            ca, pa = self.ar_got[self.nar]
            self.nar += 1
            addr = pa["addr"]
            data = self.mem.read(((addr >> 2) & 15) * self.nb, self.nb)
            rl = (addr >> 12) & 15
            self.reads.append((ca, self.tag(addr), addr, data, rl != NEVER))
            if rl != NEVER:
                self.r.q.append((ca + max(1, rl), {"resp": RESP_OKAY, "data": data, "id": pa.get("id", 0), "last": 1},
                                 self.tag(addr)))
        for p, ch in zip(self.tx, chunks[nrx:]):
            p.step(t, ch, out, self.w)
        return out

    def dirty(self):
        """an address without its data or the reverse is left over (or the pairing slipped): whatever this slave does
        with writes from then on is its own fault"""
        if len(self.aw_got) != len(self.w_got):
            return True
        return any(self.tag(pa["addr"]) != ((pw["data"] >> 16) & 0xff) for (_, pa), (_, pw) in zip(self.aw_got, self.w_got))


# ------------------------------------------------------------------------------------ Wishbone master

class WBOpMaster:
    """vlib.wb.WBMaster plus "nb": an operation is not issued before that absolute cycle (recovery program after the
    fault episode).  ops: {"we","adr","dat","sel","gap","hold","nb"}; results: (op, first visible cycle, ack cycle,
    dat_r, err).  Never gives up: a request that is not terminated keeps the master busy until the cycle limit."""

    def __init__(self, bus, ops):
        self.bus = bus
        self.ops = list(ops)
        self.i = 0
        self.state = "gap"
        self.gap = self.ops[0].get("gap", 0) if self.ops else 0
        self.results = []
        self.w = bench.Writer()
        self.sigs = [bus.ack, bus.err, bus.dat_r]
        self.start = None
        self.acks_outside = 0
        self.hold_cyc = False

    def signals(self):
        return self.sigs

    def finished(self):
        return self.i >= len(self.ops) and self.state != "req"

    def step(self, t, v):
        ack, err, dat_r = v
        out = []
        b = self.bus
        if self.state == "req":
            if ack:
                self.results.append((self.i, self.start, t - 1, dat_r, err))
                op = self.ops[self.i]
                self.i += 1
                self.state = "gap"
                self.gap = self.ops[self.i].get("gap", 0) if self.i < len(self.ops) else 0
                self.hold_cyc = bool(op.get("hold")) and self.i < len(self.ops)
        elif ack:
            self.acks_outside += 1
        if self.state == "gap":
            if self.i < len(self.ops) and self.gap <= 0 and t >= self.ops[self.i].get("nb", 0):
                op = self.ops[self.i]
                self.state = "req"
                self.start = t
                w = self.w
                w.set(out, b.cyc, 1)
                w.set(out, b.stb, 1)
                w.set(out, b.we, op["we"])
                w.set(out, b.adr, op["adr"])
                w.set(out, b.sel, op.get("sel", (1 << len(b.sel)) - 1))
                w.set(out, b.dat_w, op.get("dat", 0))
            else:
                self.gap -= 1
                self.w.set(out, b.stb, 0)
                self.w.set(out, b.cyc, 1 if (self.hold_cyc and self.i < len(self.ops)) else 0)
        return out

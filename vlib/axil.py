"""AXI-Lite / AXI4 agents built from the stream Producer/Consumer (each AXI channel is a stream endpoint).

Master: program of operations, up to K outstanding per direction, AW/W skew by independent channel
schedules, optional 'W never ahead of AW', dependent operations (same word, one of them a write) are
serialised so that the flat-memory scoreboard has a single admissible value.
Slave: memory backed, independent ready schedules per request channel (pre-asserted or valid dependent),
queue depth Q, in-order responses per direction with schedule-driven latency, optional error ranges.
"""
from vlib import bench
from vlib.wb import ByteMem

RESP_OKAY, RESP_SLVERR, RESP_DECERR = 0, 2, 3


def field_names(ep):
    """(payload field names, param field names) in the order bench.ep_fields() flattens them"""
    d = ep.description
    return [f[0] for f in d.payload_layout], [f[0] for f in d.param_layout]


class Multi:
    """compose agents into one (fixed order of stepping)"""

    def __init__(self, agents):
        self.agents = list(agents)
        self.sizes = [len(a.signals()) for a in self.agents]

    def signals(self):
        out = []
        for a in self.agents:
            out += a.signals()
        return out

    def step(self, t, vals):
        out = []
        pos = 0
        for a, n in zip(self.agents, self.sizes):
            w = a.step(t, vals[pos:pos + n])
            pos += n
            if w:
                out += w
        return out


class AXILMaster(Multi):
    """ops: list of {"we":0/1, "addr":byte address, "data":int, "strb":int}
    sched: dict channel -> schedule spec ("aw","w","ar" offer schedules; "b","r" ready schedules)"""

    def __init__(self, bus, ops, sched, K=1, w_after_aw=True, garbage_seed=None, until=None, full=False, word_bytes=None):
        self.bus = bus
        self.ops = ops
        self.K = K
        self.full = full
        nb = word_bytes or (len(bus.w.data) // 8)
        self.nb = nb
        self.widx = [i for i, o in enumerate(ops) if o["we"]]
        self.ridx = [i for i, o in enumerate(ops) if not o["we"]]
        self.done = [False] * len(ops)
        self.result = [None] * len(ops)     # (cycle, data, resp)
        # dependencies: earlier ops touching the same word where one of the two is a write
        self.deps = []
        for i, o in enumerate(ops):
            d = []
            lo_i, hi_i = self._span(o)
            for j in range(i):
                lo_j, hi_j = self._span(ops[j])
                if (o["we"] or ops[j]["we"]) and lo_i < hi_j and lo_j < hi_i:
                    d.append(j)
            self.deps.append(d)
        self.w_done = 0
        self.r_done = 0
        gs = garbage_seed

        def g(k):
            return None if gs is None else gs + k

        def wgate(j):
            p = self.widx[j]
            return j - self.w_done < K and all(self.done[d] for d in self.deps[p])

        def rgate(j):
            p = self.ridx[j]
            return j - self.r_done < K and all(self.done[d] for d in self.deps[p])

        self.aw = bench.Producer(bus.aw, [self._ax_tok(ops[p], bus.aw) for p in self.widx], sched["aw"], garbage_seed=g(1), until=until, gate=wgate)

        def wdata_gate(j):
            # beat index j of the W stream -> write number
            wn = self.w_owner[j] if full else j
            if not wgate_issued(wn):
                return False
            return True

        def wgate_issued(wn):
            if not w_after_aw:
                return wgate(wn)
            return self.aw.idx > wn or (self.aw.idx == wn and self.aw.offering)

        wtoks = []
        self.w_owner = []
        for n, p in enumerate(self.widx):
            o = ops[p]
            if full:
                beats = o["beats"]
                for k, (d, s) in enumerate(beats):
                    pay, par = field_names(bus.w)
                    vals = {"data": d, "strb": s, "id": o.get("id", 0)}
                    wtoks.append((tuple(vals.get(x, 0) for x in pay), tuple(vals.get(x, 0) for x in par), 0, int(k == len(beats) - 1)))
                    self.w_owner.append(n)
            else:
                wtoks.append(((o["data"], o["strb"]), (), 0, 0))
        self.w = bench.Producer(bus.w, wtoks, sched["w"], garbage_seed=g(2), until=until, gate=wdata_gate)
        self.ar = bench.Producer(bus.ar, [self._ax_tok(ops[p], bus.ar) for p in self.ridx], sched["ar"], garbage_seed=g(3), until=until, gate=rgate)
        self.b = bench.Consumer(bus.b, sched["b"], until=until)
        self.r = bench.Consumer(bus.r, sched["r"], until=until)
        self._nb = 0
        self._nr = 0
        self._rbeats = []
        self.extra_responses = []     # responses that no request of this master is waiting for
        Multi.__init__(self, [self.b, self.r, self.aw, self.w, self.ar])

    def _span(self, o):
        if "span" in o:
            return o["span"]
        a = (o["addr"] // self.nb) * self.nb
        return a, a + self.nb

    def _ax_tok(self, o, ep):
        pay, par = field_names(ep)
        return (tuple(o.get(n, 0) for n in pay), tuple(o.get(n, 0) for n in par), 0, 0)

    def step(self, t, vals):
        out = Multi.step(self, t, vals)
        # harvest responses
        while self._nb < len(self.b.got):
            c, tok = self.b.got[self._nb]
            if self._nb >= len(self.widx):
                self.extra_responses.append(("b", c, tok))
                self._nb += 1
                continue
            p = self.widx[self._nb]
            self.result[p] = (c, None, tok[0][0] if not self.full else self._field(self.bus.b, tok, "resp"), tok)
            self.done[p] = True
            self._nb += 1
            self.w_done += 1
        while self._nr < len(self.r.got):
            c, tok = self.r.got[self._nr]
            self._nr += 1
            if self.r_done >= len(self.ridx):
                self.extra_responses.append(("r", c, tok))
                continue
            if self.full:
                self._rbeats.append((c, tok))
                if tok[3]:      # last
                    p = self.ridx[self.r_done]
                    self.result[p] = (c, [self._field(self.bus.r, b, "data") for _, b in self._rbeats],
                                      [self._field(self.bus.r, b, "resp") for _, b in self._rbeats], list(self._rbeats))
                    self.done[p] = True
                    self.r_done += 1
                    self._rbeats = []
            else:
                p = self.ridx[self.r_done]
                # r payload layout: resp, data
                self.result[p] = (c, tok[0][1], tok[0][0], tok)
                self.done[p] = True
                self.r_done += 1
        return out

    def _field(self, ep, tok, name):
        pay, par = field_names(ep)
        if name in pay:
            return tok[0][pay.index(name)]
        return tok[1][par.index(name)]

    def finished(self):
        return all(self.done)

    def hold_violations(self):
        return self.b.hold_violations + self.r.hold_violations


class AXILMemSlave(Multi):
    """AXI-Lite memory slave.  sched: "aw","w","ar" ready schedules, "b","r" response offer schedules."""

    def __init__(self, bus, mem, sched, Q=2, wait_valid=False, err=None, base=0, garbage_seed=None, until=None, silent=None):
        self.bus = bus
        self.mem = mem                  # ByteMem
        self.nb = len(bus.w.data) // 8
        self.err = err or (lambda addr: False)
        self.base = base
        self.Q = Q
        self.pending_w = 0
        self.pending_r = 0
        self.silent = silent or (lambda kind, n: False)     # swallow the n-th response of a kind (fault injection)
        self.mem_mask = None            # if set: memory offset = (addr - base) & mem_mask
        self.aw = bench.Consumer(bus.aw, sched["aw"], until=until, gate=lambda: self._awq() < Q, wait_valid=wait_valid)
        self.w = bench.Consumer(bus.w, sched["w"], until=until, gate=lambda: self._wq() < Q, wait_valid=wait_valid)
        self.ar = bench.Consumer(bus.ar, sched["ar"], until=until, gate=lambda: self._arq() < Q, wait_valid=wait_valid)
        gs = garbage_seed
        self.b = bench.Producer(bus.b, [], sched["b"], garbage_seed=None if gs is None else gs + 11, until=until)
        self.r = bench.Producer(bus.r, [], sched["r"], garbage_seed=None if gs is None else gs + 12, until=until)
        self._naw = self._nw = self._nar = 0
        self.writes = []     # (cycle, addr, data, strb)
        self.reads = []      # (cycle, addr)
        self.nresp_w = 0
        self.nresp_r = 0
        Multi.__init__(self, [self.aw, self.w, self.ar, self.b, self.r])

    def _off(self, addr):
        o = addr - self.base
        if self.mem_mask is not None:
            o &= self.mem_mask
        return (o // self.nb) * self.nb

    def _awq(self):
        return len(self.aw.got) - len(self.b.sent)

    def _wq(self):
        return len(self.w.got) - len(self.b.sent)

    def _arq(self):
        return len(self.ar.got) - len(self.r.sent)

    def step(self, t, vals):
        # consumers first (they see the handshakes of the cycle that just ended)
        out = []
        pos = 0
        for a, n in zip(self.agents[:3], self.sizes[:3]):
            w = a.step(t, vals[pos:pos + n])
            pos += n
            if w:
                out += w
        # pair AW with W in order
        while self._naw < len(self.aw.got) and self._naw < len(self.w.got):
            ca, ta = self.aw.got[self._naw]
            cw, tw = self.w.got[self._naw]
            addr, data, strb = ta[0][0], tw[0][0], tw[0][1]
            self._naw += 1
            resp = RESP_OKAY
            if self.err(addr):
                resp = RESP_SLVERR
            else:
                self.mem.write(self._off(addr), self.nb, data, strb)
            self.writes.append((max(ca, cw), addr, data, strb))
            if not self.silent("w", self.nresp_w):
                self.b.tokens.append(((resp,), (), 0, 0))
            self.nresp_w += 1
        while self._nar < len(self.ar.got):
            ca, ta = self.ar.got[self._nar]
            self._nar += 1
            addr = ta[0][0]
            resp = RESP_SLVERR if self.err(addr) else RESP_OKAY
            data = self.mem.read(self._off(addr), self.nb) if resp == RESP_OKAY else 0
            self.reads.append((ca, addr))
            if not self.silent("r", self.nresp_r):
                self.r.tokens.append(((resp, data), (), 0, 0))
            self.nresp_r += 1
        for a, n in zip(self.agents[3:], self.sizes[3:]):
            w = a.step(t, vals[pos:pos + n])
            pos += n
            if w:
                out += w
        return out

    def hold_violations(self):
        return self.aw.hold_violations + self.w.hold_violations + self.ar.hold_violations


def st_chan_scheds(draw, names=("aw", "w", "ar", "b", "r")):
    from hypothesis import strategies as st
    return {n: draw(st.one_of(st.just(["const", 1]), bench.st_schedule())) for n in names}

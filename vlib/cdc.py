"""Multi-clock machinery for C05 (DESIGN.md 2.4, 2.8, "### C05").

* edge schedules: a JSON-able tagged value that expands to a list of *instants*; an instant is a bit mask
  over the two scheduled clock domains (1 = first domain rises, 2 = second, 3 = both in the same instant);
* ``EdgeTime``: replacement for ``Simulator.time``: ``tick()`` returns the generated instants (falling edges
  in between), ticks derived clock domains (``cd.clk.eq(ClockSignal(x))``) together with their source, and
  runs the metastability injector around every instant;
* ``multireg_lowering(registry)``: lowering for ``MultiReg`` used through ``Simulator(special_overrides=...)``.
  It is flop-for-flop the stock ``MultiRegImpl``; it only records (input expression, flops, destination
  domain) so that the injector can find every synchroniser of the design;
* the injector.  The stock simulator executes two domains that rise in the same instant on pre-edge values,
  i.e. the first flop of a synchroniser whose source changes in that very instant always resolves to the
  *old* word.  Real flops resolve every bit on its own.  For every synchroniser whose destination domain
  rises at an instant and whose input expression has a different value immediately before and immediately
  after that same instant, the first flop is overwritten (after the instant, before anything can look at
  it) by a per-bit mixture of exactly these two values, the mixture being a generated choice.  A mask of 0
  leaves the stock behaviour.  This is the narrow rule of DESIGN C05: old/new are the values around the
  single most recent source edge, and only synchronisers that sample in the instant of that edge are
  touched; an all-ones mask is the same as ordering the source edge just before the destination edge.
  The injector asserts that the first flop really holds the old value before it patches it (self-check of
  the bench), and it never touches anything else;
* ``alias_map``: derived clock domains, extracted from ``<cd>.clk.eq(ClockSignal(<x>))`` comb statements.

Never star-import from migen/litex here.
"""
import random

from hypothesis import strategies as st

from migen.fhdl.structure import Signal, ClockSignal, _Assign
from migen.fhdl.module import Module
from migen.fhdl.bitcontainer import value_bits_sign
from migen.genlib.cdc import MultiReg


# ------------------------------------------------------------------------------------ edge schedules

def _ratio(pa, pb, oa, ob, n):
    out = []
    ta, tb = oa % pa, ob % pb
    while len(out) < n:
        t = min(ta, tb)
        code = 0
        if ta == t:
            code |= 1
            ta += pa
        if tb == t:
            code |= 2
            tb += pb
        out.append(code)
    return out


def expand_edges(spec, n):
    """spec -> list of n instants (1, 2 or 3).  Every style lets both domains rise again and again.
    ["ratio", pa, pb, oa, ob]           two periodic clocks, periods pa/pb (time units), offsets oa/ob
    ["rle", [[code, run], ...]]         runs, repeated cyclically (bursts, alternation, coincidence runs)
    ["iid", wa, wb, wab, seed]          independent instants with weights for {a}, {b}, {a,b}
    ["cat", [[len, spec], ...]]         pieces of the other styles, repeated cyclically"""
    kind = spec[0]
    if kind == "ratio":
        return _ratio(max(1, int(spec[1])), max(1, int(spec[2])), int(spec[3]), int(spec[4]), n)
    if kind == "rle":
        cyc = []
        for code, run in spec[1]:
            cyc += [int(code)] * max(1, int(run))
        if not (any(c & 1 for c in cyc) and any(c & 2 for c in cyc)):
            cyc += [3]
        return [cyc[i % len(cyc)] for i in range(n)]
    if kind == "iid":
        wa, wb, wab = int(spec[1]), int(spec[2]), int(spec[3])
        if wa + wab == 0 or wb + wab == 0:
            wab += 1
        rng = random.Random(int(spec[4]))
        tot = wa + wb + wab
        out = []
        for _ in range(n):
            r = rng.randrange(tot)
            out.append(1 if r < wa else (2 if r < wa + wb else 3))
        return out
    if kind == "cat":
        out = []
        while len(out) < n:
            for ln, sub in spec[1]:
                out += expand_edges(sub, max(1, int(ln)))
                if len(out) >= n:
                    break
        return out[:n]
    raise ValueError(spec)


def clamp_ratio(inst, R):
    """Bound the local frequency ratio: at most R edges of one domain in the half-open interval (i, j]
    between two consecutive edges i < j of the other domain (the time before the first edge counts as an
    interval).  An edge that would exceed the bound is replaced by an edge of the other domain.
    Deterministic, idempotent."""
    out = []
    since = [0, 0]       # edges of domain x since the last edge of the other domain
    for c in inst:
        for x in (0, 1):
            if (c & (1 << x)) and since[x] >= R:
                c = 1 << (1 - x)
        inc = [since[x] + 1 if c & (1 << x) else since[x] for x in (0, 1)]
        for x in (0, 1):
            since[x] = 0 if c & (1 << (1 - x)) else inc[x]
        out.append(c)
    return out


def max_ratio(inst, x):
    """max number of edges of domain x (0/1) in (i, j] between consecutive edges i<j of the other domain
    (leading and trailing partial intervals included)"""
    bit, other = 1 << x, 1 << (1 - x)
    best = cur = 0
    for c in inst:
        if c & bit:
            cur += 1
        best = max(best, cur)
        if c & other:
            cur = 0
    return best


def edge_classes(inst):
    na = sum(1 for c in inst if c & 1)
    nb = sum(1 for c in inst if c & 2)
    nc = sum(1 for c in inst if c == 3)
    out = []
    if nb and na:
        r = na / nb
        out.append("ratio:" + ("<=1/4" if r <= 0.25 else "<=1/2" if r <= 0.5 else "<1" if r < 0.95 else "~1" if r <= 1.05
                               else "<2" if r < 2 else "<4" if r < 4 else ">=4"))
    f = nc / max(1, len(inst))
    out.append("coincident:" + ("none" if nc == 0 else "<10%" if f < 0.1 else "<50%" if f < 0.5 else ">=50%"))
    return out


def st_edges(max_r=8):
    """Strategy of edge-schedule specs.  max_r limits the period ratio / burst length of the styles (a hard
    bound is enforced with clamp_ratio by the caller where the property needs one)."""
    per = st.integers(1, 16)

    def ok_ratio(s_):
        pa, pb = s_[1], s_[2]
        return pa <= max_r * pb and pb <= max_r * pa

    ratio = st.tuples(st.just("ratio"), per, per, st.integers(0, 15), st.integers(0, 15)).map(list).filter(ok_ratio)
    # near-equal periods drift through every phase relation, equal periods keep one (incl. permanent coincidence)
    near = st.tuples(st.just("ratio"), st.integers(2, 16), st.sampled_from([-1, 0, 1]), st.integers(0, 15), st.integers(0, 15)).map(
        lambda s_: ["ratio", s_[1], max(1, s_[1] + s_[2]), s_[3], s_[4]])
    run = st.integers(1, min(12, max_r))
    code = st.sampled_from([1, 2, 3])
    rle = st.tuples(st.just("rle"), st.lists(st.tuples(code, run).map(list), min_size=2, max_size=10)).map(list).filter(
        lambda s_: any(c & 1 for c, _ in s_[1]) and any(c & 2 for c, _ in s_[1]))
    alt = st.sampled_from([["rle", [[1, 1], [2, 1]]], ["rle", [[3, 1]]], ["rle", [[1, 1], [2, 1], [3, 1]]],
                           ["rle", [[3, 6], [1, 1], [3, 6], [2, 1]]]])
    w = st.integers(0, 7)
    iid = st.tuples(st.just("iid"), w, w, w, st.integers(0, 2 ** 16)).map(list).filter(
        lambda s_: s_[1] + s_[3] > 0 and s_[2] + s_[3] > 0 and s_[1] <= max_r * (s_[2] + s_[3]) and s_[2] <= max_r * (s_[1] + s_[3]))
    base = st.one_of(ratio, near, rle, iid, alt)
    cat = st.tuples(st.just("cat"), st.lists(st.tuples(st.integers(4, 60), base).map(list), min_size=2, max_size=4)).map(list)
    return st.one_of(base, base, cat)


def st_meta():
    """metastability policy: [eighths of the opportunities that are forced, seed]"""
    return st.tuples(st.sampled_from([0, 2, 4, 6, 8, 8]), st.integers(0, 2 ** 16)).map(list)


# ------------------------------------------------------------------------------------ MultiReg lowering

class _SyncFlops(Module):
    """flop-for-flop migen.genlib.cdc.MultiRegImpl"""

    def __init__(self, i, o, odomain, n, reset=0):
        self.i = i
        self.o = o
        self.odomain = odomain
        w, signed = value_bits_sign(self.i)
        self.width = w
        self.regs = [Signal((w, signed), reset=reset, reset_less=True) for _ in range(n)]
        sd = getattr(self.sync, self.odomain)
        src = self.i
        for reg in self.regs:
            sd += reg.eq(src)
            src = reg
        self.comb += self.o.eq(src)


def multireg_lowering(registry):
    """class usable as special_overrides={MultiReg: cls}; every lowered synchroniser is appended to registry"""

    class Lowering:
        @staticmethod
        def lower(dr):
            m = _SyncFlops(dr.i, dr.o, dr.odomain, dr.n, dr.reset)
            registry.append(m)
            return m

    return Lowering


def overrides(registry):
    return {MultiReg: multireg_lowering(registry)}


# ------------------------------------------------------------------------------------ derived domains

def alias_map(fragment):
    """{derived domain name: source domain name} from top-level comb statements cd.clk.eq(ClockSignal(x)),
    transitively resolved."""
    clk_of = {}
    for cd in fragment.clock_domains:
        clk_of[cd.clk] = cd.name
    direct = {}

    def visit(stmts):
        for s in stmts:
            if isinstance(s, _Assign):
                if isinstance(s.l, Signal) and s.l in clk_of and isinstance(s.r, ClockSignal):
                    direct[clk_of[s.l]] = s.r.cd
            elif isinstance(s, (list, tuple)):
                visit(s)

    visit(fragment.comb)
    out = {}
    for d in direct:
        s, hops = d, 0
        while s in direct and hops < 16:
            s = direct[s]
            hops += 1
        out[d] = s
    return out


# ------------------------------------------------------------------------------------ time manager + injector

class HarnessError(Exception):
    pass


class UnclockedLogic(Exception):
    """the design has logic in a clock domain that nobody declares or schedules (e.g. a crossing built for the
    wrong domains): a structural finding about the design, not a harness error"""

    def __init__(self, names):
        Exception.__init__(self, ", ".join(names))
        self.names = names


class EdgeTime:
    """sim.time replacement.  instants: list of masks over `domains` (two names); after the list is used up
    the last 64 instants are repeated (callers size the list to the cycle limit, so this is a guard only).
    meta = [p8, seed]: p8 eighths of the injection opportunities are forced away from the stock 'old'."""

    def __init__(self, sim, instants, domains, registry, meta=(0, 0), on_instant=None):
        self.sim = sim
        self.ev = sim.evaluator
        self.instants = instants
        self.domains = list(domains)
        self.registry = registry
        self.p8 = int(meta[0])
        self.rng = random.Random(int(meta[1]))
        self.on_instant = on_instant
        self.k = 0                          # number of instants started
        self.rise = {d: [] for d in self.domains}     # domain -> instant index of its n-th rising edge
        known = {cd.name for cd in sim.fragment.clock_domains}
        al = alias_map(sim.fragment)
        self.alias = al
        self.follow = {d: sorted(x for x, s in al.items() if s == d and x in known) for d in self.domains}
        self.derived_ticks = 0
        self._fall = None
        self._snap = None
        # statistics
        self.opportunities = 0
        self.forced = 0
        self.forced_multibit = 0
        self.blended = 0
        self.coincident = 0

    # -- injector
    def _before(self, rising):
        snap = []
        rs = set(rising)
        for m in self.registry:
            if m.odomain in rs:
                snap.append((m, self.ev.eval(m.i) & ((1 << m.width) - 1)))
        self._snap = snap

    def _after(self):
        snap, self._snap = self._snap, None
        comb = False
        for m, old in snap:
            msk = (1 << m.width) - 1
            new = self.ev.eval(m.i) & msk
            if new == old:
                continue
            r0 = m.regs[0]
            have = self.ev.eval(r0) & msk
            if have != old:
                raise HarnessError("first flop of a synchroniser holds %#x, expected the pre-edge input %#x" % (have, old))
            self.opportunities += 1
            if self.rng.randrange(8) >= self.p8:
                continue
            if self.rng.randrange(3) == 0:
                mix = msk
            else:
                mix = self.rng.getrandbits(m.width)
            val = (old & ~mix) | (new & mix)
            if val == old:
                continue
            self.forced += 1
            if m.width > 1:
                self.forced_multibit += 1
            if val != new:
                self.blended += 1
            self.ev.assign(r0, val)
            if len(m.regs) < 2:
                comb = True
        if comb:
            self.sim._commit_and_comb_propagate()
        else:
            self.ev.commit()

    # -- Simulator.time interface
    def tick(self):
        if self._snap is not None:
            self._after()
        if self._fall is not None:
            f, self._fall = self._fall, None
            return 1, [], f
        k = self.k
        n = len(self.instants)
        code = self.instants[k] if k < n else self.instants[n - 64 + (k - n) % 64 if n >= 64 else k % n]
        rising = []
        for x, d in enumerate(self.domains):
            if code & (1 << x):
                rising.append(d)
                self.rise[d].append(k)
        if code == 3:
            self.coincident += 1
        for d in list(rising):
            for x in self.follow[d]:
                rising.append(x)
                self.derived_ticks += 1
        if self.on_instant is not None:
            self.on_instant(k, code)
        self._before(rising)
        self._fall = list(rising)
        self.k = k + 1
        return 1, rising, []


class LazyProbe:
    """Records signals that only exist once the simulator has lowered the design (fn() -> list of signals)."""

    def __init__(self, fn):
        self.fn = fn
        self.sigs = None
        self.trace = []

    def signals(self):
        if self.sigs is None:
            self.sigs = list(self.fn())
        return self.sigs

    def step(self, t, vals):
        self.trace.append(tuple(vals))
        return None


def run(dut, agents, instants, domains, meta, limit=None, stop=None, box=None, registry=None):
    """Simulate dut under the generated instants.  agents: dict domain -> list (the first domain hosts the
    cycle limiter).  stop(tm) -> bool is evaluated at every edge of the first domain.  box (dict) receives
    the EdgeTime object under "tm" as soon as it exists.  Returns (EdgeTime, registry of synchronisers)."""
    from vlib import bench
    from migen.fhdl.tools import list_clock_domains
    registry = [] if registry is None else registry
    box = {} if box is None else box
    frag = dut.get_fragment()
    unknown = sorted(set(list_clock_domains(frag)) - {cd.name for cd in frag.clock_domains} - set(agents))
    if unknown:
        raise UnclockedLogic(unknown)
    limit = len(instants) if limit is None else limit

    def mk(sim):
        box["tm"] = EdgeTime(sim, instants, domains, registry, meta)
        return box["tm"]

    def stop_(t):
        tm = box["tm"]
        return tm.k >= limit or (stop is not None and stop(tm))

    bench.run(frag, agents, limit + 1, stop=stop_, special_overrides=overrides(registry), time_manager=mk)
    return box["tm"], registry

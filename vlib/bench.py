"""Simulation bench (DESIGN.md 3.7/3.8): agents driven by generated schedules on Migen's simulator.

Discipline inside an agent activation: the values passed to step() are those of the cycle that just
ended (what the flip-flops sampled at this edge); the statements returned become visible in the next
cycle.  Exactly one active generator (the cycle limiter) exists per run; all agents are passive.
"""
import random

from hypothesis import strategies as st

import migen.sim.core as msim            # site-packages simulator: judge for C03..C19 (never the repo's copy)
from migen.fhdl.structure import Signal


# ------------------------------------------------------------------------------------ schedules

class Schedule:
    """cycle index -> bit, defined for every cycle.  spec is JSON-able:
    ["const", b] | ["per", [bits], phase] | ["rle", [[bit, run], ...]] | ["iid", eighths, seed]
    | ["pre", k, b, spec]  (k cycles of b, then spec)"""

    def __init__(self, spec):
        self.spec = spec
        kind = spec[0]
        self.kind = kind
        if kind == "const":
            self.b = int(spec[1])
        elif kind == "per":
            self.bits = [int(x) for x in spec[1]] or [1]
            self.phase = int(spec[2])
        elif kind == "rle":
            bits = []
            for b, n in spec[1]:
                bits += [int(b)] * max(1, int(n))
            self.bits = bits or [1]
            self.phase = 0
        elif kind == "iid":
            self.p = int(spec[1])
            self.rng = random.Random(int(spec[2]))
            self.cache = []
        elif kind == "fin":
            self.bits = [int(x) for x in spec[1]]
        elif kind == "pre":
            self.k = int(spec[1])
            self.b = int(spec[2])
            self.rest = Schedule(spec[3])
        else:
            raise ValueError(spec)

    def bit(self, t):
        k = self.kind
        if k == "const":
            return self.b
        if k in ("per", "rle"):
            return self.bits[(t + self.phase) % len(self.bits)]
        if k == "iid":
            while len(self.cache) <= t:
                self.cache.append(1 if self.rng.randrange(8) < self.p else 0)
            return self.cache[t]
        if k == "fin":
            return self.bits[t] if t < len(self.bits) else 1
        if k == "pre":
            return self.b if t < self.k else self.rest.bit(t - self.k)


def st_schedule(allow_const0=False):
    bit = st.integers(0, 1)
    per = st.tuples(st.just("per"), st.lists(bit, min_size=2, max_size=8), st.integers(0, 7)).map(list)
    rle = st.tuples(st.just("rle"), st.lists(st.tuples(bit, st.integers(1, 12)).map(list), min_size=4, max_size=12)).map(list)
    iid = st.tuples(st.just("iid"), st.sampled_from([1, 2, 4, 6, 7]), st.integers(0, 2 ** 16)).map(list)
    # measured: Hypothesis favours the first alternative, so the trivial style comes last
    # a schedule that is never 1 means "never offers / never ready": excluded here, requested explicitly where wanted
    per = per.filter(lambda s_: 1 in s_[1])
    rle = rle.filter(lambda s_: any(b == 1 for b, _ in s_[1]))
    base = st.one_of(per, rle, iid, per, rle, iid, st.just(["const", 1]))
    pre = st.tuples(st.just("pre"), st.integers(1, 24), bit, base).map(list)
    return st.one_of(base, base, pre)


def sched_has_one(spec):
    k = spec[0]
    if k == "const":
        return spec[1] == 1
    if k == "per":
        return 1 in spec[1]
    if k == "rle":
        return any(b == 1 for b, _ in spec[1])
    if k in ("iid", "fin"):
        return True
    return sched_has_one(spec[3])


def sched_has_zero(spec):
    k = spec[0]
    if k == "const":
        return spec[1] == 0
    if k == "per":
        return 0 in spec[1]
    if k == "rle":
        return any(b == 0 for b, _ in spec[1])
    if k == "iid":
        return True
    if k == "fin":
        return 0 in spec[1]
    return spec[2] == 0 or sched_has_zero(spec[3])


# ------------------------------------------------------------------------------------ endpoint helpers

def ep_fields(ep):
    """(payload signals, param signals) in layout order, nested records flattened."""
    return list(ep.payload.flatten()), list(ep.param.flatten())


def mask(sig):
    return (1 << len(sig)) - 1


class Writer:
    """Collects writes, emitting only changes (statement objects cached per signal/value is not worth it)."""

    def __init__(self):
        self.last = {}

    def set(self, out, sig, val):
        val &= (1 << len(sig)) - 1
        if self.last.get(sig) != val:
            self.last[sig] = val
            out.append(sig.eq(val))


class Producer:
    """Offers tokens according to a schedule; once it offers it holds valid and the token until the
    handshake.  token = (payload tuple, param tuple, first, last).  While idle it drives zeros or garbage."""

    def __init__(self, ep, tokens, sched, garbage_seed=None, until=None, endless=None, gate=None):
        self.gate = gate              # callable(i) -> bool: token i may be offered now
        self.ep = ep
        self.tokens = list(tokens)
        self.sched = sched if isinstance(sched, Schedule) else Schedule(sched)
        self.pay, self.par = ep_fields(ep)
        self.rng = random.Random(garbage_seed) if garbage_seed is not None else None
        self.until = until            # from this cycle on: offer every cycle
        self.endless = endless        # callable(n) -> token, used when tokens run out (cooperative phase)
        self.idx = 0
        self.offering = False
        self.sent = []                # (cycle, token) handshakes as seen by the DUT
        self.w = Writer()
        self.reads = [ep.ready]
        self.cur = None

    def signals(self):
        return self.reads

    def _tok(self, i):
        if i < len(self.tokens):
            return self.tokens[i]
        if self.endless is not None:
            return self.endless(i)
        return None

    def done(self):
        return self._tok(self.idx) is None and not self.offering

    def step(self, t, vals):
        out = []
        ready = vals[0]
        if self.offering and ready:
            self.sent.append((t - 1, self.cur))
            self.idx += 1
            self.offering = False
        if not self.offering:
            tok = self._tok(self.idx)
            want = (self.until is not None and t >= self.until) or self.sched.bit(t)
            if tok is not None and want and (self.gate is None or self.gate(self.idx)):
                self.offering = True
                self.cur = tok
                self._drive(out, 1, tok)
            else:
                if self.rng is not None:
                    g = (tuple(self.rng.getrandbits(len(s)) for s in self.pay),
                         tuple(self.rng.getrandbits(len(s)) for s in self.par),
                         self.rng.getrandbits(1), self.rng.getrandbits(1))
                else:
                    g = (tuple(0 for _ in self.pay), tuple(0 for _ in self.par), 0, 0)
                self._drive(out, 0, g)
        return out

    def _drive(self, out, valid, tok):
        w = self.w
        w.set(out, self.ep.valid, valid)
        for s, v in zip(self.pay, tok[0]):
            w.set(out, s, v)
        for s, v in zip(self.par, tok[1]):
            w.set(out, s, v)
        w.set(out, self.ep.first, tok[2])
        w.set(out, self.ep.last, tok[3])


class Consumer:
    """ready = schedule bit (may be high before valid, may drop without a handshake).  Records the
    handshakes and checks the hold rule on the endpoint it listens to."""

    def __init__(self, ep, sched, until=None, check_hold=True, gate=None, wait_valid=False):
        self.gate = gate              # callable() -> bool: may be ready in the next cycle
        self.wait_valid = wait_valid  # ready only after valid has been seen (valid-dependent ready)
        self.ep = ep
        self.sched = sched if isinstance(sched, Schedule) else Schedule(sched)
        self.pay, self.par = ep_fields(ep)
        self.until = until
        self.reads = [ep.valid, ep.first, ep.last] + self.pay + self.par
        self.got = []                 # (cycle, token)
        self.hold_violations = []     # (cycle, description)
        self.stalled = 0              # cycles with valid & ~ready
        self.max_stall = 0
        self._stall_run = 0
        self.ready_now = 0            # ready value during the cycle that just ended
        self.prev = None              # (token) if valid & ~ready in the previous cycle
        self.w = Writer()
        self.check_hold = check_hold
        self.hold_key = None          # callable(token, beat index) -> the part of the token the hold rule is demanded of
        self.valid_cycles = 0

    def signals(self):
        return self.reads

    def step(self, t, vals):
        out = []
        valid, first, last = vals[0], vals[1], vals[2]
        np_ = len(self.pay)
        tok = (tuple(vals[3:3 + np_]), tuple(vals[3 + np_:]), first, last)
        if self.check_hold and self.prev is not None:
            if not valid:
                self.hold_violations.append((t - 1, "valid withdrawn before ready"))
            elif (tok != self.prev if self.hold_key is None else
                  self.hold_key(tok, len(self.got)) != self.hold_key(self.prev, len(self.got))):
                self.hold_violations.append((t - 1, "token changed while stalled: %r -> %r" % (self.prev, tok)))
        self.prev = None
        if valid:
            self.valid_cycles += 1
            if self.ready_now:
                self.got.append((t - 1, tok))
                self._stall_run = 0
            else:
                self.stalled += 1
                self._stall_run += 1
                self.max_stall = max(self.max_stall, self._stall_run)
                self.prev = tok
        nxt = 1 if (self.until is not None and t >= self.until) else self.sched.bit(t)
        if self.gate is not None and not self.gate():
            nxt = 0
        if self.wait_valid and not (valid and not self.ready_now):
            nxt = 0
        self.ready_now = nxt
        self.w.set(out, self.ep.ready, nxt)
        return out


class Driver:
    """Drives plain signals from a per-cycle function: fn(t) -> {signal: value}."""

    def __init__(self, fn):
        self.fn = fn
        self.w = Writer()

    def signals(self):
        return []

    def step(self, t, vals):
        out = []
        for s, v in self.fn(t).items():
            self.w.set(out, s, v)
        return out


class Probe:
    """Records the listed signals every cycle."""

    def __init__(self, sigs):
        self.sigs = list(sigs)
        self.trace = []

    def signals(self):
        return self.sigs

    def step(self, t, vals):
        self.trace.append(tuple(vals))
        return None


# ------------------------------------------------------------------------------------ running

def _agent_gen(agents, state):
    yield "passive"
    reads = [a.signals() for a in agents]
    t = 0
    while True:
        vals = yield reads
        writes = []
        for a, v in zip(agents, vals):
            w = a.step(t, v)
            if w:
                writes.extend(w)
        if writes:
            yield writes
        t += 1
        state["t"] = t
        yield


def _limiter(ncycles, state, stop):
    t = 0
    while t < ncycles:
        if stop is not None and stop(t):
            break
        t += 1
        yield
    state["cycles"] = t


def run(dut, agents, ncycles, clocks=None, stop=None, special_overrides=None, time_manager=None):
    """agents: list (domain sys) or dict domain -> list.  Returns number of cycles simulated (sys)."""
    if not isinstance(agents, dict):
        agents = {"sys": agents}
    state = {"t": 0, "cycles": 0}
    gens = {}
    first = True
    for dom, ags in agents.items():
        gens[dom] = [_agent_gen(ags, state if first else {"t": 0})]
        first = False
    lim_dom = next(iter(agents))
    gens[lim_dom] = [_limiter(ncycles, state, stop)] + gens[lim_dom]
    if clocks is None:
        clocks = {d: 10 for d in agents}
    sim = msim.Simulator(dut, gens, clocks, special_overrides=special_overrides or {})
    if time_manager is not None:
        sim.time = time_manager(sim)
    try:
        sim.run()
    finally:
        sim.close()
    return state["cycles"]
